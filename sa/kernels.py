"""Decision-table extraction for the two-pointer merge kernels (C08), over Cython's typed tree.

The kernels touch element VALUES only through a three-way comparison of two cached cursor
values, so each has a finite decision table:
  * the main `while 1` loop: per branch (L>R, L<R, EQ) a list of events
        EMIT(side) / INC_RESULT / ADV(side) / BREAKIF(side) / RELOAD(side);
  * tail loops copying the rest of one side;
  * the straight-line prelude, evaluated per scenario (an operand empty; the ranges not
    overlapping) to a result descriptor EMPTY / ALIAS(side) / COPY(side) / CONCAT(a, b) / LOOP.
Nothing is executed; a kernel rewritten into another algorithm is reported UNDECIDED.
"""
from .cyfront import tname, tstr, children, walk


class Undecided(Exception):
    pass


COERCE = ("CoerceToTempNode", "CoerceToPyTypeNode", "CoerceFromPyTypeNode", "CloneNode", "ProxyNode",
          "BoolBinopResultNode", "CoerceToBooleanNode", "NoneCheckNode", "CoerceToMemViewSliceNode")


def unwrap(n):
    while n is not None:
        k = tname(n)
        if k in COERCE:
            n = n.arg
        elif k == "TypecastNode":
            n = n.operand
        elif k == "ResultRefNode":
            n = n.expression
        elif k == "EvalWithTempExprNode":
            n = n.subexpression
        else:
            return n
    return n


def stmts(n):
    if n is None:
        return []
    if isinstance(n, (list, tuple)):
        return [y for x in n for y in stmts(x)]
    if tname(n) == "StatListNode":
        out = []
        for s in n.stats:
            out.extend(stmts(s))
        return out
    if tname(n) in ("GILStatNode", "CompilerDirectivesNode"):
        return stmts(n.body)
    if tname(n) in ("PassStatNode", "CVarDefNode"):
        return []
    return [n]


class Kernel:
    """Roles of the variables of one binary kernel, recovered from its typed tree."""

    def __init__(self, cyfunc):
        self.f = cyfunc
        self.name = cyfunc.name
        args = [a for a in cyfunc.node.args if tstr(a.type).endswith("[:]")]
        if len(args) != 2:
            raise Undecided("kernel does not take two memoryviews")
        self.arr = {"L": args[0].name, "R": args[1].name}
        self.side_of_arr = {v: k for k, v in self.arr.items()}
        self.len = {}
        self.val = {}
        self.ptr = {}
        self.result_obj = None
        self.result_view = None
        self.result_len = None
        body = cyfunc.node.body
        for n in walk(body):
            if tname(n) != "SingleAssignmentNode" or tname(n.lhs) != "NameNode":
                continue
            r = unwrap(n.rhs)
            lhs = n.lhs.name
            if tname(r) == "IndexNode" and tname(r.base) == "AttributeNode" and r.base.attribute == "shape" and tname(r.base.obj) == "NameNode":
                side = self.side_of_arr.get(r.base.obj.name)
                if side and tname(unwrap(r.index)) == "IntNode" and int(unwrap(r.index).value) == 0:
                    self.len.setdefault(side, lhs)
            if tname(r) == "MemoryViewIndexNode" and tname(r.base) == "NameNode" and r.base.name in self.side_of_arr and len(r.indices) == 1:
                side = self.side_of_arr[r.base.name]
                ix = unwrap(r.indices[0])
                if tname(ix) == "NameNode":
                    self.val.setdefault(side, lhs)
                    self.ptr.setdefault(side, ix.name)
            if tstr(n.lhs.type).endswith("[:]") and tname(r) == "NameNode":
                self.result_view = lhs
                self.result_obj = r.name
        # result_len: the counter used to index result_view in stores
        for n in walk(body):
            if tname(n) == "SingleAssignmentNode" and tname(n.lhs) == "MemoryViewIndexNode" and tname(n.lhs.base) == "NameNode" \
                    and n.lhs.base.name == self.result_view and len(n.lhs.indices) == 1 and tname(unwrap(n.lhs.indices[0])) == "NameNode":
                self.result_len = unwrap(n.lhs.indices[0]).name
                break
        for what, d in (("length variable", self.len), ("cursor value", self.val), ("cursor index", self.ptr)):
            if set(d) != {"L", "R"}:
                raise Undecided("cannot identify the %s of both operands" % what)
        if not (self.result_view and self.result_obj):
            raise Undecided("cannot identify the result buffer")
        self.side_of_val = {v: k for k, v in self.val.items()}
        self.side_of_ptr = {v: k for k, v in self.ptr.items()}
        self.side_of_len = {v: k for k, v in self.len.items()}

    # ------------------------------------------------------------ main loop
    def main_loop(self):
        """The merge loop, in one of two recognised forms: `while 1` with an exhaustion test + reload after every advance
        (self.guarded False), or `while L_ptr < L_len and R_ptr < R_len` that reloads both cursor values at the top of
        every pass (self.guarded True)."""
        whiles = [n for n in walk(self.f.node.body) if tname(n) == "WhileStatNode"]
        loops = [n for n in whiles if self._const_true(n.condition)]
        self.guarded = False
        if len(loops) == 1:
            return loops[0]
        if not loops:
            g = [n for n in whiles if self._both_in_range(n.condition)]
            if len(g) == 1:
                self.guarded = True
                return g[0]
            raise Undecided("expected exactly one `while 1` merge loop (or one loop guarded by `L_ptr < L_len and R_ptr < R_len`), found %d and %d" % (0, len(g)))
        raise Undecided("expected exactly one `while 1` merge loop, found %d" % len(loops))

    def _in_range(self, c):
        """side for `X_ptr < X_len` (or `X_len > X_ptr`), else None"""
        c = unwrap(c)
        if tname(c) != "PrimaryCmpNode" or getattr(c, "cascade", None) is not None:
            return None
        a, b = unwrap(c.operand1), unwrap(c.operand2)
        if tname(a) != "NameNode" or tname(b) != "NameNode":
            return None
        op = c.operator
        if a.name in self.side_of_len and b.name in self.side_of_ptr:
            a, b = b, a
            op = {"<": ">", ">": "<"}.get(op)
        if op == "<" and a.name in self.side_of_ptr and b.name in self.side_of_len and self.side_of_ptr[a.name] == self.side_of_len[b.name]:
            return self.side_of_ptr[a.name]
        return None

    def _both_in_range(self, c):
        c = unwrap(c) if c is not None else None
        if c is None or tname(c) != "BoolBinopNode" or c.operator != "and":
            return False
        return {self._in_range(c.operand1), self._in_range(c.operand2)} == {"L", "R"}

    def _const_true(self, c):
        if c is None:
            return True  # Cython folds `while 1` / `while True` into a condition-less loop
        c = unwrap(c)
        return (tname(c) == "IntNode" and int(c.value) != 0) or (tname(c) == "BoolNode" and c.value)

    def relation(self, cond):
        """'L>R' / 'L<R' / 'EQ' / 'NE' for a comparison of the two cursor values."""
        c = unwrap(cond)
        if tname(c) != "PrimaryCmpNode" or getattr(c, "cascade", None) is not None:
            raise Undecided("branch test is not a simple comparison (line %d)" % c.pos[1])
        a, b = unwrap(c.operand1), unwrap(c.operand2)
        if tname(a) != "NameNode" or tname(b) != "NameNode" or a.name not in self.side_of_val or b.name not in self.side_of_val:
            raise Undecided("branch test does not compare the two cursor values (line %d)" % c.pos[1])
        sa, sb = self.side_of_val[a.name], self.side_of_val[b.name]
        if sa == sb:
            raise Undecided("branch test compares a cursor with itself")
        op = c.operator
        if op in ("==", "!="):
            return "EQ" if op == "==" else "NE"
        if op not in (">", "<"):
            raise Undecided("non-strict comparison %s in a branch test: equal elements would be misrouted" % op)
        gt = (op == ">")
        # a > b with a on side sa
        if (sa == "L") == gt:
            return "L>R"
        return "L<R"

    def branch_table(self):
        loop = self.main_loop()
        body = stmts(loop.body)
        pre_ev, post_ev, suffix = [], [], []
        if self.guarded:
            # pass = [reload both cursor values] + if/elif/else + [statements common to every branch]; the loop test then
            # plays the part of `if ptr >= len: break` for BOTH cursors and the next pass's reloads follow it, so every
            # branch is read as: its own events, the common trailer, BREAKIF + RELOAD of both sides
            ifs = [i for i, x in enumerate(body) if tname(x) == "IfStatNode" and not self.exhausted_test(x)]
            if len(ifs) != 1:
                raise Undecided("guarded merge loop does not contain exactly one if/elif/else over the cursor values")
            pre_ev = self.events(body[:ifs[0]])
            post_ev = self.events(body[ifs[0] + 1:])
            if sorted((e[0], e[1]) for e in pre_ev) != [("RELOAD", "L"), ("RELOAD", "R")]:
                raise Undecided("guarded merge loop does not start by loading both cursor values (and nothing else) at line %d" % loop.pos[1])
            ln = loop.pos[1]
            suffix = [("BREAKIF", "L", ln), ("RELOAD", "L", ln), ("BREAKIF", "R", ln), ("RELOAD", "R", ln)]
            body = [body[ifs[0]]]
        if len(body) != 1 or tname(body[0]) != "IfStatNode":
            raise Undecided("merge loop body is not a single if/elif/else")
        ifn = body[0]
        rels = [self.relation(cl.condition) for cl in ifn.if_clauses]
        table = {}
        for rel, cl in zip(rels, ifn.if_clauses):
            if rel in table:
                raise Undecided("two branches test %s" % rel)
            table[rel] = self.events(cl.body) + post_ev + suffix
        missing = [r for r in ("L>R", "L<R", "EQ") if r not in table]
        if "NE" in table or len(missing) != 1 or ifn.else_clause is None:
            raise Undecided("branches are not two of (L>R, L<R, EQ) plus an else: %s" % rels)
        table[missing[0]] = self.events(ifn.else_clause) + post_ev + suffix
        return table, loop

    def events(self, body):
        out = []
        for s in stmts(body):
            k = tname(s)
            if k == "SingleAssignmentNode":
                lhs, rhs = s.lhs, unwrap(s.rhs)
                if tname(lhs) == "MemoryViewIndexNode" and tname(lhs.base) == "NameNode" and lhs.base.name == self.result_view:
                    ix = unwrap(lhs.indices[0])
                    if tname(ix) != "NameNode" or ix.name != self.result_len:
                        out.append(("UNKNOWN", "store into result at %s" % tname(ix), s.pos[1]))
                        continue
                    if tname(rhs) == "NameNode" and rhs.name in self.side_of_val:
                        out.append(("EMIT", self.side_of_val[rhs.name], s.pos[1], "cached"))
                    elif tname(rhs) == "MemoryViewIndexNode" and tname(rhs.base) == "NameNode" and rhs.base.name in self.side_of_arr \
                            and tname(unwrap(rhs.indices[0])) == "NameNode" and unwrap(rhs.indices[0]).name == self.ptr[self.side_of_arr[rhs.base.name]]:
                        out.append(("EMIT", self.side_of_arr[rhs.base.name], s.pos[1], "load"))
                    else:
                        out.append(("UNKNOWN", "emit of an unrecognised value", s.pos[1]))
                elif tname(lhs) == "NameNode" and lhs.name in self.side_of_val and tname(rhs) == "MemoryViewIndexNode" \
                        and tname(rhs.base) == "NameNode" and self.side_of_arr.get(rhs.base.name) == self.side_of_val[lhs.name] \
                        and tname(unwrap(rhs.indices[0])) == "NameNode" and unwrap(rhs.indices[0]).name == self.ptr[self.side_of_val[lhs.name]]:
                    out.append(("RELOAD", self.side_of_val[lhs.name], s.pos[1]))
                elif tname(lhs) == "NameNode" and tname(rhs) == "AddNode" and self._plus_one(rhs, lhs.name) and lhs.name == self.result_len:
                    out.append(("INC_RESULT", None, s.pos[1]))  # x = x + 1 is x += 1
                elif tname(lhs) == "NameNode" and tname(rhs) == "AddNode" and self._plus_one(rhs, lhs.name) and lhs.name in self.side_of_ptr:
                    out.append(("ADV", self.side_of_ptr[lhs.name], s.pos[1]))
                else:
                    out.append(("UNKNOWN", "assignment", s.pos[1]))
            elif k == "InPlaceAssignmentNode":
                lhs = s.lhs
                r = unwrap(s.rhs)
                one = tname(r) == "IntNode" and int(r.value) == 1 and s.operator == "+"
                if tname(lhs) == "NameNode" and lhs.name == self.result_len and one:
                    out.append(("INC_RESULT", None, s.pos[1]))
                elif tname(lhs) == "NameNode" and lhs.name in self.side_of_ptr and one:
                    out.append(("ADV", self.side_of_ptr[lhs.name], s.pos[1]))
                else:
                    out.append(("UNKNOWN", "in-place assignment", s.pos[1]))
            elif k == "IfStatNode":
                side = self.exhausted_test(s)
                if side:
                    out.append(("BREAKIF", side, s.pos[1]))
                else:
                    out.append(("UNKNOWN", "conditional", s.pos[1]))
            elif k == "BreakStatNode":
                out.append(("BREAK", None, s.pos[1]))
            elif k == "ContinueStatNode":
                out.append(("CONTINUE", None, s.pos[1]))
            else:
                out.append(("UNKNOWN", k, s.pos[1]))
        return out

    @staticmethod
    def _plus_one(add, name):
        a, b = unwrap(add.operand1), unwrap(add.operand2)
        for x, y in ((a, b), (b, a)):
            if tname(x) == "NameNode" and x.name == name and tname(y) == "IntNode" and int(y.value) == 1:
                return True
        return False

    def exhausted_test(self, ifn):
        """`if X_ptr >= X_len: break` (or an equivalent test) -> side."""
        if len(ifn.if_clauses) != 1 or ifn.else_clause is not None:
            return None
        cl = ifn.if_clauses[0]
        b = stmts(cl.body)
        if len(b) != 1 or tname(b[0]) != "BreakStatNode":
            return None
        c = unwrap(cl.condition)
        neg = False
        if tname(c) == "NotNode":
            neg = True
            c = unwrap(c.operand)
        if tname(c) != "PrimaryCmpNode":
            return None
        a, bb = unwrap(c.operand1), unwrap(c.operand2)
        if tname(a) != "NameNode" or tname(bb) != "NameNode":
            return None
        op = c.operator
        if a.name in self.side_of_len and bb.name in self.side_of_ptr:
            a, bb = bb, a
            op = {"<": ">", ">": "<", "<=": ">=", ">=": "<=", "==": "=="}.get(op)
        if a.name not in self.side_of_ptr or bb.name not in self.side_of_len or self.side_of_ptr[a.name] != self.side_of_len[bb.name]:
            return None
        if neg:
            op = {"<": ">=", ">": "<=", "<=": ">", ">=": "<"}.get(op)
        # ptr >= len (exact); ptr == len is equivalent given ptr advances by one; ptr > len is too late
        if op in (">=", "=="):
            return self.side_of_ptr[a.name]
        return None

    def tails(self, loop):
        """Tail-copy loops that follow the merge loop: list of sides."""
        out = []
        unknown = []
        for n in walk(self.f.node.body):
            if tname(n) == "WhileStatNode" and n is not loop:
                side = self._tail_side(n)
                if side:
                    out.append((side, n.pos[1]))
                else:
                    unknown.append(n.pos[1])
        return out, unknown

    def bulk_tails(self):
        """memcpy/memmove(&out[...], &side_array[side_ptr], ...) tail copies: [(side, line, contiguous-declared)]"""
        out = []
        for n in walk(self.f.node.body):
            if tname(n) == "SimpleCallNode" and tname(n.function) == "NameNode" and n.function.name in ("memcpy", "memmove"):
                args = n.args if getattr(n, "args", None) is not None else n.arg_tuple.args
                if len(args) != 3:
                    out.append((None, n.pos[1], False))
                    continue
                src = unwrap(args[1])
                while tname(src) in ("AmpersandNode", "TypecastNode", "CoerceToTempNode") and hasattr(src, "operand"):
                    src = unwrap(src.operand)
                base = getattr(src, "base", None)
                name = base.name if base is not None and tname(base) == "NameNode" else None
                side = None
                for sd, arr in self.arr.items():
                    if arr == name:
                        side = sd
                ctg = False
                for a in self.f.node.args:
                    if a.name == name:
                        ctg = "::1" in str(a.type)
                out.append((side, n.pos[1], ctg))
        return out

    def _tail_side(self, n):
        c = unwrap(n.condition)
        if tname(c) != "PrimaryCmpNode":
            return None
        a, b = unwrap(c.operand1), unwrap(c.operand2)
        if tname(a) != "NameNode" or tname(b) != "NameNode":
            return None
        op = c.operator
        if a.name in self.side_of_len:
            a, b = b, a
            op = {"<": ">", ">": "<"}.get(op)
        if op != "<" or a.name not in self.side_of_ptr or b.name not in self.side_of_len or self.side_of_ptr[a.name] != self.side_of_len[b.name]:
            return None
        side = self.side_of_ptr[a.name]
        ev = self.events(n.body)
        kinds = [(e[0], e[1]) for e in ev]
        if sorted(kinds, key=str) == sorted([("EMIT", side), ("INC_RESULT", None), ("ADV", side)], key=str) and kinds.index(("EMIT", side)) < kinds.index(("ADV", side)):
            return side
        return None

    # ------------------------------------------------------------ prelude scenarios
    def scenario(self, sc):
        """Evaluate the function from its entry under scenario sc = dict(emptyL, emptyR, A, B):
        A: first(L) > last(R), B: first(R) > last(L).  Returns a result descriptor."""
        ev = _Prelude(self, sc)
        return ev.run()


class _Prelude:
    def __init__(self, k, sc):
        self.k = k
        self.sc = sc
        self.env = {}
        self.content = {}  # result object name -> ('prefix', side, stop)
        for side, name in k.arr.items():
            self.env[name] = ("arr", side)

    def val(self, n):
        n = unwrap(n)
        t = tname(n)
        if t == "IntNode":
            return ("k", int(n.value))
        if t == "NameNode":
            if n.name in self.env:
                return self.env[n.name]
            return ("unk", n.name)
        if t in ("AddNode", "SubNode"):
            a, b = self.val(n.operand1), self.val(n.operand2)
            if a[0] == "k" and b[0] == "k":
                return ("k", a[1] + b[1] if t == "AddNode" else a[1] - b[1])
            return ("add" if t == "AddNode" else "sub", a, b)
        if t == "IndexNode" and tname(n.base) == "AttributeNode" and n.base.attribute == "shape":
            o = self.val(n.base.obj)
            if o[0] == "arr":
                return ("len", o[1])
            return ("unk", "shape")
        if t == "MemoryViewIndexNode":
            b = self.val(n.base)
            i = self.val(n.indices[0])
            if b[0] == "arr":
                return ("elem", b[1], i)
            return ("unk", "elem")
        if t == "CondExprNode":
            try:
                c = self.truth(getattr(n, "test", None) or n.condition)
            except Undecided:
                return ("unk", "conditional")
            return self.val(n.true_val if c else n.false_val)
        if t in ("GeneralCallNode", "SimpleCallNode"):
            f = n.function
            if tname(f) == "AttributeNode":
                if t == "GeneralCallNode":
                    args = n.positional_args.args
                else:
                    args = n.args if getattr(n, "args", None) is not None else n.arg_tuple.args
                if f.attribute in ("empty", "zeros") and args:
                    return ("new", self.val(args[0]))
                if f.attribute in ("asarray", "asanyarray") and args:
                    return ("asarray", self.val(args[0]))
                if f.attribute in ("array", "copy") and args:
                    return ("copyof", self.val(args[0]))
                if f.attribute == "concatenate" and args and tname(unwrap(args[0])) in ("TupleNode", "ListNode"):
                    return ("concat", tuple(self.val(a) for a in unwrap(args[0]).args))
            if tname(f) == "NameNode" and f.name in ("min", "max"):
                return ("unk", f.name)
            return ("unk", "call")
        if t == "SliceIndexNode":
            return ("slice", self.val(n.base), self.val(n.start) if n.start is not None else ("k", 0), self.val(n.stop) if n.stop is not None else None)
        return ("unk", t)

    def is_first(self, v):
        return v[0] == "elem" and v[2] == ("k", 0)

    def is_last(self, v):
        return v[0] == "elem" and v[2] == ("sub", ("len", v[1]), ("k", 1))

    def truth(self, c):
        c = unwrap(c)
        t = tname(c)
        if t == "BoolBinopNode":
            a = self.truth(c.operand1)
            if c.operator == "and":
                return a and self.truth(c.operand2)
            return a or self.truth(c.operand2)
        if t == "NotNode":
            return not self.truth(c.operand)
        if t == "PrimaryCmpNode":
            a, b = self.val(c.operand1), self.val(c.operand2)
            op = c.operator
            # len(X) vs constant
            for x, y, o in ((a, b, op), (b, a, {"<": ">", ">": "<", "<=": ">=", ">=": "<=", "==": "==", "!=": "!="}[op])):
                if x[0] == "len" and y[0] == "k":
                    empty = self.sc["empty" + x[1]]
                    n = y[1]
                    # len is 0 if empty else "some value >= 1"; only thresholds 0/1 are decidable
                    if o == "==" and n == 0:
                        return empty
                    if o == "!=" and n == 0:
                        return not empty
                    if (o == ">" and n == 0) or (o == ">=" and n == 1):
                        return not empty
                    if (o == "<" and n == 1) or (o == "<=" and n == 0):
                        return empty
                    raise Undecided("length test against %d" % n)
            if op in (">", "<"):
                if op == "<":
                    a, b = b, a
                if self.is_first(a) and self.is_last(b) and a[1] != b[1]:
                    if self.sc["empty" + a[1]] or self.sc["empty" + b[1]]:
                        raise Undecided("element of an empty operand is compared (line %d)" % c.pos[1])
                    return self.sc["A"] if a[1] == "L" else self.sc["B"]
            raise Undecided("prelude test not understood at line %d" % c.pos[1])
        if t == "NameNode":
            v = self.val(c)
            if v[0] == "len":
                return not self.sc["empty" + v[1]]
        raise Undecided("prelude test %s at line %d" % (t, c.pos[1]))

    def run(self):
        try:
            r = self.block(stmts(self.k.f.node.body))
        except _Return as e:
            return self.describe(e.value)
        except _Loop:
            return ("LOOP",)
        return ("FALLS-OFF",)

    def block(self, ss):
        for s in ss:
            k = tname(s)
            if k == "SingleAssignmentNode":
                lhs = s.lhs
                if tname(lhs) == "NameNode":
                    self.env[lhs.name] = self.val(s.rhs)
                elif tname(lhs) == "SliceIndexNode":
                    base = unwrap(lhs.base)
                    if tname(base) == "NameNode":
                        stop = self.val(lhs.stop) if lhs.stop is not None else None
                        start = self.val(lhs.start) if lhs.start is not None else ("k", 0)
                        self.content[base.name] = ("prefix", self.val(s.rhs), start, stop)
                else:
                    pass
            elif k == "InPlaceAssignmentNode":
                if tname(s.lhs) == "NameNode":
                    self.env[s.lhs.name] = ("unk", "inplace")
            elif k == "IfStatNode":
                taken = False
                for cl in s.if_clauses:
                    if self.truth(cl.condition):
                        self.block(stmts(cl.body))
                        taken = True
                        break
                if not taken and s.else_clause is not None:
                    self.block(stmts(s.else_clause))
            elif k == "ReturnStatNode":
                raise _Return(self.val(s.value) if s.value is not None else ("none",))
            elif k == "WhileStatNode":
                if getattr(self.k, "guarded", False) and (self.sc["emptyL"] or self.sc["emptyR"]):
                    # the loop test itself handles the empty operand; what the function returns is then up to the tails
                    raise Undecided("an empty operand reaches the guarded merge loop (no early return): the result is decided by the loop test and the tail copies, which this rule does not evaluate")
                raise _Loop()
            elif k == "ExprStatNode":
                pass
            else:
                raise Undecided("prelude statement %s at line %d" % (k, s.pos[1]))

    def lenval(self, v):
        """0 / 'lenL' / 'lenR' / None for a length-valued symbolic int under the scenario."""
        if v is None:
            return None
        if v[0] == "k":
            return v[1]
        if v[0] == "len":
            return 0 if self.sc["empty" + v[1]] else "len" + v[1]
        return None

    def describe(self, v):
        if v[0] == "new":
            n = self.lenval(v[1])
            return ("EMPTY",) if n == 0 else ("GARBAGE", "uninitialised array of length %s" % (n,))
        if v[0] == "asarray" and v[1][0] == "arr":
            return ("ALIAS", v[1][1])
        if v[0] == "copyof" and v[1][0] == "arr":
            return ("COPY", v[1][1])
        if v[0] == "arr":
            return ("ALIAS", v[1])
        if v[0] == "concat" and all(x[0] == "arr" for x in v[1]):
            return ("CONCAT",) + tuple(x[1] for x in v[1])
        if v[0] == "slice" and v[1][0] == "new":
            stop = self.lenval(v[3])
            if stop == 0:
                return ("EMPTY",)
            # content of the result object
            for name, c in self.content.items():
                if self.env.get(name) == v[1]:
                    src, start, cstop = c[1], c[2], c[3]
                    if src[0] == "arr" and start == ("k", 0) and self.lenval(cstop) == stop == "len" + src[1]:
                        return ("COPY", src[1])
            return ("GARBAGE", "result[:%s] without that many elements written" % (stop,))
        return ("UNKNOWN", repr(v)[:80])


class _Return(Exception):
    def __init__(self, value):
        self.value = value


class _Loop(Exception):
    pass


SCENARIOS = [
    ("left empty", dict(emptyL=True, emptyR=False, A=False, B=False)),
    ("right empty", dict(emptyL=False, emptyR=True, A=False, B=False)),
    ("both empty", dict(emptyL=True, emptyR=True, A=False, B=False)),
    ("no overlap: first(left) > last(right)", dict(emptyL=False, emptyR=False, A=True, B=False)),
    ("no overlap: first(right) > last(left)", dict(emptyL=False, emptyR=False, A=False, B=True)),
    ("ranges overlap", dict(emptyL=False, emptyR=False, A=False, B=False)),
]

# required tables -------------------------------------------------------------------------
BRANCHES = {
    "intersection": {"L>R": {"ADV": ["R"], "EMIT": []}, "L<R": {"ADV": ["L"], "EMIT": []}, "EQ": {"ADV": ["L", "R"], "EMIT": ["*"]}},
    "union": {"L>R": {"ADV": ["R"], "EMIT": ["R"]}, "L<R": {"ADV": ["L"], "EMIT": ["L"]}, "EQ": {"ADV": ["L", "R"], "EMIT": ["*"]}},
    "difference": {"L>R": {"ADV": ["R"], "EMIT": []}, "L<R": {"ADV": ["L"], "EMIT": ["L"]}, "EQ": {"ADV": ["L", "R"], "EMIT": []}},
}
TAILS = {"intersection": set(), "union": {"L", "R"}, "difference": {"L"}}
PRELUDE = {
    "intersection": {"left empty": [("EMPTY",)], "right empty": [("EMPTY",)], "both empty": [("EMPTY",)],
                     "no overlap: first(left) > last(right)": [("EMPTY",), ("LOOP",)], "no overlap: first(right) > last(left)": [("EMPTY",), ("LOOP",)],
                     "ranges overlap": [("LOOP",)]},
    "union": {"left empty": [("ALIAS", "R"), ("COPY", "R")], "right empty": [("ALIAS", "L"), ("COPY", "L")],
              "both empty": [("ALIAS", "R"), ("ALIAS", "L"), ("COPY", "R"), ("COPY", "L"), ("EMPTY",)],
              "no overlap: first(left) > last(right)": [("CONCAT", "R", "L"), ("LOOP",)], "no overlap: first(right) > last(left)": [("CONCAT", "L", "R"), ("LOOP",)],
              "ranges overlap": [("LOOP",)]},
    "difference": {"left empty": [("EMPTY",)], "right empty": [("COPY", "L"), ("ALIAS", "L")], "both empty": [("EMPTY",)],
                   "no overlap: first(left) > last(right)": [("COPY", "L"), ("ALIAS", "L"), ("LOOP",)],
                   "no overlap: first(right) > last(left)": [("COPY", "L"), ("ALIAS", "L"), ("LOOP",)], "ranges overlap": [("LOOP",)]},
}
