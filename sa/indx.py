"""INDX writer/reader analysis shared by C10, C11, C12 (engine P over IndxIO.save / IndxIO.load).

The two functions are walked symbolically; the ordered I/O events are turned into
field lists and compared (a) with the INDX0001 specification table below, which is the
external contract for files already on disk, and (b) with each other.  Widths and
offsets are compared as linear forms over symbolic atoms (word sizes, array byte
counts); no byte is ever written or read.
"""
from . import terms as tm
from .terms import T, const, NONE
from .symex import Interp, flat_guards
from . import kind as K
from .core import PROVED, VIOLATED, UNDECIDED

NOINLINE = {"fit_dtype", "IndxIO.format", "IndxIO.dtype"}

# INDX0001 specification (transcribed from the format's documentation; all little-endian):
SPEC = [
    ("magic", "bytes", b"INDX"),
    ("version", "bytes", b"0001"),
    ("payload size", "struct", "<Q"),
    ("coordinate arity", "struct", "<B"),
    ("entry count", "struct", "<L"),
    ("index word size", "struct", "<B"),
    ("common value", "word", "index"),
    ("coordinates", "array", "index"),  # entry count x arity index words, row-major
    ("rowid word size", "struct", "<B"),
    ("lengths", "array", "rowid"),  # entry count rowid words
    ("rowids", "array*", "rowid"),  # one array per entry, in entry order
]
CALCSIZE = {"<B": 1, "<H": 2, "<L": 4, "<I": 4, "<Q": 8}
HELPER_FMT = {1: "<B", 2: "<H", 4: "<L", 8: "<Q"}
HELPER_DTYPE = {1: "uint8", 2: "uint16", 4: "uint32", 8: "uint64"}

F_FORMAT = T("func", "indxio:IndxIO.format")
F_DTYPE = T("func", "indxio:IndxIO.dtype")
F_FIT = T("func", "iindexes:fit_dtype")


def is_call(t, name):
    return t.op == "call" and tm.callee_name(t) == name


def helper_arg(t, f):
    """t == f(x) -> x"""
    if t.op == "call" and t.args[0] == f and len(t.args[1]) == 1:
        return t.args[1][0]
    return None


def idx0(t):
    if t.op == "sub" and tm.is_const(t.args[1], 0):
        return t.args[0]
    return None


# ------------------------------------------------------------------ linear forms
def linear(t, canon):
    """term -> {atom: coef} with atom 1 for the constant; None if not linear."""
    if t.op == "const" and isinstance(t.args[1], int) and not isinstance(t.args[1], bool):
        return {1: t.args[1]}
    if t.op == "binop":
        o, l, r = t.args
        if o in ("+", "-"):
            a, b = linear(l, canon), linear(r, canon)
            if a is None or b is None:
                return None
            out = dict(a)
            for k, v in b.items():
                out[k] = out.get(k, 0) + (v if o == "+" else -v)
            return {k: v for k, v in out.items() if v != 0 or k == 1}
        if o == "*":
            a, b = linear(l, canon), linear(r, canon)
            if a is not None and set(a) <= {1}:
                c = a.get(1, 0)
                return None if b is None else {k: v * c for k, v in b.items()}
            if b is not None and set(b) <= {1}:
                c = b.get(1, 0)
                return None if a is None else {k: v * c for k, v in a.items()}
    a = canon(t)
    return {a: 1}


def lin_eq(a, b):
    if a is None or b is None:
        return False
    ka = {k: v for k, v in a.items() if v != 0}
    kb = {k: v for k, v in b.items() if v != 0}
    return ka == kb


def lin_diff(a, b):
    if a is None or b is None:
        return "<non-linear>"
    d = dict(a)
    for k, v in b.items():
        d[k] = d.get(k, 0) - v
    return lin_show({k: v for k, v in d.items() if v != 0}) + " (recorded minus written)"


def _atom_show(k):
    if isinstance(k, tuple):
        return "%s(%s)" % (k[0], ", ".join(_shape(x) if isinstance(x, T) else str(x) for x in k[1:]))
    return str(k)


def lin_show(a):
    if a is None:
        return "<non-linear>"
    parts = []
    for k, v in a.items():
        if v == 0:
            continue
        parts.append(str(v) if k == 1 else ("%s*%s" % (v, _atom_show(k)) if v != 1 else _atom_show(k)))
    return " + ".join(parts) or "0"


class Collector:
    def __init__(self):
        self.items = []

    def add(self, rule, status, where, construct, detail="", witness=None):
        self.items.append((rule, status, where, construct, detail, witness))

    def ok(self, cond, rule, where, construct, okd="", badd="", witness=None, undecided=False):
        if cond:
            self.add(rule, PROVED, where, construct, okd)
        elif undecided:
            self.add(rule, UNDECIDED, where, construct, badd)
        else:
            self.add(rule, VIOLATED, where, construct, badd, witness)
        return cond


class Field:
    def __init__(self, kind, ev, **kw):
        self.kind = kind
        self.ev = ev
        self.__dict__.update(kw)

    def __repr__(self):
        return "<%s %s>" % (self.kind, {k: v for k, v in self.__dict__.items() if k not in ("ev", "kind")})


def discover_ladders(prog):
    """Functions of indxio / iindexes (other than fit_dtype and the two documented helpers) that are
    ladders over one integer parameter: fq -> pieces.  They are kept as calls and decided by sa/ladder.py."""
    from . import ladder as LD
    out = {}
    for modname in ("indxio", "iindexes"):
        m = prog.modules.get(modname)
        if m is None:
            continue
        cands = list(m.functions.values()) + [f for c in m.classes.values() if c.name == "IndxIO" for f in c.methods.values()]
        for fi in cands:
            if fi.qualname in NOINLINE or fi.qualname in ("IndxIO.save", "IndxIO.load") or getattr(fi, "node", None) is None:
                continue
            if len([a for a in fi.params() if a not in ("self", "cls")]) != 1:
                continue
            try:
                pieces = LD.Evaluator(prog, modname).pieces(fi)
            except LD.Unknown:
                continue
            except Exception:
                continue
            vals = {v for _, _, v in pieces}
            if len(pieces) >= 2 and all(isinstance(v, (int, LD.DType)) or v in (None, "raise") for v in vals) and any(isinstance(v, (int, LD.DType)) for v in vals):
                out[fi.fq] = pieces
    return out


# =========================================================================== writer
class Writer:
    def __init__(self, prog):
        self.prog = prog
        self.fi = prog.func("indxio", "IndxIO.save")
        self.ladders = discover_ladders(prog)
        self.I = Interp(prog, no_inline=set(NOINLINE) | set(self.ladders))
        self.frame = self.I.run(self.fi)
        names = self.fi.params()
        self.f = tm.param(names[0])
        self.p_entries, self.p_common, self.p_dtype = (tm.param(n) for n in names[1:4])
        self.events = self.I.events
        self.fields = []
        self.other_file_ops = []
        self._extract()

    def _extract(self):
        for ev in self.events:
            if ev.kind != "call":
                continue  # events of inlined helpers count: extracting a helper must not change the table
            m, recv, args = ev["method"], ev["recv"], ev["args"]
            if recv == self.f:
                if m == "write" and len(args) == 1:
                    a = args[0]
                    if a.op == "const" and isinstance(a.args[1], bytes):
                        self.fields.append(Field("bytes", ev, value=a.args[1]))
                    elif is_call(a, "struct.pack") and len(a.args[1]) == 2:
                        self.fields.append(Field("struct", ev, fmt=a.args[1][0], value=a.args[1][1]))
                    else:
                        self.fields.append(Field("unknown", ev, value=a))
                elif m in ("tell", "fileno", "flush"):
                    pass
                else:
                    self.other_file_ops.append(ev)
            elif m == "tofile" and args and args[0] == self.f:
                self.fields.append(Field("array", ev, arr=recv, inloop=bool(ev.loops)))
            elif any(a == self.f for a in args) and ev["name"] not in ("builtins.print",) and not ev["resolved"]:
                self.other_file_ops.append(ev)  # (repo helpers are inlined: their own events are examined)
            elif any(tm.contains(a, lambda x: is_call(x, ".fileno") and x.args[0].args[0] == self.f) for a in args) and not ev["resolved"] \
                    and (ev["name"] or "") not in ("os.fsync", "os.fdatasync", "os.fstat", "os.isatty", "os.fspath"):
                # the descriptor handed to an OS call that can resize / write the file behind the writer's back
                self.other_file_ops.append(ev)

    # dtype of a written array, from the shape of its term and the guards in force
    def array_dtype(self, t, guards=()):
        outs = set()
        for a in self._alts_with_cond(t):
            term, conds = a
            d = self._dtype1(term, conds + list(guards))
            outs.add(d)
        if len(outs) == 1:
            return outs.pop()
        return None

    def _alts_with_cond(self, t, conds=None):
        conds = conds or []
        if t.op == "ifexp":
            c, a, b = t.args
            return self._alts_with_cond(a, conds + [(c, True)]) + self._alts_with_cond(b, conds + [(c, False)])
        if t.op == "phi":
            out = []
            for a in t.args:
                out += self._alts_with_cond(a, conds)
            return out
        return [(t, conds)]

    def _dtype1(self, term, conds):
        if term.op == "call":
            nm = tm.callee_name(term)
            if nm == ".astype" and term.args[1]:
                return term.args[1][0]
            if nm in ("numpy.array", "numpy.asarray", "numpy.zeros", "numpy.empty", "numpy.fromiter"):
                d = tm.kwarg(term, "dtype")
                if d is not None:
                    return d
        # guard: (X.dtype != D) is False
        for c, pol in conds:
            if c.op == "cmp" and c.args[0] in ("!=", "==") and (pol is (c.args[0] == "==")):
                l, r = c.args[1], c.args[2]
                for x, d in ((l, r), (r, l)):
                    if x.op == "attr" and x.args[1] == "dtype" and term in tm.alts(x.args[0]) + [x.args[0]]:
                        return d
                    if x.op == "attr" and x.args[1] == "dtype" and x.args[0] == term:
                        return d
        return None

    def canon(self, t):
        """Canonical atoms for byte-count arithmetic on the writer side."""
        # len(A) * D.itemsize where A is an array of dtype D  ->  nbytes(A)
        if t.op == "binop" and t.args[0] == "*":
            for x, y in ((t.args[1], t.args[2]), (t.args[2], t.args[1])):
                if is_call(x, "builtins.len") and y.op == "attr" and y.args[1] == "itemsize":
                    arr = x.args[1][0]
                    if self.array_dtype(arr) == y.args[0]:
                        return ("nbytes", self._arrkey(arr))
                if y.op == "attr" and y.args[1] == "itemsize":
                    inner = x
                    while (is_call(inner, "builtins.int") or is_call(inner, ".item")) and (inner.args[1] or is_call(inner, ".item")):
                        inner = inner.args[1][0] if is_call(inner, "builtins.int") else inner.args[0].args[0]
                    if is_call(inner, "builtins.sum") or is_call(inner, "numpy.sum") or is_call(inner, ".sum"):
                        arr = inner.args[1][0] if (inner.args[1] and not is_call(inner, ".sum")) else inner.args[0].args[0]
                        if is_call(arr, ".tolist"):
                            arr = arr.args[0].args[0]
                        if self.array_dtype(arr) == y.args[0]:
                            return ("sum*itemsize", self._arrkey(arr), y.args[0])
        # a word size w with D = IndxIO.dtype(w): w = D.itemsize (helper table, R-C10-c)
        for dname in ("d_index", "d_row"):
            dd = getattr(self, dname, None)
            if dd is not None and helper_arg(dd, F_DTYPE) is not None and helper_arg(dd, F_DTYPE) == t:
                return ("itemsize", dd)
        if t.op == "attr" and t.args[1] == "nbytes":
            return ("nbytes", self._arrkey(t.args[0]))
        if t.op == "attr" and t.args[1] == "itemsize":
            return ("itemsize", t.args[0])
        return ("term", t)

    def _arrkey(self, arr):
        """Identity of an array up to dtype conversion (astype does not change the element count,
        and nbytes is always taken after the conversion in the code under analysis)."""
        return arr


# =========================================================================== reader
class Reader:
    def __init__(self, prog):
        self.prog = prog
        self.fi = prog.func("indxio", "IndxIO.load")
        self.I = Interp(prog, no_inline=NOINLINE)
        self.frame = self.I.run(self.fi)
        self.f = tm.param(self.fi.params()[0])
        self.events = self.I.events
        self.ops = []  # ordered I/O operations
        self._extract()

    def _extract(self):
        for ev in self.events:
            if ev.kind in ("return", "yield"):
                self.ops.append(Field(ev.kind, ev, value=ev["value"]))
                continue
            if ev.kind == "store_sub" and not ev.stack:
                self.ops.append(Field("store", ev, base=ev["base"], index=ev["index"], value=ev["value"]))
                continue
            if ev.kind != "call":
                continue
            nm, m, recv, args = ev["name"], ev["method"], ev["recv"], ev["args"]
            if recv == self.f and m in ("read", "readline", "readinto", "readlines", "seek"):
                self.ops.append(Field("fread", ev, method=m, n=args[0] if args else None, result=ev["result"]))
            elif nm == "struct.unpack":
                self.ops.append(Field("unpack", ev, fmt=args[0], src=args[1], result=ev["result"]))
            elif nm == "struct.unpack_from":
                off = tm.kwarg(ev["result"], "offset")
                if off is None and len(args) > 2:
                    off = args[2]
                self.ops.append(Field("unpack_from", ev, fmt=args[0], buf=args[1], offset=off if off is not None else const(0), result=ev["result"]))
            elif nm == "numpy.ndarray":
                r = ev["result"]
                g = lambda k, i: tm.kwarg(r, k) if tm.kwarg(r, k) is not None else (args[i] if len(args) > i else None)
                self.ops.append(Field("ndarray", ev, shape=g("shape", 0), dtype=g("dtype", 1), buf=g("buffer", 2), offset=g("offset", 3) or const(0), result=r))
            elif nm == "numpy.frombuffer" and args:
                # frombuffer(buffer, dtype, count=-1, offset=0): an array over (the rest of) a buffer object
                r = ev["result"]
                g = lambda k, i: tm.kwarg(r, k) if tm.kwarg(r, k) is not None else (args[i] if len(args) > i else None)
                cnt = g("count", 2)
                if cnt is not None and tm.is_const(cnt, -1):
                    cnt = None
                self.ops.append(Field("ndarray", ev, shape=cnt, dtype=g("dtype", 1), buf=args[0], offset=g("offset", 3) or const(0), result=r, to_end=cnt is None))
            elif nm in ("numpy.fromfile", "numpy.memmap"):
                self.ops.append(Field("other-read", ev, result=ev["result"]))
            elif nm == "mmap.mmap":
                self.ops.append(Field("mmap", ev, length=args[1] if len(args) > 1 else tm.kwarg(ev["result"], "length"), result=ev["result"]))
            elif nm in ("os.fstat", "os.stat", "os.path.getsize"):
                self.ops.append(Field("stat", ev, result=ev["result"]))


def _same_buffer(b, mapped):
    """b is the mapped buffer itself or a memoryview of all of it."""
    while b is not None and b.op == "call" and (tm.callee_name(b) or "").split(".")[-1] == "memoryview" and b.args[1]:
        b = b.args[1][0]
    return b == mapped


def analyse(prog):
    """Run all INDX rules; returns (Collector, info dict)."""
    C = Collector()
    info = {}
    W = Writer(prog)
    R = Reader(prog)
    info["writer_fields"] = [repr(f)[:300] for f in W.fields]
    info["reader_ops"] = ["%s@%d" % (o.kind, o.ev.line) for o in R.ops]
    _writer_rules(W, C, info)
    _reader_rules(R, C, info)
    _helper_rules(prog, C, info)
    _cross_rules(W, R, C, info)
    return C, info, W, R


# ---------------------------------------------------------------------------- writer
def _writer_rules(W, C, info):
    where = W.fi.fq
    fields = W.fields
    # integer payloads stay integers: NumPy has no integer type that holds both int64 and uint64, so joining a Python int
    # (int64) with a uint64 array (numpy.append / concatenate / hstack / array([...])) goes through float64 and rounds
    # every value above 2**53 - the 8-byte index word exists for exactly those values
    for ev in W.I.events:
        if ev.kind == "call" and ev["name"] in ("numpy.append", "numpy.concatenate", "numpy.hstack", "numpy.vstack", "numpy.stack", "numpy.r_"):
            parts = list(ev["args"])
            if ev["name"] != "numpy.append" and parts and parts[0].op in ("tuple", "list"):
                parts = list(parts[0].args)
            elif ev["name"] != "numpy.append" and parts and parts[0].op == "alloc" and parts[0] in W.I.heap:
                parts = list(W.I.heap[parts[0]].get("elts", []))
            ps = [q for q in W.fi.params() if q not in ("self", "cls")]
            cname = ps[2] if len(ps) > 2 else "common"  # save(f, entries, common, dtype): the common value, whatever it is called
            scal = [a for a in parts if a.op == "param" and a.args[0] == cname]
            arrs = [a for a in parts if a not in scal]
            if scal and arrs:
                C.add("R-C10-e", VIOLATED, "%s@%d" % (where, ev.line), "the common value and the coordinates are written as integers",
                      "%s joins the Python int `common` (int64) with the coordinate array: when that array is uint64 (8-byte index word) NumPy promotes the pair to float64, so the common value and every coordinate above 2**53 "
                      "are rounded before they are cast back and written" % ev["name"], {"example": "entries {(2**53 + 1,): rows}: the file holds 2**53"})
    if len(fields) > len(SPEC):
        C.add("R-C11-a", VIOLATED, where, "writer field count", "writer emits %d write events, the INDX0001 specification has %d fields: %s - bytes that the documented layout does not have are written"
              % (len(fields), len(SPEC), [f.kind for f in fields]), {"example": "any index: the file is longer than the documented layout"})
        # writes that FOLLOW the final `f.tell() != 16 + size` self-check are bytes the size word does not count: the
        # loader maps exactly 16 + size bytes, so a file cut anywhere inside them passes as complete
        checks = [ev for ev in W.events if ev.kind == "raise" and not ev.stack and any(
            c.op == "cmp" and c.args[0] == "!=" and pol and any(is_call(a, ".tell") and a.args[0].args[0] == W.f for a in c.args[1:]) for c, pol in ev.guards)]
        if checks:
            after = [f for f in fields if f.ev.seq > max(e.seq for e in checks)]
            if after:
                C.add("R-C11-b", VIOLATED, "%s@%d" % (where, after[0].ev.line), "nothing is written after the final length self-check",
                      "%d write(s) follow the `f.tell() != 16 + size` check: those bytes are not counted by the size word, so a copy of the file cut inside them still holds 16 + size bytes and the loader accepts it as complete"
                      % len(after), {"example": "save any index whose payload is not a multiple of the padding; truncate the file by one byte; load returns every entry instead of raising"})
        return
    if len(fields) != len(SPEC):
        # fewer write events may still produce the documented bytes (two fields written by one call):
        # the layout is not decided field by field then
        C.add("R-C11-a", UNDECIDED, where, "writer field count", "writer emits %d write events, the INDX0001 specification has %d fields: %s - the field-by-field comparison does not apply"
              % (len(fields), len(SPEC), [f.kind for f in fields]))
        return
    C.ok(True, "R-C11-a", where, "writer field count", "%d write events, as in the specification" % len(fields), "")
    info["writer_ok"] = True
    # positions
    f = fields
    W.by_role = {SPEC[i][0]: f[i] for i in range(len(SPEC))}
    coords, lengths, rowids = f[7], f[9], f[10]
    # -- kinds and constant formats
    for i, (role, kind, val) in enumerate(SPEC):
        fld = f[i]
        cons = "writer field %d (%s)" % (i, role)
        w = "%s@%d" % (where, fld.ev.line)
        if kind == "bytes":
            C.ok(fld.kind == "bytes" and fld.value == val, "R-C11-a", w, cons, "literal %r" % (val,),
                 "expected the literal %r, found %r" % (val, getattr(fld, "value", fld.kind)))
        elif kind == "struct":
            ok = fld.kind == "struct" and tm.is_const(fld.fmt) and fld.fmt.args[1] == val
            C.ok(ok, "R-C11-a", w, cons, "struct format %s" % val,
                 "expected struct format %r, found %s" % (val, tm.show(getattr(fld, "fmt", const(fld.kind)))))
        elif kind == "word":
            pass  # below
        elif kind in ("array", "array*"):
            ok = fld.kind == "array" and (fld.inloop == (kind == "array*"))
            C.ok(ok, "R-C11-a", w, cons, "raw array dump%s" % (" per entry" if kind == "array*" else ""),
                 "expected %s, found %s (in loop: %s)" % (kind, fld.kind, getattr(fld, "inloop", None)))
    if not all(x.kind == "array" for x in (coords, lengths, rowids)) or not all(f[i].kind == "struct" for i in (2, 3, 4, 5, 6, 8)):
        info["writer_ok"] = False
        return
    # -- dtypes of the three arrays
    d_index = W.array_dtype(coords.arr, coords.ev.guards)
    d_len = W.array_dtype(lengths.arr, lengths.ev.guards)
    d_row = W.array_dtype(rowids.arr, rowids.ev.guards)
    W.d_index, W.d_row = d_index, d_row
    C.ok(d_index is not None, "R-C11-a", where, "coordinates dtype is fixed on every path",
         "dtype %s" % tm.show(d_index) if d_index is not None else "", "cannot determine the dtype of the coordinates array on every path",
         undecided=True)
    C.ok(d_len is not None and d_len == d_row, "R-C11-a", where, "lengths and rowids share the row-id dtype",
         "both %s" % tm.show(d_row) if d_row is not None else "",
         "lengths dtype %s vs rowids dtype %s" % (d_len and tm.show(d_len), d_row and tm.show(d_row)),
         undecided=(d_len is None or d_row is None))
    # -- index word size / rowid word size
    via_helper = d_index is not None and helper_arg(d_index, F_DTYPE) is not None and helper_arg(d_index, F_DTYPE) == f[5].value  # IndxIO.dtype(w).itemsize = w (R-C10-c)
    C.ok(d_index is not None and (f[5].value == T("attr", d_index, "itemsize") or via_helper), "R-C11-a", where, "index word size field = itemsize of the coordinates dtype",
         tm.show(f[5].value), "index word size field is %s but coordinates are written with dtype %s" % (tm.show(f[5].value), d_index and tm.show(d_index)))
    C.ok(d_row is not None and f[8].value == T("attr", d_row, "itemsize"), "R-C11-a", where, "rowid word size field = itemsize of the row-id dtype",
         tm.show(f[8].value), "rowid word size field is %s but row ids are written with dtype %s" % (tm.show(f[8].value), d_row and tm.show(d_row)))
    # -- common: format(index word size), value = common parameter
    farg = helper_arg(f[6].fmt, F_FORMAT)
    C.ok(farg is not None and farg == f[5].value, "R-C11-a", where, "common value is packed as one index word",
         "format(%s)" % tm.show(farg) if farg is not None else "",
         "common is packed with %s, not with the index word size %s" % (tm.show(f[6].fmt), tm.show(f[5].value)))
    C.ok(f[6].value == W.p_common, "R-C11-a", where, "common field carries the caller's common value", "", "value written is %s" % tm.show(f[6].value))
    # -- entry count = len(coordinates array) ; arity = its second extent
    base_arrays = [a for a, _ in W._alts_with_cond(coords.arr)]
    base_arrays += [a.args[0].args[0] for a in base_arrays if is_call(a, ".astype")]

    def about_coords(x):
        return any(x == b for b in base_arrays) or x == coords.arr

    cnt = f[4].value
    C.ok(is_call(cnt, "builtins.len") and about_coords(cnt.args[1][0]), "R-C11-a", where, "entry count = number of coordinate rows",
         tm.show(cnt)[:120], "entry count field is %s" % tm.show(cnt)[:200])
    ar = f[3].value
    ar_alts = [a for a in tm.alts(ar)]
    ok_ar = any(a.op == "sub" and tm.is_const(a.args[1], 1) and a.args[0].op == "attr" and a.args[0].args[1] == "shape" and about_coords(a.args[0].args[0]) for a in ar_alts)
    C.ok(ok_ar, "R-C11-a", where, "arity = second extent of the coordinate matrix", tm.show(ar)[:160], "arity field is %s" % tm.show(ar)[:200])
    # coordinates come from the keys of entries, lengths and rowids follow the same key order
    keys_list = None
    for b in base_arrays:
        if is_call(b, "numpy.array") and b.args[1]:
            keys_list = b.args[1][0]
    ok_keys = keys_list is not None and tm.contains(keys_list, lambda x: is_call(x, ".keys") and x.args[0].args[0] == W.p_entries)
    C.ok(ok_keys, "R-C10-a", where, "coordinate matrix is built from the entries' keys (row-major numpy.array of a list of tuples)",
         tm.show(keys_list)[:120] if keys_list is not None else "", "coordinates array is %s" % tm.show(coords.arr)[:200], undecided=keys_list is None)
    W.keys_list = keys_list
    def entry_of_key(x, lid):
        """x is entries[key i] for the i-th key of keys_list, under loop lid: looked up directly, or taken from a list
        [entries[k] for k in keys_list] built beforehand (one lookup per key) - an order-preserving comprehension"""
        it = W.I.loopinfo[lid].get("iter")
        if x.op == "sub" and x.args[0] == W.p_entries and x.args[1] == T("iter", it, lid) and it == keys_list:
            return True
        if x == T("iter", it, lid) and it is not None and it.op == "comp" and it.args[0] == "list" and len(it.args[2]) == 1:
            l1 = it.args[2][0]
            li = W.I.loopinfo[l1]
            e1 = it.args[1]
            return li.get("iter") == keys_list and not li.get("conds") and e1.op == "sub" and e1.args[0] == W.p_entries and e1.args[1] == T("iter", keys_list, l1)
        return False

    def reordered(t):
        return t is not None and tm.contains(t, lambda y: y.op == "call" and (tm.callee_name(y) or "") in ("builtins.sorted", "builtins.reversed", "builtins.set", "builtins.frozenset", ".values", ".items"))
    # lengths = [len(entries[k]) for k in keys_list]
    ok_len = False
    larr = lengths.arr
    if is_call(larr, "numpy.array") and larr.args[1] and larr.args[1][0].op == "comp":
        comp = larr.args[1][0]
        elt, lids = comp.args[1], comp.args[2]
        if is_call(elt, "builtins.len") and len(lids) == 1:
            ok_len = entry_of_key(elt.args[1][0], lids[0])
    cons_len = "lengths[i] = len(entries[key i]) in key order"
    if ok_len:
        C.ok(True, "R-C10-a", where, cons_len, "", "")
    elif reordered(larr):
        C.add("R-C10-a", VIOLATED, where, cons_len, "the lengths are taken in another order than the coordinate rows (sorted / reversed / values()): lengths array is %s" % tm.show(larr)[:160],
              {"example": "two entries with different row counts: each is loaded with the other's length"})
    else:
        C.add("R-C10-a", UNDECIDED, where, cons_len, "lengths array is not in a recognised per-key form: %s" % tm.show(larr)[:200])
    # rowids: loop over the same key list, writes entries[key]
    ok_row = False
    if rowids.ev.loops and len(rowids.ev.loops) == 1:
        ok_row = entry_of_key(rowids.arr, rowids.ev.loops[-1])
    cons_row = "row ids are written per entry, in key order"
    it_row = W.I.loopinfo[rowids.ev.loops[-1]].get("iter") if rowids.ev.loops else None
    if ok_row:
        C.ok(True, "R-C10-a", where, cons_row, "", "")
    elif reordered(it_row) or reordered(rowids.arr) or not rowids.ev.loops:
        C.add("R-C10-a", VIOLATED, where, cons_row, "row-id dump is %s in loops %s: not one block per key in the order of the coordinate rows" % (tm.show(rowids.arr)[:120], rowids.ev.loops),
              {"example": "two entries: the loader slices the row-id block by the lengths in key order and hands each key the other's rows"})
    else:
        C.add("R-C10-a", UNDECIDED, where, cons_row, "row-id dump is %s in loops %s: not a recognised per-key form" % (tm.show(rowids.arr)[:120], rowids.ev.loops))

    # -- R-C11-e append-only, in order
    resize = [e for e in W.other_file_ops if any(k in (e["name"] or "") for k in ("fallocate", "truncate"))]
    if resize:
        C.add("R-C11-e", VIOLATED, "%s@%d" % (where, resize[0].line), "no seek/truncate/other file operation in save",
              "%s gives the file its final length before the payload is written: a save cut short (interrupt, kill, its own 'Illegal indexed data' abort) leaves a file of 16 + size bytes, zero-filled, "
              "which the loader maps successfully - the 'shorter than 16 + size' guard never fires" % resize[0]["name"],
              {"example": "interrupt save() after the header: load returns an empty index (or the right keys with zero row ids) instead of raising"})
    else:
        C.ok(not W.other_file_ops, "R-C11-e", where, "no seek/truncate/other file operation in save",
             "only write/tofile/tell touch the file", "unexpected file operation: %s" % [e.src()[:60] for e in W.other_file_ops])
    seqs = [x.ev.seq for x in fields]
    C.ok(seqs == sorted(seqs), "R-C11-e", where, "fields are written in specification order", "", "")
    # all fields unconditional (except raise guards)
    uncond = True
    for x in fields:
        for c, pol in x.ev.guards:
            if not _is_raise_guard(W, c, pol):
                uncond = False
                bad = (x, c)
    C.ok(uncond, "R-C11-e", where, "every field is written on every normal path",
         "guards in force are only negated error tests", "a field is written conditionally" + ("" if uncond else ": %s under %s" % (bad[0].kind, tm.show(bad[1])[:120])))

    # -- R-C11-b size field = payload
    size_t = f[2].value
    W.size_t = size_t
    lin_size = linear(size_t, W.canon)
    expect = {1: 0}

    def addw(atom, n=1):
        expect[atom] = expect.get(atom, 0) + n

    for i in range(3, 11):
        role, kind, val = SPEC[i]
        if kind == "struct":
            expect[1] += CALCSIZE[val]
        elif kind == "word":
            addw(("itemsize", d_index))  # calcsize(format(w)) = w (R-C10-c)
        elif kind == "array":
            addw(("nbytes", W._arrkey(f[i].arr)))
        elif kind == "array*":
            addw(("sum*itemsize", W._arrkey(lengths.arr), d_row))
    ok = lin_eq(lin_size, expect)
    unrec = lin_size is None or any(isinstance(k, tuple) and k[0] == "term" for k in lin_size)
    diff = lin_diff(lin_size, expect)
    C.ok(ok, "R-C11-b", where, "recorded payload size = sum of the widths of all fields after it",
         "size = %s" % lin_show(expect)[:300], "size field and the fields written after it differ by %s" % diff[:300],
         undecided=unrec)
    # the size word written is the variable checked against tell()
    tell_ok = False
    for ev in W.events:
        if ev.kind == "raise" and not ev.stack:
            for c, pol in ev.guards:
                if c.op == "cmp" and c.args[0] == "!=" and pol:
                    l, r = c.args[1], c.args[2]
                    for a, b in ((l, r), (r, l)):
                        if is_call(a, ".tell") and a.args[0].args[0] == W.f:
                            lb = linear(b, W.canon)
                            want = dict(lin_size or {})
                            want[1] = want.get(1, 0) + 16
                            if lin_eq(lb, want) and ev.seq > fields[-1].ev.seq:
                                tell_ok = True
    C.ok(tell_ok, "R-C11-b", where, "after the last write, f.tell() != 16 + size raises",
         "length self-check present on the normal exit", "no final length check against 16 + recorded size")

    # -- R-C11-c numeric kind of the size arithmetic
    from . import ladder as LD
    int_ladders = {fq: K.PYINT for fq, pcs in W.ladders.items() if all(isinstance(v, int) or v in (None, "raise") for _, _, v in pcs)}
    ctx = K.KindCtx(W.I, param_kinds={}, func_kinds=int_ladders)
    bad = []
    for part in _summands(size_t):
        k = K.kind(part, ctx)
        if k in (K.NPFIXED, K.ARRAY):
            bad.append((part, k))
    if bad:
        for part, k in bad:
            C.add("R-C11-c", VIOLATED, where, "size operand: %s" % _shape(part),
                  "operand of the payload-size sum is a fixed-width NumPy value (%s): wraps at 2^32 under NEP 50 arithmetic instead of growing like a Python int" % k,
                  {"operand": tm.show(part)[:160], "example": "lengths totalling >= 2^30 row ids of 4 bytes"})
    else:
        kk = K.kind(size_t, ctx)
        C.ok(kk == K.PYINT, "R-C11-c", where, "payload size is computed in unbounded Python ints", "kind PYINT for every summand",
             "kind of the size expression is %s" % kk, undecided=True)

    # -- R-C10-e / R-C11-d: index word = fit_dtype(max(all coordinates, common))
    ok_fit = d_index is not None and d_index.op == "call" and d_index.args[0] == F_FIT and len(d_index.args[1]) >= 1
    arg = None
    if ok_fit:
        C.ok(True, "R-C11-d", where, "index word dtype is chosen by fit_dtype (narrowest, C19)", "", "")
        arg = d_index.args[1][0]
    else:
        # another chooser: a ladder helper giving the dtype, or a word size that is turned into a dtype by IndxIO.dtype
        chooser = d_index
        if chooser is not None and helper_arg(chooser, F_DTYPE) is not None:
            chooser = helper_arg(chooser, F_DTYPE)
        fq = chooser.args[0].args[0] if (chooser is not None and chooser.op == "call" and chooser.args[0].op == "func") else None
        from . import ladder as LD
        const_dtype = None
        if d_index is not None:
            dn = tm.dotted(d_index.args[1][0]) if (is_call(d_index, "numpy.dtype") and d_index.args[1]) else tm.dotted(d_index)
            if dn and dn.split(".")[-1] in LD.RANGES:
                const_dtype = dn.split(".")[-1]
        if const_dtype is not None:
            fq = "a constant dtype (%s)" % const_dtype
            W.ladders = dict(W.ladders)
            W.ladders[fq] = [(-LD.INF, LD.INF, LD.DType(const_dtype))]
            chooser = T("call", T("func", fq), (const(0),), ())
        if fq in W.ladders and len(chooser.args[1]) == 1:
            arg = chooser.args[1][0] if const_dtype is None else None
            bad = LD.check_word_ladder(W.ladders[fq])
            cons = "index word size is chosen by %s: narrowest unsigned word for every maximum in [0, 2**64-1]" % fq
            if not bad:
                C.ok(True, "R-C11-d", where, cons, "%d intervals, each inside one word-size class" % len(W.ladders[fq]), "")
            for kind, x, got, want in bad:
                if kind == "too-narrow":
                    C.add("R-C10-e", VIOLATED, where, "index word wide enough (chooser %s)" % fq, "maximum %d gets a %s-byte word but needs %s bytes: coordinates wrap on save" % (x, got, want),
                          witness={"inputs": "an index whose largest coordinate (or common value) is %d" % x})
                elif kind == "too-wide":
                    C.add("R-C11-d", VIOLATED, where, cons, "maximum %d gets a %s-byte word; the documented narrowest is %s byte(s)" % (x, got, want),
                          witness={"inputs": "an index whose largest coordinate (or common value) is %d: the file is wider than the documented layout" % x})
                else:
                    C.add("R-C11-d", VIOLATED if kind == "signed" else UNDECIDED, where, cons, "maximum %d yields %r" % (x, got))
        else:
            C.add("R-C11-d", UNDECIDED, where, "index word dtype is the narrowest unsigned type for max(coordinates, common)",
                  "chosen by %s, which is neither fit_dtype nor a recognised one-parameter ladder" % (d_index and tm.show(d_index)[:120]))
    if arg is not None:
        dep_common = tm.contains(arg, lambda x: x == W.p_common)
        dep_coords = tm.contains(arg, lambda x: x in base_arrays)
        C.ok(dep_common and dep_coords, "R-C10-e", where, "fit_dtype argument depends on both the coordinates and the common value",
             "max over coordinates and common", "fit_dtype argument %s ignores %s" % (tm.show(arg)[:160], "the common value" if not dep_common else "the coordinates"),
             witness={"example": "entries {(1,): ...} with common=70000 needs 4-byte words"})
        # every alternative of the argument must cover common; those with entries must cover max coords
        ok_alt = True
        for a, conds in W._alts_with_cond(arg):
            if not tm.contains(a, lambda x: x == W.p_common):
                ok_alt = False
        C.ok(ok_alt, "R-C10-e", where, "every path of the word-size choice includes the common value", "", "an alternative of %s omits common" % tm.show(arg)[:160])
        # the maximum: max(numpy.max(index), common)
        ok_max = any(is_call(a, "builtins.max") and any(tm.contains(x, lambda y: y in base_arrays) and tm.contains(x, lambda y: tm.callee_name(y) in ("numpy.max", "numpy.amax", ".max", "builtins.max") if y.op == "call" else False) for x in a.args[1])
                     for a, _ in W._alts_with_cond(arg))
        C.ok(ok_max, "R-C11-d", where, "word size is derived from the MAXIMUM coordinate", "", "no max() over the coordinate matrix in %s" % tm.show(arg)[:160])


def _is_raise_guard(W, c, pol):
    """(c, pol) holds on the normal path only because the other branch raised."""
    for ev in W.events:
        if ev.kind == "raise":
            for cc, pp in ev.guards:
                if cc == c and pp != pol:
                    return True
    return False


def _summands(t):
    if t.op == "binop" and t.args[0] in ("+", "-"):
        return _summands(t.args[1]) + _summands(t.args[2])
    return [t]


def _shape(t):
    """Short normalised description of a term (callee names only)."""
    names = []
    for x in tm.walk(t):
        if x.op == "call":
            n = tm.callee_name(x)
            if n:
                names.append(n.split(":")[-1])
        elif x.op == "attr":
            names.append("." + x.args[1])
    out = []
    for n in names:
        if n not in out:
            out.append(n)
    return " ".join(out[:4]) or t.op


def _module_functions(R):
    """(qualified name, ast.FunctionDef) of every function and method of the module that holds the reader."""
    import ast as _ast
    mod = R.fi.module
    prog = R.I.prog if hasattr(R.I, "prog") else None
    tree = prog.modules[mod].tree if prog is not None and mod in prog.modules else None
    out = []
    if tree is None:
        return out
    for node in tree.body:
        if isinstance(node, _ast.FunctionDef):
            out.append((node.name, node))
        if isinstance(node, _ast.ClassDef):
            for sub in node.body:
                if isinstance(sub, _ast.FunctionDef):
                    out.append(("%s.%s" % (node.name, sub.name), sub))
    return out


# ---------------------------------------------------------------------------- reader
def _reader_rules(R, C, info):
    where = R.fi.fq
    import ast as _ast
    # a cursor advanced inside nested functions (`nonlocal offset` in a local read helper) is not followed by the walker
    # (a closure sees the variables as they were when it was created): offsets that do not add up are then not decided
    nonlocal_cursor = any(isinstance(n, _ast.Nonlocal) for n in _ast.walk(R.fi.node))
    ops = R.ops
    freads = [o for o in ops if o.kind == "fread"]
    mmaps = [o for o in ops if o.kind == "mmap"]
    rets = [o for o in ops if o.kind in ("return", "yield")]

    # ---- header: three reads, compared / unpacked (R-C12-a)
    hdr_ok = len(freads) >= 3 and all(o.method == "read" and o.n is not None and o.n.op == "const" for o in freads[:3])
    sizes = [o.n.args[1] for o in freads[:3]] if hdr_ok else []
    C.ok(hdr_ok and sizes == [4, 4, 8], "R-C12-a", where, "header is read as 4 + 4 + 8 bytes",
         "read(4), read(4), read(8)", "header reads are %s" % [(o.method, o.n and tm.show(o.n)) for o in freads[:4]], undecided=not hdr_ok)
    if not (hdr_ok and sizes == [4, 4, 8]):
        return
    magic_r, ver_r, size_r = (o.result for o in freads[:3])

    def rejects(result, lit):
        """A raise guarded by (result != lit) True, and everything after the read runs under the negation."""
        for ev in R.events:
            if ev.kind == "raise" and not ev.stack:
                for c, pol in ev.guards:
                    if c.op == "cmp" and pol and c.args[0] == "!=" and {c.args[1], c.args[2]} == {result, const(lit)}:
                        return c
                    if c.op == "cmp" and (not pol) and c.args[0] == "==" and {c.args[1], c.args[2]} == {result, const(lit)}:
                        return c
        return None

    g_magic = rejects(magic_r, b"INDX")
    g_ver = rejects(ver_r, b"0001")
    C.ok(g_magic is not None, "R-C12-a", where, "magic mismatch raises", "raise under read(4) != b'INDX'", "no raise guarded by a comparison of the first 4 bytes with b'INDX'")
    C.ok(g_ver is not None, "R-C12-a", where, "version mismatch raises", "raise under read(4) != b'0001'", "no raise guarded by a comparison of the next 4 bytes with b'0001'")
    # also the reader side of the spec table for fields 0,1
    C.ok(g_magic is not None and g_ver is not None, "R-C11-a", where, "reader fields 0-1 (magic, version) match the specification", "", "")
    unp = [o for o in ops if o.kind == "unpack"]
    size_val = None
    for o in unp:
        if o.src == size_r and tm.is_const(o.fmt, "<Q"):
            size_val = T("sub", o.result, const(0))
    C.ok(size_val is not None, "R-C12-a", where, "payload size is unpacked from the 8 header bytes as <Q",
         "struct.unpack('<Q', read(8))[0]", "the 8 bytes read are not unpacked as little-endian u64")
    C.ok(size_val is not None, "R-C11-a", where, "reader field 2 (payload size, <Q) matches the specification", "", "")
    if size_val is None:
        return
    # nothing on the load path is memoised: a mapping (or anything read from the file) cached under a key that does not
    # identify the file's CONTENT - a descriptor number, a length - is handed out again for another, shorter file, and
    # the mmap length check that rejects a torn file is never executed for it
    import ast as _ast
    prog_mod = R.prog.modules.get("indxio") if hasattr(R, "prog") else None
    for fn_name, fnode in _module_functions(R):
        decos = [_ast.unparse(d) for d in fnode.decorator_list]
        memo = [d for d in decos if d.split("(")[0].split(".")[-1] in ("lru_cache", "cache", "cached_property", "memoize")]
        if not memo:
            continue
        src = _ast.unparse(fnode)
        io = [k for k in ("mmap.mmap", ".read(", "fromfile", "memmap", "frombuffer", "unpack") if k in src]
        if io:
            C.add("R-C12-a", VIOLATED, "indxio:%s@%d" % (fn_name, fnode.lineno), "the mapping of the file is made afresh on every load",
                  "%s is memoised (@%s) although it maps / reads the file (%s): a second load whose key (descriptor number, length) coincides gets the EARLIER file's mapping, so a torn file is parsed from the complete one's bytes "
                  "and the length check never runs" % (fn_name, memo[0], io[0]), {"example": "load(F) succeeds; F is closed; a strict prefix of F opened next gets the same descriptor number and loads"})
    # numpy.memmap in a writable mode does not reject a short file: it EXTENDS it with zeros to the requested shape
    for ev in R.I.events:
        if ev.kind == "call" and ev["name"] == "numpy.memmap":
            mode = dict(ev["kwargs"]).get("mode")
            if mode is None and len(ev["args"]) > 2:
                mode = ev["args"][2]
            modes = [a.args[1] for a in (tm.alts(mode) if mode is not None else []) if a.op == "const" and isinstance(a.args[1], str)]
            if mode is None:
                modes = ["r+"]  # numpy's default
            wr = [x for x in modes if x in ("r+", "w+")]
            if wr:
                C.add("R-C12-a", VIOLATED, "%s@%d" % (where, ev.line), "the file is mapped read-only with a length check",
                      "numpy.memmap(..., mode=%r) on a file shorter than the requested shape extends the file with zeros instead of raising: a torn file loads (zeroed or empty row ids), and is rewritten to full length on disk" % wr[0],
                      {"example": "a file cut anywhere after byte 16, opened 'r+b'"})
                return
    C.ok(len(mmaps) == 1, "R-C12-a", where, "exactly one mmap of the file", "", "%d mmap calls" % len(mmaps), undecided=len(mmaps) == 0)
    if len(mmaps) != 1:
        # a reader that does not map: every later read must then be length-checked some other way
        return
    mm = mmaps[0]
    canon = lambda t: ("size",) if t == size_val else ("term", t)
    lm = linear(mm.length, canon) if mm.length is not None else None
    C.ok(lin_eq(lm, {1: 16, ("size",): 1}), "R-C12-a", where, "mmap length = 16 header bytes + recorded payload size",
         "mmap(fileno, 16 + size): raises ValueError when the file is shorter", "mmap length is %s" % (tm.show(mm.length)[:120] if mm.length is not None else None),
         witness={"example": "a file cut anywhere inside the payload is mapped without error"})
    # order: reads+checks before mmap, mmap before everything else; nothing returned earlier
    first_data = [o for o in ops if o.kind in ("unpack_from", "ndarray", "store", "return", "yield", "other-read")]
    order_ok = all(o.ev.seq > mm.ev.seq for o in first_data) and all(o.ev.seq < mm.ev.seq for o in freads[:3])
    C.ok(order_ok, "R-C12-a", where, "magic, version, size, mmap happen in this order before any field is read or anything is returned", "", "an operation precedes the mmap")
    # mmap is reached on every non-raising path: its guards are only negated raise guards
    mm_guards_ok = all(_raise_guard_r(R, c, pol) for c, pol in mm.ev.guards) and not mm.ev.loops
    C.ok(mm_guards_ok, "R-C12-a", where, "the mmap is unconditional on the normal path", "", "mmap happens only under %s" % [tm.show(c)[:80] for c, _ in mm.ev.guards])
    for o in rets:
        ok = any(c == g_magic for c, p in o.ev.guards) and any(c == g_ver for c, p in o.ev.guards) and o.ev.seq > mm.ev.seq
        C.ok(ok, "R-C12-a", "%s@%d" % (where, o.ev.line), "return is dominated by both header checks and the mmap", "", "a return/yield is reachable without the header checks")

    # ---- R-C12-b all later reads go through the map
    buf = mm.result
    late = [o for o in freads[3:]] + [o for o in ops if o.kind == "other-read"]
    C.ok(not late, "R-C12-b", where, "no f.read / fromfile after the header", "", "later direct file reads: %s" % [o.ev.src()[:50] for o in late],
         witness={"example": "f.read(n) returns fewer than n bytes at EOF without raising"})
    data = [o for o in ops if o.kind in ("unpack_from", "ndarray")]
    for o in data:
        C.ok(_same_buffer(o.buf, buf), "R-C12-b", "%s@%d" % (where, o.ev.line), "field read uses the mapped buffer: %s" % o.kind, "", "buffer is %s" % tm.show(o.buf)[:80])
    # ---- R-C12-c exception transparency
    trys = [t for t in R.I.tryinfo.values() if t["kind"] == "try"]
    swallowing = [t for t in trys if any(not h["reraises"] for h in t["handlers"])]
    C.ok(not swallowing, "R-C12-c", where, "no exception handler in load can swallow the error", "%d try statements, all re-raise" % len(trys),
         "try/except at line(s) %s completes without re-raising" % [t["node"].lineno for t in swallowing])

    # ---- field table (R-C11-a reader side) and cursor arithmetic (R-C10-b)
    if len(data) != 8:
        C.add("R-C11-a", UNDECIDED, where, "reader field count", "%d buffer reads after the header; the specification has 8 fields there" % len(data))
        return
    u_arity, u_count, u_w, u_common, a_coords, u_w2, a_len, a_rows = data
    val = lambda o: T("sub", o.result, const(0))
    W_ = val(u_w) if u_w.kind == "unpack_from" else None
    W2 = val(u_w2) if u_w2.kind == "unpack_from" else None

    def rcanon(t):
        if t == size_val:
            return ("size",)
        if W_ is not None and t == W_:
            return ("W",)
        if W2 is not None and t == W2:
            return ("W2",)
        if t.op == "attr" and t.args[1] == "nbytes":
            return ("nbytes", t.args[0])
        if t.op == "binop" and t.args[0] == "*":
            for x, y in ((t.args[1], t.args[2]), (t.args[2], t.args[1])):
                if is_call(x, "builtins.len") and x.args[1][0] == a_len.result and (y == W2 or (y.op == "attr" and y.args[1] == "itemsize" and y.args[0] == a_len.dtype)):
                    return ("nbytes", a_len.result)
        return ("term", t)

    expect_off = {1: 16}
    spec_rd = [("coordinate arity", "<B"), ("entry count", "<L"), ("index word size", "<B"), ("common value", "W"),
               ("coordinates", "A"), ("rowid word size", "<B"), ("lengths", "A"), ("rowids", "A")]
    for o, (role, kind) in zip(data, spec_rd):
        w = "%s@%d" % (where, o.ev.line)
        cons = "reader field (%s)" % role
        # kind / format
        if kind in ("<B", "<L"):
            C.ok(o.kind == "unpack_from" and tm.is_const(o.fmt, kind), "R-C11-a", w, cons, "format %s" % kind,
                 "expected struct format %s, found %s" % (kind, tm.show(getattr(o, "fmt", const(o.kind)))))
        elif kind == "W":
            a = helper_arg(o.fmt, F_FORMAT) if o.kind == "unpack_from" else None
            C.ok(a is not None and a == W_, "R-C11-a", w, cons, "format(index word size)", "common is unpacked with %s" % tm.show(getattr(o, "fmt", const(o.kind)))[:100])
        else:
            C.ok(o.kind == "ndarray", "R-C11-a", w, cons, "array over the mapped buffer", "found %s" % o.kind)
        # offset
        lo = linear(o.offset, rcanon)
        C.ok(lin_eq(lo, expect_off), "R-C10-b", w, "cursor at %s = bytes consumed so far" % role, "offset %s" % lin_show(expect_off),
             "field is read at offset %s but %s bytes precede it" % (lin_show(lo), lin_show(expect_off)), undecided=nonlocal_cursor,
             witness={"field": role})
        # advance
        if kind in ("<B", "<L"):
            expect_off = dict(expect_off)
            expect_off[1] += CALCSIZE[kind]
        elif kind == "W":
            expect_off = dict(expect_off)
            expect_off[("W",)] = expect_off.get(("W",), 0) + 1
        else:
            expect_off = dict(expect_off)
            expect_off[("nbytes", o.result)] = 1
    # shapes and dtypes
    if a_coords.kind == "ndarray":
        sh = a_coords.shape
        ok = sh is not None and sh.op == "tuple" and len(sh.args) == 2 and sh.args[0] == val(u_count) and sh.args[1] == val(u_arity)
        C.ok(ok, "R-C11-a", where, "coordinate matrix shape = (entry count, arity), row-major", "", "shape is %s" % (sh and tm.show(sh)[:160]))
        da = helper_arg(a_coords.dtype, F_DTYPE) if a_coords.dtype is not None else None
        C.ok(da is not None and da == W_, "R-C11-a", where, "coordinate matrix dtype = dtype(index word size)", "", "dtype is %s" % (a_coords.dtype and tm.show(a_coords.dtype)[:120]))
    if a_len.kind == "ndarray":
        sh = a_len.shape
        n = sh.args[0] if sh is not None and sh.op == "tuple" and len(sh.args) == 1 else sh
        ok = n is not None and (n == val(u_count) or (is_call(n, "builtins.len") and tm.contains(n, lambda x: x == a_coords.result)))
        C.ok(ok, "R-C11-a", where, "lengths array has one element per entry", "", "shape is %s" % (sh and tm.show(sh)[:160]))
        da = helper_arg(a_len.dtype, F_DTYPE) if a_len.dtype is not None else None
        C.ok(da is not None and da == W2, "R-C11-a", where, "lengths dtype = dtype(rowid word size)", "", "dtype is %s" % (a_len.dtype and tm.show(a_len.dtype)[:120]))
    if a_rows.kind == "ndarray":
        C.ok(a_rows.dtype == a_len.dtype, "R-C11-a", where, "row ids dtype = dtype(rowid word size)", "", "dtype is %s" % (a_rows.dtype and tm.show(a_rows.dtype)[:120]))
        # shape = (mapped length - offset) / itemsize : covers the remainder
        sh = a_rows.shape
        okrem = (sh is not None and tm.contains(sh, lambda x: x == mm.length) and tm.contains(sh, lambda x: x == a_rows.offset)) or (sh is None and getattr(a_rows, "to_end", False) and _same_buffer(a_rows.buf, buf))
        C.ok(okrem, "R-C10-b", where, "row-id block spans from the cursor to the end of the mapped payload", "", "shape is %s" % (sh and tm.show(sh)[:200]), undecided=True)

    # ---- per-entry slicing loop
    stores = [o for o in ops if o.kind == "store"]
    R.stores = stores
    ok_loop = False
    detail = ""
    kctx = K.KindCtx(R.I)
    for st in stores:
        if not st.ev.loops:
            continue
        lid = st.ev.loops[-1]
        it = R.I.loopinfo[lid].get("iter")
        if it is None or not is_call(it, "builtins.zip") or len(it.args[1]) != 2:
            detail = "entry loop does not iterate zip(lengths, coordinates)"
            continue
        zl, zc = it.args[1]
        length = T("iter", zl, lid)
        coords = T("iter", zc, lid)
        zl_src = zl.args[0].args[0] if is_call(zl, ".tolist") else zl
        C.ok(zl_src == a_len.result, "R-C10-a", where, "entry loop takes lengths from the lengths field", "", "zip first operand is %s" % tm.show(zl)[:100])
        C.ok(tm.contains(zc, lambda x: x == a_coords.result), "R-C10-a", where, "entry loop takes keys from the coordinate matrix, in row order", "", "zip second operand is %s" % tm.show(zc)[:100])
        C.ok(st.index == coords, "R-C10-a", where, "entries[key] is keyed by the coordinates of the same iteration", "", "key is %s" % tm.show(st.index)[:100])
        # value alternatives: rowid_lists[ptr:ptr+length] (possibly astype)
        okv = True
        ptr_terms = set()
        for a in tm.alts(st.value):
            base = a
            if is_call(base, ".astype"):
                base = base.args[0].args[0]
            if base.op == "sub" and base.args[0] == a_rows.result and base.args[1].op == "slice":
                lo_, hi_, st_ = base.args[1].args
                ptr_terms.add(lo_)
                if not (hi_ == T("binop", "+", lo_, length) or hi_ == T("binop", "+", length, lo_)) or st_ != NONE:
                    okv = False
            else:
                okv = False
        C.ok(okv and len(ptr_terms) == 1, "R-C10-a", where, "row ids of an entry = block[ptr : ptr + length]", "", "stored value is %s" % tm.show(st.value)[:200])
        if okv and len(ptr_terms) == 1:
            ptr = ptr_terms.pop()
            # ptr = phi(0, loopvar) and back edge = ptr + length
            init_ok = ptr.op == "phi" and const(0) in ptr.args and any(x.op == "loopvar" and x.args[1] == lid for x in ptr.args)
            lv = [x for x in ptr.args if x.op == "loopvar"] if ptr.op == "phi" else []
            be = R.I.backedge.get((lv[0].args[0], lid)) if lv else None
            step_ok = be is not None and any(_strip_int(be) == T("binop", "+", ptr, x) for x in (length, T("call", tm.ext("builtins.int"), (length,), ())))
            C.ok(init_ok and step_ok, "R-C10-b", where, "row-id cursor starts at 0 and advances by exactly the entry's length",
                 "ptr = 0; ptr += length", "cursor is %s, back edge %s" % (tm.show(ptr)[:80], be and tm.show(be)[:120]))
            # R-C11-c (reader): cursor arithmetic in Python ints
            if be is not None:
                inc = None
                b = _strip_int(be)
                if b.op == "binop" and b.args[0] == "+":
                    inc = b.args[2] if b.args[1] == ptr else b.args[1]
                k = K.kind(inc, kctx) if inc is not None else K.UNKNOWN
                if k in (K.NPFIXED, K.ARRAY):
                    C.add("R-C11-c", VIOLATED, where, "row-id cursor increment: %s" % _shape(inc),
                          "the cursor is advanced by a fixed-width NumPy scalar read from the lengths field (%s); with 1- or 2-byte row-id words "
                          "the sum wraps at 256 / 65536 and later entries load wrong" % k,
                          {"example": "independently encoded file with rowid word size 1 and two entries of 200 ids"})
                else:
                    C.ok(k == K.PYINT, "R-C11-c", where, "row-id cursor advances in unbounded Python ints", "increment kind PYINT", "increment kind %s" % k, undecided=True)
        ok_loop = True
        # R-C10-d dtype uint32 on every path
        ok_dt = True
        for a in _alts_cond(st.value):
            term, conds = a
            if is_call(term, ".astype") and term.args[1] and tm.dotted(term.args[1][0]) == "numpy.uint32":
                continue
            g = flat_guards(list(conds) + list(st.ev.guards))

            def _is_dtype_side(x):
                # the row-id array's .dtype, or the dtype object the array was created with (IndxIO.dtype(word size), numpy.dtype(...))
                return (x.op == "attr" and x.args[1] == "dtype") or (x.op == "call" and (tm.callee_name(x) or "").split(".")[-1].split(":")[-1] in ("dtype", "IndxIO.dtype"))
            same32 = any(c.op == "cmp" and ((c.args[0] == "!=" and not pol) or (c.args[0] == "==" and pol)) and any(tm.dotted(x) == "numpy.uint32" for x in c.args[1:]) and any(_is_dtype_side(x) for x in c.args[1:]) for c, pol in g)
            word4 = any(c.op == "cmp" and ((c.args[0] == "!=" and not pol) or (c.args[0] == "==" and pol)) and any(tm.is_const(x, 4) for x in c.args[1:]) for c, pol in g)
            if same32 or word4:
                continue
            # the OPPOSITE test dominates the uncast path: the array is handed back exactly when its dtype is NOT uint32
            diff32 = any(c.op == "cmp" and ((c.args[0] == "!=" and pol) or (c.args[0] == "==" and not pol)) and any(tm.dotted(x) == "numpy.uint32" for x in c.args[1:]) and any(_is_dtype_side(x) for x in c.args[1:]) for c, pol in g)
            if diff32:
                ok_dt = False
                continue
            if any(tm.contains(c, lambda x: tm.dotted(x) == "numpy.uint32" or (x.op == "attr" and x.args[1] in ("dtype", "itemsize"))) for c, pol in g):
                ok_dt = None if ok_dt is not False else False  # a dtype-related guard in a form not read here
                continue
            ok_dt = False
        if ok_dt is None:
            C.add("R-C10-d", UNDECIDED, where, "every loaded row-id array has dtype uint32 (cast unless the file word is already 4 bytes)", "the uncast path is guarded by a dtype test in an unrecognised form: %s" % tm.show(st.value)[:120])
        else:
            C.ok(ok_dt, "R-C10-d", where, "every loaded row-id array has dtype uint32 (cast unless the file word is already 4 bytes)", "", "a path stores the raw file dtype: %s" % tm.show(st.value)[:160])
    C.ok(ok_loop, "R-C10-a", where, "entries are populated in a loop over (length, key) pairs", "", detail or "no store into the entries dict inside a loop", undecided=not stores)

    # ---- what is returned (R-C10-d)
    for o in rets:
        v = o.value
        if v.op == "tuple" and len(v.args) == 3:
            ent, com, dt = v.args
            # populated by stores in a loop, or built in one expression (dict(zip(keys, arrays)) / a dict comprehension): the
            # latter is not read field by field here
            if any(st.base == ent for st in stores):
                C.ok(True, "R-C10-d", where, "first returned value is the populated entries dict", "", "")
            elif (ent.op == "call" and tm.callee_name(ent) == "builtins.dict") or (ent.op == "comp" and ent.args[0] == "dict"):
                C.add("R-C10-d", UNDECIDED, where, "first returned value is the populated entries dict", "the entries are built by one expression (%s): the key / array pairing is not decided for this form" % tm.show(ent)[:60])
            else:
                C.ok(False, "R-C10-d", where, "first returned value is the populated entries dict", "", "returns %s" % tm.show(ent)[:80])
            C.ok(com == val(u_common), "R-C10-d", where, "second returned value is the common field, a Python int from struct.unpack_from", "", "returns %s" % tm.show(com)[:120])
            kc = K.kind(com, kctx)
            if kc in (K.NPFIXED, K.ARRAY):
                C.add("R-C10-d", VIOLATED, where, "common value is a Python int",
                      "the common value is returned as a NumPy %s (%s): it hashes and compares like the int, so the round-trip tests pass, but an index rebuilt from it carries a fixed-width common value - shift_common() then stores a key "
                      "holding a NumPy scalar (validate() rejects it) and `common + 1` wraps at the word size" % ("scalar" if kc == K.NPFIXED else "array", tm.show(com)[:60]),
                      {"example": "save an index with 256 categories and common value 255, load it, build ccube([iindex(entries, common, shape)]): shape is (0,) instead of (256,)"})
            else:
                C.ok(kc == K.PYINT, "R-C10-d", where, "common value is a Python int", "", "kind %s" % kc, undecided=True)
            C.ok(dt == a_len.dtype, "R-C10-d", where, "third returned value is the row-id dtype of the file", "", "returns %s" % tm.show(dt)[:80])
        else:
            C.add("R-C10-d", UNDECIDED, where, "return shape", "load returns %s" % tm.show(v)[:120])
    # keys are tuples of Python ints: derived from .tolist()
    for st in stores:
        keysrc = st.index
        ok = tm.contains(keysrc, lambda x: is_call(x, ".tolist") and x.args[0].args[0] == a_coords.result)
        ok = ok and tm.contains(keysrc, lambda x: is_call(x, "builtins.tuple"))
        C.ok(ok, "R-C10-d", where, "entry keys are tuples of plain Python ints (rows of coordinates.tolist())", "", "keys are %s" % tm.show(keysrc)[:160])
    R.size_val, R.mm, R.W_, R.W2 = size_val, mm, W_, W2


def _strip_int(t):
    """phi-free view of a back edge (drop int() wrappers at top level)."""
    if is_call(t, "builtins.int") and t.args[1]:
        return t.args[1][0]
    return t


def _alts_cond(t, conds=None):
    conds = conds or []
    if t.op == "ifexp":
        c, a, b = t.args
        return _alts_cond(a, conds + [(c, True)]) + _alts_cond(b, conds + [(c, False)])
    if t.op == "phi":
        out = []
        for a in t.args:
            out += _alts_cond(a, conds)
        return out
    return [(t, conds)]


def _raise_guard_r(R, c, pol):
    for ev in R.events:
        if ev.kind == "raise":
            for cc, pp in ev.guards:
                if cc == c and pp != pol:
                    return True
    return False


# struct standard-size codes (with an explicit byte order) and NumPy's type characters on LP64 Linux
_STRUCT = {"B": (False, 1), "H": (False, 2), "I": (False, 4), "L": (False, 4), "Q": (False, 8), "b": (True, 1), "h": (True, 2), "i": (True, 4), "l": (True, 4), "q": (True, 8)}
_NP_CHAR = {"uint8": "B", "uint16": "H", "uint32": "I", "uint64": "L", "int8": "b", "int16": "h", "int32": "i", "int64": "l"}


def _fmt_key(fmt):
    """('<', size, signed) of a one-item struct format, or None"""
    if isinstance(fmt, str) and len(fmt) == 2 and fmt[0] in "<>=!" and fmt[1] in _STRUCT:
        signed, size = _STRUCT[fmt[1]]
        return (fmt[0], size, signed)
    return None


def _fold_format(r):
    """Constant value of a struct-format expression: literals, '+' of strings, numpy.dtype(T).char and
    IndxIO.dtype(<const>).char (through the documented helper table; NumPy type characters as on LP64 Linux)."""
    if r.op == "const" and isinstance(r.args[1], str):
        return r.args[1]
    if r.op == "binop" and r.args[0] == "+":
        a, b = _fold_format(r.args[1]), _fold_format(r.args[2])
        return a + b if a is not None and b is not None else None
    if r.op == "attr" and r.args[1] == "char":
        d = r.args[0]
        name = None
        if helper_arg(d, F_DTYPE) is not None and tm.is_const(helper_arg(d, F_DTYPE)):
            name = HELPER_DTYPE.get(helper_arg(d, F_DTYPE).args[1])
        elif is_call(d, "numpy.dtype") and d.args[1]:
            dn = tm.dotted(d.args[1][0])
            name = dn.split(".")[-1] if dn else None
        return _NP_CHAR.get(name)
    return None


# ---------------------------------------------------------------------------- helpers
def _helper_rules(prog, C, info):
    for name, table, f_target in (("IndxIO.format", HELPER_FMT, None), ("IndxIO.dtype", HELPER_DTYPE, None)):
        fi = prog.func("indxio", name)
        pname = fi.params()[0]
        for size, want in table.items():
            I = Interp(prog, oracle=lambda t: False if (t.op == "call" and tm.callee_name(t) == "builtins.isinstance") else None)
            fr = I.run(fi, args={pname: const(size)})
            rets = [v for v, g in fr.returns]
            got = None
            if len(rets) == 1:
                r = rets[0]
                if name.endswith("format"):
                    got = _fold_format(r)
                else:
                    if is_call(r, "numpy.dtype") and r.args[1]:
                        d = tm.dotted(r.args[1][0])
                        got = d.split(".")[-1] if d else None
            if got is None:
                # table-driven helpers (a loop over a constant table of rows, a shared row lookup): the ladder evaluator
                # unrolls them for this constant argument
                try:
                    from . import ladder as _LD
                    v = _LD.Evaluator(prog, "indxio").call_const(fi, [size], 0)
                    if isinstance(v, str):
                        got = v
                    elif isinstance(v, _LD.DType):
                        got = v.name
                except Exception:
                    got = None
            same = got == want or (name.endswith("format") and got is not None and _fmt_key(got) is not None and _fmt_key(got) == _fmt_key(want))
            C.ok(same, "R-C10-c", fi.fq, "%s(%d)" % (name, size), "-> %s" % (got,), "%s(%d) yields %r%s, the documented word needs %r" % (name, size, got, " (%s bytes)" % _fmt_key(got)[1] if got and _fmt_key(got) else "", want),
                 undecided=(got is None))


# ---------------------------------------------------------------------------- writer vs reader
def _cross_rules(W, R, C, info):
    """R-C10-a: the two field tables agree (both were matched against the same SPEC positions;
    this records the pairing explicitly)."""
    if not info.get("writer_ok"):
        C.add("R-C10-a", UNDECIDED, W.fi.fq, "writer/reader pairing", "writer table not established")
        return
    data = [o for o in R.ops if o.kind in ("unpack_from", "ndarray")]
    if len(data) != 8:
        C.add("R-C10-a", UNDECIDED, R.fi.fq, "writer/reader pairing", "reader table not established")
        return
    wf = W.fields[3:]
    pairs = []
    for i, (w, r) in enumerate(zip(wf, data)):
        role = SPEC[i + 3][0]
        if w.kind == "struct" and r.kind == "unpack_from":
            same = (w.fmt == r.fmt) if tm.is_const(w.fmt) else (helper_arg(w.fmt, F_FORMAT) is not None and helper_arg(r.fmt, F_FORMAT) is not None)
        elif w.kind == "array" and r.kind == "ndarray":
            same = True
        else:
            same = False
        pairs.append((role, same))
        C.ok(same, "R-C10-a", W.fi.fq, "field '%s': writer and reader use the same encoding" % role, "%s / %s" % (w.kind, r.kind),
             "writer %s vs reader %s" % (w.kind, r.kind))
