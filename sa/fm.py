"""Tiny Fourier-Motzkin feasibility / entailment over the integers (rational relaxation +
gcd tightening).  A constraint is (coefs: dict var->int, const: int) meaning
sum(coefs[v]*v) <= const.  Sound for infeasibility: "infeasible over Q" implies
"infeasible over Z"; a blow-up cap answers "may be feasible"."""
from functools import reduce
from math import gcd


def norm(c):
    coefs, k = c
    coefs = {v: a for v, a in coefs.items() if a != 0}
    if not coefs:
        return ({}, k)
    g = reduce(gcd, (abs(a) for a in coefs.values()))
    if g > 1:
        coefs = {v: a // g for v, a in coefs.items()}
        k = k // g  # floor: integer tightening
    return (coefs, k)


def key(c):
    return tuple(sorted(c[0].items()))


def feasible(cons, cap=4000):
    """False if provably infeasible, True otherwise (including cap blow-up)."""
    cur = {}
    for c in cons:
        c = norm(c)
        kk = key(c)
        if kk not in cur or cur[kk][1] > c[1]:
            cur[kk] = c
    cons = list(cur.values())
    while True:
        for coefs, k in cons:
            if not coefs and k < 0:
                return False
        vars_ = set(v for c in cons for v in c[0])
        if not vars_:
            return True
        best = None
        for v in sorted(vars_):
            p = sum(1 for c in cons if c[0].get(v, 0) > 0)
            n = sum(1 for c in cons if c[0].get(v, 0) < 0)
            cost = p * n - p - n
            if best is None or cost < best[0]:
                best = (cost, v)
        v = best[1]
        pos = [c for c in cons if c[0].get(v, 0) > 0]
        neg = [c for c in cons if c[0].get(v, 0) < 0]
        rest = [c for c in cons if c[0].get(v, 0) == 0]
        new = {}
        for c in rest:
            kk = key(c)
            if kk not in new or new[kk][1] > c[1]:
                new[kk] = c
        for pc, pk in pos:
            a = pc[v]
            for nc, nk in neg:
                b = -nc[v]
                coefs = {}
                for u, x in pc.items():
                    if u != v:
                        coefs[u] = coefs.get(u, 0) + b * x
                for u, x in nc.items():
                    if u != v:
                        coefs[u] = coefs.get(u, 0) + a * x
                c = norm((coefs, b * pk + a * nk))
                if not c[0]:
                    if c[1] < 0:
                        return False
                    continue
                kk = key(c)
                if kk not in new or new[kk][1] > c[1]:
                    new[kk] = c
        cons = list(new.values())
        if len(cons) > cap:
            return True  # give up: "may be feasible" is the sound answer


def entails(cons, c):
    """cons |= c  iff  cons and not c  is infeasible; not(a.x <= k) is (-a).x <= -k-1 over Z."""
    coefs, k = c
    neg = ({v: -a for v, a in coefs.items()}, -k - 1)
    return not feasible(list(cons) + [neg])


def project(st, var):
    """Eliminate var from a constraint list (keeps integer soundness as over-approximation)."""
    pos = [c for c in st if c[0].get(var, 0) > 0]
    neg = [c for c in st if c[0].get(var, 0) < 0]
    rest = [c for c in st if c[0].get(var, 0) == 0]
    for pc, pk in pos:
        a = pc[var]
        for nc, nk in neg:
            b = -nc[var]
            co = {}
            for u, x in pc.items():
                if u != var:
                    co[u] = co.get(u, 0) + b * x
            for u, x in nc.items():
                if u != var:
                    co[u] = co.get(u, 0) + a * x
            rest.append((co, b * pk + a * nk))
    return rest


def satisfies(model, cons):
    for coefs, k in cons:
        if sum(a * model.get(v, 0) for v, a in coefs.items()) > k:
            return False
    return True


def model(cons, prefer=(0, 1, 2, 3, -1, 4, 5, 8, -2)):
    """A verified integer model of cons, or None.  Greedy: fix variables one at a time to a small
    value that keeps the system feasible, then check the result exactly."""
    cons = [norm(c) for c in cons]
    if not feasible(cons):
        return None
    vars_ = sorted(set(v for c in cons for v in c[0]))
    m = {}
    cur = list(cons)
    for v in vars_:
        chosen = None
        for val in prefer:
            trial = cur + [({v: 1}, val), ({v: -1}, -val)]
            if feasible(trial):
                chosen = val
                cur = trial
                break
        if chosen is None:
            # search a little further out
            for val in list(range(6, 40)) + list(range(-3, -40, -1)):
                trial = cur + [({v: 1}, val), ({v: -1}, -val)]
                if feasible(trial):
                    chosen = val
                    cur = trial
                    break
        if chosen is None:
            return None
        m[v] = chosen
    return m if satisfies(m, cons) else None


def cstr(c):
    return " ".join("%+d*%s" % (a, v) for v, a in sorted(c[0].items())) + " <= %d" % c[1]
