"""Pool-task analysis shared by C16 (schedule independence) and C20 (interrupts).

Finds, in ccube.calculate / xcube.calculate, the closure dispatched to the worker pool,
the events executed inside one task activation, the values the task captures from the
enclosing call (shared between tasks), and classifies every write of a task as
LOCAL / PARTITIONED / DIAGNOSTIC / SHARED.
"""
from . import terms as tm
from . import own, hints
from . import kind as K
from .terms import T
from .symex import Interp

POOL_BLOCKING = {"map", "starmap"}
POOL_NONBLOCKING = {"imap", "imap_unordered", "map_async", "starmap_async", "apply_async", "submit"}
DIAG_ATTRS = {
    "intersection_data_points": "ccube.intersection_data_points: diagnostic counter, excluded by the property",
    "tracing": "ffunc_*.tracing: timing counters, excluded by the property",
    "_tracing": "xcube._tracing: timing buckets, excluded by the property",
}
DIAG_CALLS = {
    "warnings.filterwarnings": "warnings filter: process-global diagnostic setting, excluded by the property",
    "builtins.print": "debug output",
}


class TaskInfo:
    pass


def analyse_cube(prog, module, clsname, max_depth=10):
    fi = prog.func(module, clsname + ".calculate")
    I = Interp(prog, hints.param_types_for(module), hints.FIELD_TYPES, max_depth=max_depth)
    fr = I.run(fi)
    info = TaskInfo()
    info.fi, info.I, info.frame = fi, I, fr
    # "top level" = calculate itself, and private helper methods of the same class that it calls (a dispatch moved into
    # `_map_subcubes(task)` is still calculate's dispatch) - but nothing below a task function
    def _helper_frame(frame_fi):
        q = getattr(frame_fi, "qualname", "") or ""
        last = q.split(".")[-1]
        return getattr(frame_fi, "cls", None) is not None and frame_fi.cls is fi.cls and last.startswith("_") and not last.startswith("__")
    top = [ev for ev in I.events if not ev.stack or all(s[0] is fi or _helper_frame(s[0]) for s in ev.stack)]
    info.top = top
    # dispatch through a pool: the walker emits a callback event with via='pool.<m>'
    info.callbacks = [ev for ev in top if ev.kind == "call" and ev["via"] and ev["via"].startswith("pool.")]
    info.pool_calls = [ev for ev in top if ev.kind == "call" and ev["method"] in (POOL_BLOCKING | POOL_NONBLOCKING | {"apply", "close", "join", "terminate"})
                       and ev["recv"] is not None and not ev["resolved"] and ev["via"] is None and _looks_like_pool(ev["recv"])]
    info.withs = [ev for ev in top if ev.kind == "with"]
    # serial invocations of the same closure
    info.task_fis = []
    for cb in info.callbacks:
        for f in cb["resolved"]:
            if f not in info.task_fis:
                info.task_fis.append(f)
    # serial invocations: a direct call in a loop, or the builtin map() driving the same function
    info.serial_calls = [ev for ev in top if ev.kind == "call" and ev["via"] in (None, "map") and any(f in info.task_fis for f in ev["resolved"])]
    return info


def _looks_like_pool(t):
    for a in tm.alts(t):
        if a.op == "call":
            nm = tm.callee_name(a) or ""
            if "Pool" in nm or "pool" in nm or nm == "" or a.args[0].op == "attr":
                return True
        if a.op == "enter":
            return True
        if a.op == "attr":
            return True
    return False


def task_events(info, entry_ev):
    """Events executed inside the activation started by entry_ev (a call event that was inlined)."""
    I = info.I
    node = entry_ev.node
    out = []
    fis = set(entry_ev["resolved"])
    for ev in I.events:
        if ev.seq <= entry_ev.seq:
            continue
        if not ev.stack:
            if ev.seq > entry_ev.seq:
                # back at top level: the activation is over
                break
            continue
        if ev.stack[0][1] is node or any(s[1] is node for s in ev.stack):
            if ev.fi in fis or any(s[0] in fis for s in ev.stack):
                out.append(ev)
    return out


def early_returns(info, entry_ev):
    """Explicit `return` statements of the task function itself, inside the activation started by entry_ev,
    with the guards that were added inside the task."""
    import ast as _ast
    out = []
    for ev in task_events(info, entry_ev):
        if ev.kind == "return" and ev.fi in info.task_fis and isinstance(ev.node, _ast.Return):
            extra = [g for g in ev.guards if g not in entry_ev.guards]
            out.append((ev, extra))
    return out


def closure_of(info, task_fi):
    for cid, clo in info.I.closures.items():
        if clo.fi is task_fi:
            return clo
    return None


def outside_terms(info, clo, cb=None):
    """Fresh-producing sub-terms of everything the closure captures: storage allocated before
    the task started, hence shared by all tasks.  For a task that is a METHOD dispatched through functools.partial the
    captured state is what the partial pre-binds (every argument but the last, which the pool supplies)."""
    out = {}
    if clo is None:
        if cb is None:
            return out
        fi = cb["resolved"][0]
        names = [p for p in fi.params() if p not in ("self", "cls")]
        for name, v in zip(names, list(cb.d.get("pre") or ())):
            if isinstance(v, T):
                for x in tm.walk(v):
                    if x.op in ("alloc", "comp") or (x.op == "call"):
                        out.setdefault(x, name)
        return out
    for name, v in clo.env.items():
        if not isinstance(v, T):
            continue
        label = name if isinstance(name, str) else ".".join(str(x) for x in name[1:] if isinstance(x, str)) or "field"
        for x in tm.walk(v):
            if x.op in ("alloc", "comp") or (x.op == "call"):
                out.setdefault(x, label)
    return out


def leaves(t, I, seen=None, stop=()):
    """Leaf terms a value is computed from (following loops / comprehensions back to their iterables).
    Terms in `stop` are treated as leaves."""
    seen = seen if seen is not None else set()
    out = set()
    stack = [t]
    while stack:
        x = stack.pop()
        if not isinstance(x, T) or x in seen:
            continue
        seen.add(x)
        if x in stop:
            out.add(x)
            continue
        if x.op in ("param", "alloc", "global"):
            out.add(x)
            if x.op == "alloc":
                h = I.heap.get(x, {})
                stack.extend(h.get("elts", []))
                stack.extend(v for _, v in h.get("items", []))
            continue
        if x.op == "const":
            continue
        if x.op in ("iter", "enumidx", "dkey", "dval"):
            stack.append(x.args[0])
            continue
        if x.op == "loopvar":
            be = I.backedge.get((x.args[0], x.args[1]))
            if be is not None:
                stack.append(be)
            continue
        if x.op == "comp":
            stack.append(x.args[1])
            for lid in x.args[2]:
                li = I.loopinfo.get(lid, {})
                if li.get("iter") is not None:
                    stack.append(li["iter"])
            continue
        if x.op == "call":
            stack.append(x.args[0])
            stack.extend(x.args[1])
            stack.extend(v for _, v in x.args[2])
            continue
        if x.op in ("ext", "func", "class", "closure", "module"):
            continue
        for a in x.args:
            if isinstance(a, T):
                stack.append(a)
            elif isinstance(a, tuple):
                stack.extend(b for b in a if isinstance(b, T))
    return out


def derivation_paths(t, I, stop, conds=(), depth=0):
    """All ways the storage of `t` derives from a term in `stop` (dict term->label).
    Yields (label, steps, conds): steps is the list of ('sub', index) / ('view', name) crossed,
    conds the phi/ifexp conditions chosen."""
    if depth > 40:
        return
    if t in stop:
        yield stop[t], [], list(conds)
        return
    op = t.op
    if op == "ifexp":
        c, a, b = t.args
        yield from derivation_paths(a, I, stop, conds + ((c, True),), depth + 1)
        yield from derivation_paths(b, I, stop, conds + ((c, False),), depth + 1)
    elif op == "phi":
        for a in t.args:
            yield from derivation_paths(a, I, stop, conds, depth + 1)
    elif op == "loopvar":
        be = I.backedge.get((t.args[0], t.args[1]))
        if be is not None and depth < 20:
            yield from derivation_paths(be, I, stop, conds, depth + 10)
    elif op == "sub":
        for lab, steps, cs in derivation_paths(t.args[0], I, stop, conds, depth + 1):
            yield lab, steps + [("sub", t.args[1])], cs
    elif op in ("iter", "dval", "unpack", "starred"):
        base = t.args[0]
        for el, cs0 in _elements_c(base, I, conds):
            for lab, steps, cs in derivation_paths(el, I, stop, cs0, depth + 1):
                yield lab, steps + [("elem", None)], cs
    elif op == "attr":
        if t.args[1] in own.VIEW_ATTRS:
            for lab, steps, cs in derivation_paths(t.args[0], I, stop, conds, depth + 1):
                yield lab, steps + [("view", t.args[1])], cs
        elif t.args[1] not in own.IMMUTABLE_ATTRS:
            for lab, steps, cs in derivation_paths(t.args[0], I, stop, conds, depth + 1):
                yield lab, steps + [("attr", t.args[1])], cs
    elif op == "call":
        nm = tm.callee_name(t)
        if nm and nm.startswith(".") and nm[1:] in ("reshape", "ravel", "view", "transpose", "squeeze"):
            for lab, steps, cs in derivation_paths(t.args[0].args[0], I, stop, conds, depth + 1):
                yield lab, steps + [("view", nm[1:])], cs
        elif nm in own.VIEW_FUNCS and t.args[1]:
            i = own.VIEW_FUNCS[nm]
            if len(t.args[1]) > i:
                for lab, steps, cs in derivation_paths(t.args[1][i], I, stop, conds, depth + 1):
                    yield lab, steps + [("view", nm)], cs
    elif op in ("tuple", "list", "comp", "alloc"):
        # a container: its storage is itself (handled by `stop`); elements handled via iter/sub
        return


def _elements(base, I):
    out = []
    for b in tm.alts(base):
        if b.op in ("tuple", "list", "set"):
            out.extend(b.args)
        elif b.op == "alloc":
            h = I.heap.get(b, {})
            out.extend(h.get("elts", []))
            out.extend(v for _, v in h.get("items", []))
        elif b.op == "comp":
            out.append(b.args[1])
        elif b.op == "call" and tm.callee_name(b) in ("builtins.zip", "builtins.list", "builtins.tuple", "builtins.enumerate", "builtins.reversed"):
            for a in b.args[1]:
                out.extend(_elements(a, I))
        elif b.op in ("iter", "dval", "unpack", "sub"):
            # element of an element
            for e in _elements(b.args[0], I):
                out.extend(_elements(e, I) or [e])
        else:
            out.append(b)
    return out


def _elements_c(base, I, conds, depth=0):
    """(element term, conditions) pairs for the elements of a container term, keeping the
    conditions of guarded alternatives."""
    if depth > 12:
        return
    b = base
    if b.op == "ifexp":
        c, x, y = b.args
        yield from _elements_c(x, I, conds + ((c, True),), depth + 1)
        yield from _elements_c(y, I, conds + ((c, False),), depth + 1)
    elif b.op == "phi":
        for a in b.args:
            yield from _elements_c(a, I, conds, depth + 1)
    elif b.op in ("tuple", "list", "set"):
        for a in b.args:
            yield a, conds
    elif b.op == "alloc":
        h = I.heap.get(b, {})
        for a in list(h.get("elts", [])) + [v for _, v in h.get("items", [])]:
            yield a, conds
    elif b.op == "comp":
        yield b.args[1], conds
    elif b.op == "call" and tm.callee_name(b) in ("builtins.zip", "builtins.list", "builtins.tuple", "builtins.enumerate", "builtins.reversed"):
        for a in b.args[1]:
            yield from _elements_c(a, I, conds, depth + 1)
    elif b.op in ("iter", "dval", "unpack", "sub"):
        for e, cs in _elements_c(b.args[0], I, conds, depth + 1):
            got = False
            for e2, cs2 in _elements_c(e, I, cs, depth + 1):
                got = True
                yield e2, cs2
            if not got:
                yield e, cs
    elif b.op == "loopvar":
        be = I.backedge.get((b.args[0], b.args[1]))
        if be is not None:
            yield from _elements_c(be, I, conds, depth + 4)
    else:
        yield b, conds


def pool_kind(prog, module, clsname, pool):
    """'mp' (multiprocessing pool: map blocks and re-raises), 'executor' (concurrent.futures: map is lazy about
    exceptions and results), or None when the pool's class cannot be resolved."""
    kinds = set()
    for a in tm.alts(pool):
        if a.op != "call":
            return None
        nm = tm.callee_name(a) or ""
        f = a.args[0]
        if f.op == "attr" and f.args[1] in ("pool_class", "executor_class"):
            ci = prog.cls(module, clsname)
            try:
                _, expr = prog.lookup_class_attr(ci, f.args[1])
            except Exception:
                expr = None
            import ast
            nm = ast.unparse(expr) if expr is not None else ""
            imp = prog.modules[module].imports.get(nm.split(".")[0]) if nm else None
            if imp and imp[0] in ("from", "name") and len(imp) > 1:
                nm = "%s.%s" % (imp[1], nm) if not nm.startswith(str(imp[1])) else nm
        last = nm.split(".")[-1]
        if "concurrent.futures" in nm or last.endswith("Executor"):
            kinds.add("executor")
        elif "multiprocessing" in nm or last in ("ThreadPool", "Pool"):
            kinds.add("mp")
        else:
            return None
    return kinds.pop() if len(kinds) == 1 else None
