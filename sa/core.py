"""Verdict / evidence / known-findings plumbing shared by every check.

Three-valued verdicts (DESIGN section 2):
  PROVED     the rule's condition holds at that construct
  VIOLATED   a specific construct breaks a necessary condition of the property
  UNDECIDED  the analysis met something outside its recognised idioms

Exit codes: 0 all PROVED (or only known findings), 1 a VIOLATED obligation that
known_findings.json does not list, 2 UNDECIDED / analysis error.
"""
import json
import os
import sys
import time
import traceback

VERIF = os.path.dirname(os.path.dirname(os.path.abspath(__file__)))
REPO = os.environ.get("CATII_REPO", "/repo")
SRC = os.path.join(REPO, "src", "catii")

PROVED, VIOLATED, UNDECIDED = "PROVED", "VIOLATED", "UNDECIDED"


def src_path(name):
    return os.path.join(SRC, name)


class Obligation:
    __slots__ = ("rule", "where", "construct", "status", "detail", "nontrivial", "witness")

    def __init__(self, rule, where, construct, status, detail="", nontrivial=True, witness=None):
        self.rule = rule  # e.g. "R-C12-a"
        self.where = where  # "module:qualname" (+ optional :line for humans only)
        self.construct = construct  # normalised text identifying the construct
        self.status = status
        self.detail = detail
        self.nontrivial = nontrivial
        self.witness = witness

    def key(self):
        # Line numbers never take part in the key.
        w = self.where.split("@")[0]
        return "%s|%s|%s" % (self.rule, w, self.construct)

    def as_dict(self):
        d = {
            "rule": self.rule,
            "where": self.where,
            "construct": self.construct,
            "status": self.status,
            "detail": self.detail,
        }
        if self.witness is not None:
            d["witness"] = self.witness
        return d


class Report:
    """Collects obligations for one property and turns them into exit code + evidence."""

    def __init__(self, prop, level="other", rules=None, declined="", tier=None):
        self.prop = prop
        self.level = level
        self.rules = rules or {}
        self.declined = declined
        self.obls = []
        self.notes = []
        self.assumptions = []
        self.floors = {}  # rule -> (minimum count, actual count)
        self.analysed = {}
        self.t0 = time.time()
        self.tier = tier or os.environ.get("VERIF_TIER") or "quick"
        self.extra = {}
        self.trusted_base = []
        self.checker_cmd = ""

    # -- recording ---------------------------------------------------------
    def add(self, rule, where, construct, status, detail="", nontrivial=True, witness=None):
        o = Obligation(rule, where, construct, status, detail, nontrivial, witness)
        self.obls.append(o)
        return o

    def proved(self, rule, where, construct, detail="", nontrivial=True):
        return self.add(rule, where, construct, PROVED, detail, nontrivial)

    def violated(self, rule, where, construct, detail="", witness=None):
        return self.add(rule, where, construct, VIOLATED, detail, True, witness)

    def undecided(self, rule, where, construct, detail=""):
        return self.add(rule, where, construct, UNDECIDED, detail, True)

    def check(self, cond, rule, where, construct, ok_detail="", bad_detail="", witness=None):
        if cond:
            return self.proved(rule, where, construct, ok_detail)
        return self.violated(rule, where, construct, bad_detail or ok_detail, witness)

    def floor(self, rule, minimum, actual):
        """Instance floor: a rule that matches fewer sites than confirmed by hand is UNDECIDED."""
        self.floors[rule] = (minimum, actual)
        if actual < minimum:
            self.undecided(
                rule,
                "floor",
                "instances",
                "rule matched %d site(s), fewer than the %d confirmed by hand: anchor vanished"
                % (actual, minimum),
            )

    def note(self, s):
        self.notes.append(s)

    def assume(self, s):
        if s not in self.assumptions:
            self.assumptions.append(s)

    # -- finishing ---------------------------------------------------------
    def finish(self):
        known = load_known()
        kf = {
            (k["property"], k["key"]): k
            for k in known
            if k.get("status", "open") == "open"
        }
        viol = [o for o in self.obls if o.status == VIOLATED]
        und = [o for o in self.obls if o.status == UNDECIDED]
        new_viol = []
        known_hit = []
        for o in viol:
            k = kf.get((self.prop, o.key()))
            if k is not None:
                known_hit.append((o, k))
            else:
                new_viol.append(o)

        outdir = os.environ.get("VERIF_EVIDENCE_DIR") or os.path.join(VERIF, "out")
        os.makedirs(outdir, exist_ok=True)
        for o, k in known_hit:
            print("KNOWN-FINDING: property=%s %s" % (self.prop, k.get("what", o.key())))
        replay = None
        if new_viol:
            replay = os.path.join(outdir, "%s.replay.json" % self.prop)
            with open(replay, "w") as f:
                json.dump(
                    {"property": self.prop, "violations": [o.as_dict() for o in new_viol]},
                    f,
                    indent=1,
                )
            for o in new_viol:
                print(
                    "  VIOLATED %s at %s: %s -- %s"
                    % (o.rule, o.where, o.construct, o.detail)
                )
                if o.witness:
                    print("     witness: %s" % (o.witness,))
            print("VIOLATION property=%s replay=%s" % (self.prop, replay))
        for o in und:
            print(
                "ANALYSIS-INCOMPLETE property=%s %s at %s: %s -- %s"
                % (self.prop, o.rule, o.where, o.construct, o.detail)
            )

        self.write_evidence(len(new_viol), len(known_hit), len(und))
        n = len(self.obls)
        print(
            "%s: %d obligations, %d proved, %d violated (%d known), %d undecided [%.2fs]"
            % (
                self.prop,
                n,
                sum(1 for o in self.obls if o.status == PROVED),
                len(viol),
                len(known_hit),
                len(und),
                time.time() - self.t0,
            )
        )
        if new_viol:
            return 1
        if und:
            return 2
        return 0

    def write_evidence(self, n_new, n_known, n_und):
        obls = self.obls
        proved = [o for o in obls if o.status == PROVED]
        distinct = {}
        for o in obls:
            if o.nontrivial:
                distinct[o.key()] = o
        samples = []
        seen_rules = set()
        for o in obls:
            if o.rule not in seen_rules:
                seen_rules.add(o.rule)
                samples.append(o.as_dict())
        for o in obls:
            if o.status != PROVED and o.as_dict() not in samples:
                samples.append(o.as_dict())
        samples = samples[:40]
        per_rule = {}
        for o in obls:
            r = per_rule.setdefault(o.rule, {"PROVED": 0, "VIOLATED": 0, "UNDECIDED": 0})
            r[o.status] += 1
        cov = {
            "evaluations": len(obls),
            "distinct_nontrivial": len(distinct),
            "rule": "one obligation per (rule, construct) found by the static analysis of "
            "/repo's working tree; non-trivial = needed a path/dataflow/entailment "
            "argument; distinct = distinct (rule, site, construct) keys",
            "samples": samples,
            "obligations": len(obls),
            "discharged": len(proved),
            "checker_cmd": self.checker_cmd
            or "/venv/bin/python checks/%s.py --tier %s" % (self.prop.lower(), self.tier),
            "trusted_base": self.trusted_base,
            "explanation": "Static analysis only (no catii code is imported or run). Rules: "
            + "; ".join("%s: %s" % kv for kv in sorted(self.rules.items()))
            + (" || Declined (not decided by this check): " + self.declined if self.declined else ""),
            "exhaustive": True,
            "per_rule": per_rule,
            "instance_floors": {k: {"min": v[0], "actual": v[1]} for k, v in self.floors.items()},
            "analysed": self.analysed,
            "known_findings_reported": n_known,
            "undecided": n_und,
            "notes": self.notes,
        }
        cov.update(self.extra)
        level = self.level
        if level == "proof" and len(proved) != len(obls):
            # A proof-level claim needs every obligation discharged; be honest otherwise.
            level = "other"
        ev = {
            "property_id": self.prop,
            "tier": "thorough" if self.tier == "thorough" else "quick",
            "seed": int(os.environ.get("VERIF_SEED", "0") or 0),
            "level": level,
            "coverage": cov,
            "assumptions": self.assumptions,
            "wall_s": round(time.time() - self.t0, 3),
            "violations": n_new,
        }
        evdir = os.environ.get("VERIF_EVIDENCE_DIR") or os.path.join(VERIF, "evidence")
        os.makedirs(evdir, exist_ok=True)
        with open(os.path.join(evdir, "%s.json" % self.prop), "w") as f:
            json.dump(ev, f, indent=1, default=str)


def load_known():
    p = os.path.join(VERIF, "known_findings.json")
    if not os.path.exists(p):
        return []
    with open(p) as f:
        return json.load(f).get("findings", [])


def parse_tier(argv):
    tier = os.environ.get("VERIF_TIER") or "quick"
    if "--tier" in argv:
        tier = argv[argv.index("--tier") + 1]
    return tier


def thorough_selftest(prop, rc):
    """Thorough tier: additionally run this property's seeded variants (mutants that must FIRE,
    benign twins that must stay SILENT) against scratch copies of /repo's sources and record the
    outcome in the evidence.  A variant that misbehaves means the CHECKER is broken: exit 2."""
    sys.path.insert(0, VERIF)
    from selftest.run import run as run_variants

    t0 = time.time()
    bad, vs, res = run_variants({prop}, verbose=False, tier="quick", quiet=True, with_global=True)
    fired = sum(1 for v, r in zip(vs, res) if v["expect"] == "fire" and r["ok"])
    nfire = sum(1 for v in vs if v["expect"] == "fire")
    silent = sum(1 for v, r in zip(vs, res) if v["expect"] != "fire" and r["ok"])
    nsilent = sum(1 for v in vs if v["expect"] != "fire")
    evp = os.path.join(os.environ.get("VERIF_EVIDENCE_DIR") or os.path.join(VERIF, "evidence"), "%s.json" % prop)
    try:
        with open(evp) as f:
            ev = json.load(f)
        cov = ev["coverage"]
        cov["selftest"] = {
            "variants_fired": fired, "variants_expected": nfire, "twins_silent": silent, "twins_expected": nsilent,
            "failed": [v["name"] for v, r in zip(vs, res) if not r["ok"]],
            "names": [v["name"] for v in vs], "wall_s": round(time.time() - t0, 2),
        }
        cov["evaluations"] = cov.get("evaluations", 0) + len(vs)
        ev["wall_s"] = round(ev.get("wall_s", 0) + time.time() - t0, 3)
        with open(evp, "w") as f:
            json.dump(ev, f, indent=1, default=str)
    except Exception:
        traceback.print_exc()
    print("%s thorough: %d/%d seeded variants fired, %d/%d benign twins silent [%.1fs]" % (prop, fired, nfire, silent, nsilent, time.time() - t0))
    if bad and rc == 0:
        print("ANALYSIS-INCOMPLETE property=%s self-test: %d variant(s) misbehaved: the checker, not the code, needs attention" % (prop, bad))
        return 2
    return rc


def run_main(prop, fn):
    """Wrap a check's main: tracebacks are analysis errors (exit 2), never violations."""
    try:
        tier = parse_tier(sys.argv)
        if "--replay" in sys.argv:
            p = sys.argv[sys.argv.index("--replay") + 1]
            with open(p) as f:
                print(json.dumps(json.load(f), indent=1))
        rc = fn(tier)
        if tier == "thorough" and not os.environ.get("VERIF_NO_SELFTEST"):
            rc = thorough_selftest(prop, rc)
        sys.stdout.flush()
        sys.exit(rc)
    except SystemExit:
        raise
    except BaseException:
        traceback.print_exc()
        print("ANALYSIS-ERROR property=%s (internal error in the checker; not a verdict)" % prop)
        # still leave an evidence file that says so
        try:
            r = Report(prop)
            r.undecided("internal", "checker", "exception", traceback.format_exc()[-600:])
            r.write_evidence(0, 0, 1)
        except Exception:
            pass
        sys.exit(2)
