"""Rule over the aggregators' input-format helper `as_separate_validity` (ffuncs and xfuncs each have one).

Every aggregate rule of engine A treats a call of this helper as a summary: (values, validity) with
validity = "the rows that are not marked missing".  That summary is only right while the helper's body says so, so the
body is checked here on every run:

  * a (values, validity) pair is passed through (validity coerced to bool, values untouched);
  * for a single array the validity is ~numpy.isnan(array) for EVERY dtype that has a missing marker - the floating types
    of any width (NaN) and datetime64 / timedelta64 (NaT, which numpy.isnan recognises).  A dtype shortcut that returns
    an all-True validity is accepted only when the dtypes that reach it are provably marker-free (integer / bool kinds);
    one that lets a marker-capable dtype through is VIOLATED with the dtype as the witness; any other form is UNDECIDED.

Nothing is executed."""
from . import hints, terms as tm
from .symex import Interp

MARKER_KINDS = {"f": "float16/float32/float64 (NaN)", "m": "timedelta64 (NaT)", "M": "datetime64 (NaT)"}
ALL_KINDS = set("biufcmMOSUV")
ABSTRACT = {  # numpy abstract scalar types -> dtype kinds they cover
    "numpy.floating": set("f"), "numpy.inexact": set("fc"), "numpy.number": set("iufc"), "numpy.integer": set("iu"), "numpy.signedinteger": set("i"),
    "numpy.unsignedinteger": set("u"), "numpy.bool_": set("b"), "numpy.bool": set("b"), "numpy.complexfloating": set("c"), "numpy.datetime64": set("M"),
    "numpy.timedelta64": set("m"), "numpy.generic": set(ALL_KINDS),
}
CONCRETE_FLOAT = {"builtins.float", "numpy.float64", "numpy.double", "numpy.float_"}


def _is_isnan_form(t, arrs):
    """~numpy.isnan(a) / numpy.logical_not(numpy.isnan(a)) / numpy.invert(...) with a one of the array terms"""
    inner = None
    if t.op == "unop" and t.args[0] in ("~", "invert", "Invert"):
        inner = t.args[1]
    elif t.op == "call" and tm.callee_name(t) in ("numpy.logical_not", "numpy.invert", "numpy.bitwise_not") and len(t.args[1]) == 1:
        inner = t.args[1][0]
    if inner is None or inner.op != "call" or tm.callee_name(inner) not in ("numpy.isnan", "numpy.isnat") or len(inner.args[1]) != 1:
        return False
    if tm.callee_name(inner) == "numpy.isnat":
        return False  # isnat alone raises for floats: not the all-dtype form
    return inner.args[1][0] in arrs


def _is_all_true(t):
    if t.op != "call":
        return False
    nm = tm.callee_name(t) or ""
    if nm in ("numpy.ones", "numpy.ones_like"):
        dt = tm.kwarg(t, "dtype") or (t.args[1][1] if len(t.args[1]) > 1 else None)
        return dt is not None and tm.dotted(dt) in ("builtins.bool", "numpy.bool_", "numpy.bool") or (dt is not None and tm.is_const(dt, "bool")) or (dt is not None and tm.is_const(dt, "?"))
    if nm in ("numpy.full", "numpy.full_like") and len(t.args[1]) >= 2:
        return tm.is_const(t.args[1][1], True)
    return False


def _kinds_of_test(c, arrs):
    """The set of dtype kinds for which condition c holds, or None when c is not a recognised dtype test of the array."""
    def is_dtype(x):
        return x.op == "attr" and x.args[1] == "dtype" and x.args[0] in arrs

    def is_kind(x):
        return x.op == "attr" and x.args[1] == "kind" and is_dtype(x.args[0])

    if c.op == "cmp":
        op, a, b = c.args
        if op in ("==", "!="):
            for x, y in ((a, b), (b, a)):
                if is_kind(x) and y.op == "const" and isinstance(y.args[1], str) and len(y.args[1]) == 1:
                    ks = {y.args[1]}
                    return ks if op == "==" else ALL_KINDS - ks
                if is_dtype(x):
                    nm = tm.dotted(y) if y.op != "const" else None
                    if nm in CONCRETE_FLOAT or (y.op == "const" and y.args[1] in ("float", "float64", "f8", "d")):
                        # ONE concrete float type: the other float widths (and everything else) are on the other side.
                        # Encoded as a pseudo-kind so that "f" is known to be split.
                        return {"f64only"} if op == "==" else (ALL_KINDS | {"f"}) - {"f64only"}
            return None
        if op in ("in", "not in") and is_kind(a):
            ks = None
            if b.op == "const" and isinstance(b.args[1], str):
                ks = set(b.args[1])
            elif b.op in ("tuple", "list", "set") and all(x.op == "const" and isinstance(x.args[1], str) for x in b.args):
                ks = {x.args[1] for x in b.args}
            if ks is None:
                return None
            return ks if op == "in" else ALL_KINDS - ks
        return None
    if c.op == "call" and tm.callee_name(c) == "numpy.issubdtype" and len(c.args[1]) == 2 and is_dtype(c.args[1][0]):
        nm = tm.dotted(c.args[1][1])
        if nm in ABSTRACT:
            return set(ABSTRACT[nm])
        if nm in CONCRETE_FLOAT:
            return {"f64only"}
        return None
    return None


def check(prog, rep, module, rule, kinds=("f", "m", "M")):
    """Adds obligations for <module>.as_separate_validity to rep under `rule`; returns the number of obligations.
    kinds: the marker-capable dtype kinds the claiming property quantifies over (C03 speaks of integer and float facts
    only; C04 / C18 include the datetime facts of xcube.min / max)."""
    try:
        fi = prog.func(module, "as_separate_validity")
    except Exception:
        fi = None
    where = "%s:as_separate_validity" % module
    if fi is None:
        rep.undecided(rule, where, "input-format helper", "function not found (anchor vanished): the aggregate rules summarise calls of it")
        return 1
    n = 0
    arg = tm.param(fi.node.args.args[0].arg)
    for is_tuple in (False, True):
        def oracle(t, is_tuple=is_tuple):
            if t.op == "call" and tm.callee_name(t) == "builtins.isinstance" and len(t.args[1]) == 2 and t.args[1][0] == arg:
                return is_tuple
            return None
        I = Interp(prog, hints.param_types_for(module), hints.FIELD_TYPES, inline=False, oracle=oracle)
        fr = I.run(fi)
        rets = [e["value"] for e in I.events if e.kind == "return" and not e.stack]
        cons = "%s: %s" % (where, "a (values, validity) pair is passed through" if is_tuple else "a single array: validity = ~isnan(array) for every dtype that has a missing marker")
        n += 1
        if len(rets) != 1 or rets[0].op != "tuple" or len(rets[0].args) != 2:
            rep.undecided(rule, where, cons, "the helper does not end in one `return values, validity`")
            continue
        vals, validity = rets[0].args
        if is_tuple:
            # values = asarray(pair[0]), validity = asarray(pair[1]).astype(bool) (or asarray(..., dtype=bool))
            def from_part(t, i):
                return tm.contains(t, lambda x: (x.op == "unpack" and x.args[0] == arg and x.args[1] == i) or (x.op == "sub" and x.args[0] == arg and tm.is_const(x.args[1], i)))
            ok = from_part(vals, 0) and not from_part(vals, 1) and from_part(validity, 1) and not from_part(validity, 0)
            if ok:
                rep.proved(rule, where, cons, "values from element 0, validity from element 1")
            elif from_part(vals, 1) or from_part(validity, 0):
                rep.violated(rule, where, cons, "the two elements of the pair are exchanged or mixed: values=%s validity=%s" % (tm.show(vals)[:50], tm.show(validity)[:50]),
                             witness={"inputs": "any fact passed as (values, validity)"})
            else:
                rep.undecided(rule, where, cons, "values / validity are not recognisably the pair's elements: %s / %s" % (tm.show(vals)[:50], tm.show(validity)[:50]))
            continue
        arrs = {arg, vals} | set(tm.alts(vals))
        for a in list(arrs):
            if a.op == "call" and tm.callee_name(a) in ("numpy.asarray", "numpy.asanyarray", "numpy.array") and a.args[1]:
                arrs.add(a.args[1][0])

        verdict, detail, witness = _single(validity, [], arrs, kinds)
        if verdict == "ok":
            rep.proved(rule, where, cons, detail)
        elif verdict == "bad":
            rep.violated(rule, where, cons, detail, witness=witness)
        else:
            rep.undecided(rule, where, cons, detail)
    return n


def _single(t, conds, arrs, kinds=("f", "m", "M")):
    """-> ('ok' | 'bad' | 'unknown', detail, witness) for the validity term t reached under dtype conditions conds"""
    if t.op == "ifexp":
        c, a, b = t.args
        ra = _single(a, conds + [(c, True)], arrs, kinds)
        rb = _single(b, conds + [(c, False)], arrs, kinds)
        for r in (ra, rb):
            if r[0] == "bad":
                return r
        for r in (ra, rb):
            if r[0] == "unknown":
                return r
        return ("ok", "%s; %s" % (ra[1], rb[1]), None)
    if t.op == "phi":
        rs = [_single(a, conds, arrs, kinds) for a in t.args]
        for want in ("bad", "unknown"):
            for r in rs:
                if r[0] == want:
                    return r if want == "bad" and not conds else ("unknown", "alternatives merged without a readable condition: %s" % r[1], None)
        return ("ok", "; ".join(r[1] for r in rs), None)
    if _is_isnan_form(t, arrs):
        return ("ok", "~numpy.isnan(array)", None)
    if _is_all_true(t):
        # which dtype kinds reach this all-valid answer?
        reach = set(ALL_KINDS) | {"f64only"}
        split_f = False
        for c, pol in conds:
            ks = _kinds_of_test(c, arrs)
            if ks is None:
                return ("unknown", "an all-True validity is returned under a condition that is not a recognised dtype test: %s" % tm.show(c)[:70], None)
            if "f64only" in ks or (ALL_KINDS | {"f"}) - {"f64only"} == ks:
                split_f = True
            holds = set(ks)
            if not pol:
                holds = (set(ALL_KINDS) | {"f64only"}) - holds
            reach &= holds
        if not conds:
            return ("bad", "every single-array input is reported fully valid: NaN / NaT markers are ignored", {"inputs": "a float fact column containing NaN"})
        # float64 test: the other float widths are on the all-True side
        if split_f and "f64only" not in reach:
            return ("bad", "only float64 arrays are scanned for NaN (`dtype == float` is one concrete type): a float32 / float16 column with NaN markers is reported fully valid",
                    {"inputs": "numpy.array([1.0, nan, 3.0], dtype=numpy.float32) as the fact (or weight) column"})
        leaked = sorted(k for k in MARKER_KINDS if k in reach and k in kinds)
        if leaked:
            return ("bad", "arrays of kind %s skip the missing-marker scan and are reported fully valid: %s" % (", ".join(repr(k) for k in leaked), "; ".join(MARKER_KINDS[k] for k in leaked)),
                    {"inputs": "numpy.array(['2020-01-01', 'NaT'], dtype='datetime64[D]') as the fact column of xcube.min / max" if "M" in leaked else "a %s column holding a missing marker" % MARKER_KINDS[leaked[0]]})
        return ("ok", "all-True validity only for dtype kinds %s, none of which has a missing marker" % "".join(sorted(k for k in reach if len(k) == 1)), None)
    return ("unknown", "validity of a single array is %s: not ~isnan(array) and not a recognised dtype shortcut" % tm.show(t)[:80], None)
