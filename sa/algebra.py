"""Engine A (DESIGN 3.4): normal forms for the expressions of the ffunc_* / xfunc_* protocol.

Row arrays (one value per input row) normalise to small tuples over the leaves
   ('VALS', p)  values of argument p        ('VALID', p) its validity
with operators  AND / MUL (row-wise; .T pairs that implement row-wise broadcasting are
ignored), NOT, ZEROAT(x, where) / NANAT(x, where) for in-place patches made in __init__.
Reducers over a row set R in {ALL, CELL} normalise to linear forms
   {('COUNT', R): c, ('SUM', R, row_nf): c, ...}
with the identities  SUM_R(NOT b) = COUNT_R - SUM_R(b)  (b boolean) and nansum == sum on
zero-filled arrays (recorded as an assumption).  Anything not recognised is UNKNOWN and
makes the comparison that needs it UNDECIDED.
"""
from . import terms as tm
from .terms import T

UNKNOWN = "UNKNOWN"

SUMS = {"numpy.sum", "numpy.nansum", "numpy.count_nonzero"}
TRANSPARENT_METHODS = {"copy", "astype", "view"}


class Unknown(Exception):
    pass


def strip_T(t):
    """.T, .transpose() and numpy.transpose(x) do not change which row a value belongs to (layout is R-C03-r's business)"""
    while True:
        if t.op == "attr" and t.args[1] == "T":
            t = t.args[0]
        elif t.op == "call" and tm.callee_name(t) == "numpy.transpose" and len(t.args[1]) == 1:
            t = t.args[1][0]
        elif t.op == "call" and tm.callee_name(t) == ".transpose" and not t.args[1]:
            t = t.args[0].args[0]
        else:
            return t


class Algebra:
    def __init__(self, I_init, fields, I=None, region_param="regions", rows_params=("x_rowids",), mask_names=()):
        self.I0 = I_init
        self.fields = fields
        self.I = I or I_init
        self.region_param = region_param
        self.rows_params = set(rows_params)
        self.patches = {}  # base term -> [(index term, value term)]
        for ev in I_init.events:
            if ev.kind == "store_sub":
                self.patches.setdefault(ev["base"], []).append((ev["index"], ev["value"]))
        self.assumptions = set()

    # ------------------------------------------------------------------ rows
    def row(self, t, depth=0):
        if depth > 40:
            raise Unknown("depth")
        d = depth + 1
        t0 = t
        t = strip_T(t)
        nf = self._row(t, d)
        for idx, val in (self.patches.get(t0, []) if t0 in self.patches else self.patches.get(t, [])):
            w = self.row(idx, d)
            if tm.is_const(val, 0) or tm.is_const(val, False):
                nf = ("ZEROAT", nf, w)
            elif self._is_nan(val):
                nf = ("NANAT", nf, w)
            else:
                nf = ("PATCH", nf, w, tm.show(val)[:20])
        return nf

    def _is_nan(self, v):
        if v.op == "call" and tm.callee_name(v) == "builtins.float" and v.args[1] and tm.is_const(v.args[1][0], "nan"):
            return True
        if v.op == "global" and v.args[1] == "NaN":
            return True
        if v.op == "const" and isinstance(v.args[1], float) and v.args[1] != v.args[1]:
            return True
        return False

    def _row(self, t, d):
        if t.op == "unpack" and t.args[0].op == "call" and (tm.callee_name(t.args[0]) or "").endswith("as_separate_validity") and t.args[2] == 2:
            src = t.args[0].args[1][0]
            name = src.args[0] if src.op == "param" else tm.show(src)[:30]
            return ("VALS" if t.args[1] == 0 else "VALID", name)
        if t.op == "attr" and t.args[0].op == "param" and t.args[0].args[0] == "self" and t.args[1] in self.fields:
            return self.row(self.fields[t.args[1]], d)
        if t.op == "call":
            nm = tm.callee_name(t) or ""
            if nm.startswith(".") and nm[1:] in TRANSPARENT_METHODS:
                return self.row(t.args[0].args[0], d)
            if nm in ("numpy.asarray", "numpy.array") and t.args[1]:
                return self.row(t.args[1][0], d)
            if nm == "numpy.all" and t.args[1]:
                return ("ALLCOLS", self.row(t.args[1][0], d))
            if nm == "numpy.isnan" and t.args[1]:
                return ("ISNAN", self.row(t.args[1][0], d))
        if t.op == "binop" and t.args[0] in ("&", "*"):
            a, b = self.row(t.args[1], d), self.row(t.args[2], d)
            op = "AND" if t.args[0] == "&" else "MUL"
            x, y = sorted([a, b], key=repr)
            if op == "AND" and x == y:
                return x
            return (op, x, y)
        if t.op == "unop" and t.args[0] == "~":
            a = self.row(t.args[1], d)
            if a[0] == "NOT":
                return a[1]
            return ("NOT", a)
        if t.op == "ifexp":
            a, b = self.row(t.args[1], d), self.row(t.args[2], d)
            if a == b:
                return a
            raise Unknown("row alternatives differ: %s" % tm.show(t.args[0])[:40])
        if t.op == "param":
            return ("PARAM", t.args[0])
        raise Unknown("row array %s" % tm.show(t)[:60])

    def simplify_row(self, nf):
        """ZEROAT(x, NOT v) with x already zero outside v, etc.  Only the identities the protocol uses:
        ZEROAT(AND(a, b), NOT AND(a, b)) = AND(a, b);  ZEROAT(v, NOT v) = v for boolean v."""
        if nf[0] == "ZEROAT":
            x, w = self.simplify_row(nf[1]), self.simplify_row(nf[2])
            if w == ("NOT", x):
                return x
            return ("ZEROAT", x, w)
        if nf[0] in ("AND", "MUL"):
            return (nf[0],) + tuple(sorted([self.simplify_row(nf[1]), self.simplify_row(nf[2])], key=repr))
        if nf[0] in ("NOT", "ALLCOLS", "ISNAN"):
            return (nf[0], self.simplify_row(nf[1]))
        if nf[0] in ("NANAT",):
            return (nf[0], self.simplify_row(nf[1]), self.simplify_row(nf[2]))
        return nf

    # ---------------------------------------------------------------- reducers
    def rowsel(self, idx):
        """Is an index a selection of the current cell's rows?"""
        if idx.op == "param" and idx.args[0] in self.rows_params:
            return True
        if idx.op == "unpack" and idx.args[0].op == "iter" and idx.args[0].args[0].op in ("gen", "call", "phi"):
            return True  # rowmask from bins()
        if idx.op == "cmp" and idx.args[0] == "==":
            return True  # coordinates == i
        if tm.contains(idx, lambda x: x.op == "param" and x.args[0] in ("coordinates",)):
            return True
        return False

    def split_rows(self, x):
        """X[rows] -> (X, 'CELL') ; X -> (X, 'ALL')"""
        x1 = strip_T(x)
        if x1.op == "sub" and self.rowsel(x1.args[1]):
            return x1.args[0], "CELL"
        return x, "ALL"

    def red(self, t, depth=0, env=None):
        """term -> linear form {atom: coef}"""
        if env is not None:
            self._env = env
        env = getattr(self, "_env", None)
        if depth > 40:
            raise Unknown("depth")
        d = depth + 1
        if t.op == "const":
            v = t.args[1]
            if isinstance(v, bool):
                v = int(v)
            if isinstance(v, (int, float)):
                return {1: v} if v else {}
            raise Unknown("constant %r" % (v,))
        if t.op == "call":
            nm = tm.callee_name(t) or ""
            args = t.args[1]
            if nm in SUMS or (nm.startswith(".") and nm[1:] in ("sum",)):
                x = args[0] if nm in SUMS else t.args[0].args[0]
                if nm == "numpy.nansum":
                    self.assumptions.add("nansum == sum on arrays whose invalid rows were zero-filled in __init__")
                base, R = self.split_rows(x)
                rnf = self.simplify_row(self.row(base))
                rest = args[1:] if nm in SUMS else args
                axis = tm.kwarg(t, "axis")
                if axis is None and rest:
                    axis = rest[0]
                per_column = axis is not None and tm.is_const(axis, 0)
                nd = getattr(self, "ndim", None)
                if axis is not None and (tm.is_const(axis, -1) or tm.is_const(axis, 1)):
                    # the LAST axis: the rows themselves for a one-column (1-D) array, the COLUMNS of each row for several
                    if tm.is_const(axis, -1) and (nd == 1 or _one_dim(rnf)):
                        per_column = True
                    else:
                        # several columns are possible (nd == 2, or a fact array whose column count the configuration
                        # leaves open): the reduction runs across the columns of each row - not the per-column value
                        return {("ACROSSCOLUMNS", _freeze(self._sum(R, rnf))): 1}
                if axis is not None and not per_column and not (axis == tm.NONE):
                    raise Unknown("reduction over axis %s" % tm.show(axis)[:20])
                lin = self._sum(R, rnf)
                if per_column or getattr(self, "ndim", None) == 1 or _one_dim(rnf):
                    return lin
                # no axis: rows AND columns are reduced together; equals the per-column value only for one column
                return {("ALLCOLUMNS", _freeze(lin)): 1}
            if nm == "numpy.bincount" and args:
                w = tm.kwarg(t, "weights")
                if w is None and len(args) > 1:
                    w = args[1]
                if w is None:
                    return {("COUNT", "CELL"): 1}
                return self._sum("CELL", self.simplify_row(self.row(w)))
            if nm == "builtins.len" and args:
                x = args[0]
                if x.op == "param" and x.args[0] in self.rows_params:
                    return {("COUNT", "CELL"): 1}
                base, R = self.split_rows(x)
                self.row(base)  # must be a row array
                return {("COUNT", R): 1}
            if nm == "builtins.int" and args:
                return self.red(args[0], d)
            if nm in ("functools.reduce", "numpy.prod", "math.prod") and args:
                # the product of ALL extents of an array / index: rows x the extents of every further axis
                shp = args[1] if nm == "functools.reduce" and len(args) > 1 else args[0]
                is_mul = nm != "functools.reduce" or (tm.dotted(args[0]) or "").endswith("mul")
                if is_mul and shp.op == "attr" and shp.args[1] == "shape":
                    return {("SIZE", "ALL"): 1}
            raise Unknown("reducer %s" % nm)
        if t.op == "sub" and t.args[0].op == "attr" and t.args[0].args[1] == "shape" and tm.is_const(t.args[1], 0):
            # X.shape[0]: number of rows
            return {("COUNT", "ALL"): 1}
        if t.op == "attr" and t.args[1] == "size":
            x = t.args[0]
            if x.op == "param" and x.args[0] in self.rows_params:
                return {("COUNT", "CELL"): 1}  # row-id arrays are one-dimensional
            base, R = self.split_rows(x)
            self.row(base)  # must be a row array
            if getattr(self, "ndim", None) == 1:
                return {("COUNT", R): 1}
            # rows x columns: equals the number of rows only for a single column
            return {("SIZE", R): 1}
        if t.op in ("param", "attr") and (t.args[-1] == "N" or (t.op == "param" and t.args[0] == "N")):
            self.assumptions.add("an explicit N is the number of rows")
            return {("COUNT", "ALL"): 1}
        if t.op == "binop":
            op, l, r = t.args
            if op in ("+", "-"):
                a, b = self.red(l, d), self.red(r, d)
                out = dict(a)
                for k, v in b.items():
                    out[k] = out.get(k, 0) + (v if op == "+" else -v)
                return {k: v for k, v in out.items() if v != 0}
            if op == "*":
                # scalar weight (or its validity) times a reducer
                for x, y in ((l, r), (r, l)):
                    s = self.scalar(x)
                    if s is not None:
                        inner = self.red(y, d)
                        return {("MULS", s, k): v for k, v in inner.items()}
                raise Unknown("product %s" % tm.show(t)[:60])
        if t.op == "ifexp":
            c = t.args[0]
            s = self.scalar(c)
            if s is not None:
                a, b = self.red(t.args[1], d), self.red(t.args[2], d)
                return {("IF", s, _freeze(a), _freeze(b)): 1}
            a, b = self.red(t.args[1], d), self.red(t.args[2], d)
            if a == b:
                return a
            raise Unknown("conditional on %s" % tm.show(c)[:50])
        if t.op == "phi":
            forms = [self.red(a, d) for a in t.args]
            if all(f == forms[0] for f in forms):
                return forms[0]
            raise Unknown("alternatives differ")
        if t.op == "sub" and env is not None:
            key = (t.args[0], t.args[1])
            if key in env:
                return env[key]
        raise Unknown("reducer term %s" % tm.show(t)[:60])

    def scalar(self, t):
        """Name of a per-aggregator scalar (scalar weight / its validity), else None."""
        t = strip_T(t)
        neg = False
        if t.op == "unop" and t.args[0] == "~":
            neg = True
            t = t.args[1]
        if t.op == "attr" and t.args[0] == tm.param("self") and t.args[1] in ("weights", "validity"):
            return ("NOT-" if neg else "") + ("W" if t.args[1] == "weights" else "WVALID")
        core = t
        while core.op == "call" and (tm.callee_name(core) or "") in (".copy", ".astype"):
            core = core.args[0].args[0]
        for name, tag in (("weights", "W"), ("validity", "WVALID")):
            f = self.fields.get(name)
            if f is not None and (t == f or core == f or core == strip_wrappers(f)):
                # only a scalar when the configuration says so: the caller folds .shape tests first
                return ("NOT-" if neg else "") + tag
        return None

    def _sum(self, R, rnf):
        if rnf[0] == "NOT":
            out = {("COUNT", R): 1}
            for k, v in self._sum(R, rnf[1]).items():
                out[k] = out.get(k, 0) - v
            return out
        return {("SUM", R, rnf): 1}


def _one_dim(rnf):
    """Is a row array one-dimensional by contract (weights are; fact arrays may have several columns)?"""
    if rnf[0] in ("VALS", "VALID", "PARAM"):
        return rnf[1] in ("weights", "weight")
    if rnf[0] == "ALLCOLS":
        return True
    if rnf[0] in ("NOT", "ISNAN"):
        return _one_dim(rnf[1])
    if rnf[0] in ("AND", "MUL", "ZEROAT", "NANAT"):
        return all(_one_dim(x) for x in rnf[1:] if isinstance(x, tuple))
    return False


def strip_wrappers(t):
    while t.op == "call" and (tm.callee_name(t) or "") in (".copy", ".astype"):
        t = t.args[0].args[0]
    return t


def _freeze(d):
    return tuple(sorted(d.items(), key=repr))


def to_all(lin):
    """The ALL-rows instance of a CELL form."""
    def conv(k):
        if k == 1:
            return 1
        if k[0] == "COUNT":
            return ("COUNT", "ALL")
        if k[0] == "SIZE":
            return ("SIZE", "ALL")
        if k[0] == "ALLCOLUMNS":
            return ("ALLCOLUMNS", tuple((conv(a), c) for a, c in k[1]))
        if k[0] == "SUM":
            return ("SUM", "ALL", k[2])
        if k[0] == "MULS":
            return ("MULS", k[1], conv(k[2]))
        if k[0] == "IF":
            return ("IF", k[1], tuple((conv(a), c) for a, c in k[2]), tuple((conv(a), c) for a, c in k[3]))
        return k

    return {conv(k): v for k, v in lin.items()}


def erase_R(lin):
    """Forget ALL / CELL (an array cube without coordinates has one cell holding all rows)."""
    def conv(k):
        if k == 1:
            return 1
        if k[0] == "COUNT":
            return ("COUNT",)
        if k[0] == "SIZE":
            return ("SIZE",)
        if k[0] == "ALLCOLUMNS":
            return ("ALLCOLUMNS", tuple((conv(a), c) for a, c in k[1]))
        if k[0] == "SUM":
            return ("SUM", k[2])
        if k[0] == "MULS":
            return ("MULS", k[1], conv(k[2]))
        if k[0] == "IF":
            return ("IF", k[1], tuple((conv(a), c) for a, c in k[2]), tuple((conv(a), c) for a, c in k[3]))
        return k

    return {conv(k): v for k, v in lin.items()}


def show_lin(lin):
    if not lin:
        return "0"
    parts = []
    for k, v in sorted(lin.items(), key=repr):
        parts.append(("%s*" % v if v != 1 else "") + show_atom(k))
    return " + ".join(parts).replace("+ -1*", "- ")


def show_atom(k):
    if k == 1:
        return "1"
    if k[0] == "COUNT":
        return "COUNT_%s" % k[-1] if len(k) > 1 else "COUNT"
    if k[0] == "SIZE":
        return "ROWSxCOLUMNS_%s" % k[-1] if len(k) > 1 else "ROWSxCOLUMNS"
    if k[0] == "ALLCOLUMNS":
        return "OVER-ALL-COLUMNS(%s)" % show_lin(dict(k[1]))
    if k[0] == "SUM":
        return "SUM%s(%s)" % ("_" + k[1] if len(k) == 3 else "", show_row(k[-1]))
    if k[0] == "MULS":
        return "%s*%s" % (k[1], show_atom(k[2]))
    if k[0] == "IF":
        return "(%s if %s else %s)" % (show_lin(dict(k[2])), k[1], show_lin(dict(k[3])))
    return str(k)


def show_row(r):
    if r[0] in ("VALS", "VALID", "PARAM"):
        return "%s(%s)" % (r[0].lower(), r[1])
    if r[0] in ("AND", "MUL"):
        return "(%s %s %s)" % (show_row(r[1]), "&" if r[0] == "AND" else "*", show_row(r[2]))
    if r[0] == "NOT":
        return "~" + show_row(r[1])
    if r[0] in ("ZEROAT", "NANAT"):
        return "%s[%s:=%s]" % (show_row(r[1]), show_row(r[2]), "0" if r[0] == "ZEROAT" else "nan")
    return str(r)
