"""Rules over the aggregate models (engine A): sibling agreement, corner/cell consistency,
missingness predicate tables, report-format coherence, differencing typestate.
Shared by the checks C02, C03, C04 and C18."""
from . import terms as tm
from .terms import T
from . import aggr, aggmodel, kind as K, hints
from .aggmodel import Model, classify
from .algebra import show_lin, show_row, to_all, erase_R, Unknown
from .core import PROVED, VIOLATED, UNDECIDED
from .symex import Interp

SHARED = ("count", "valid_count", "sum", "mean")
XONLY = ("stddev", "quantile", "op_base", "corrcoef", "covariance")
RMAS = ("nan", "tuple", "zero")


class Collector:
    def __init__(self):
        self.items = []

    def add(self, rule, status, where, construct, detail="", witness=None):
        self.items.append((rule, status, where, construct, detail, witness))

    def ok(self, cond, rule, where, construct, okd="", badd="", witness=None):
        self.add(rule, PROVED if cond else VIOLATED, where, construct, okd if cond else badd, None if cond else witness)

    def tri(self, cond, rule, where, construct, okd="", badd="", witness=None):
        if cond is None:
            self.add(rule, UNDECIDED, where, construct, badd)
        else:
            self.ok(cond, rule, where, construct, okd, badd, witness)


def weight_modes(name):
    return ("none", "array", "scalar") if name == "count" else ("none", "array")


_cache = {}


def model(prog, module, clsname, cfg):
    key = (id(prog), module, clsname, cfg.key())
    if key not in _cache:
        _cache[key] = Model(prog, module, clsname, cfg)
    return _cache[key]


def has_unknown(lin):
    return any(isinstance(k, tuple) and k[0] == "UNKNOWN" for k in lin)


def unknown_text(lin):
    for k in lin:
        if isinstance(k, tuple) and k[0] == "UNKNOWN":
            return k[1]
    return ""


def scalarise(lin, cfg):
    """With a scalar weight, SUM over 'all rows' of the weight (or its validity) is that scalar itself,
    and (X if WVALID else 0) is WVALID*X."""
    if cfg.weights != "scalar":
        return lin
    out = {}

    def only_weights(r):
        if r[0] in ("VALS", "VALID"):
            return r[1] == "weights"
        if r[0] in ("ZEROAT", "NANAT"):
            return only_weights(r[1])
        if r[0] in ("AND", "MUL"):
            return all(only_weights(x) for x in r[1:])
        if r[0] == "NOT":
            return only_weights(r[1])
        return False

    def name(r):
        if r[0] == "VALID":
            return "WVALID"
        if r[0] == "VALS":
            return "W"
        if r[0] == "ZEROAT":
            return name(r[1])
        if r[0] == "NOT":
            return "NOT-" + name(r[1])
        return "W?"

    for k, v in lin.items():
        if isinstance(k, tuple) and k[0] == "SUM" and only_weights(k[-1]):
            k2 = ("SCALAR", name(k[-1]))
            out[k2] = out.get(k2, 0) + v
        elif isinstance(k, tuple) and k[0] == "IF" and k[1] in ("WVALID",):
            a, b = dict(k[2]), dict(k[3])
            for kk, vv in a.items():
                key = ("MULS", "WVALID", kk)
                out[key] = out.get(key, 0) + v * vv
            for kk, vv in b.items():
                key = ("MULS", "NOT-WVALID", kk)
                out[key] = out.get(key, 0) + v * vv
        else:
            out[k] = out.get(k, 0) + v
    # boolean scalar s:  (NOT s) * X  =  X - s * X
    out2 = {}
    for k, v in out.items():
        if isinstance(k, tuple) and k[0] == "MULS" and k[1] == "NOT-WVALID":
            out2[k[2]] = out2.get(k[2], 0) + v
            kk = ("MULS", "WVALID", k[2])
            out2[kk] = out2.get(kk, 0) - v
        elif isinstance(k, tuple) and k[0] == "SCALAR" and k[1] == "NOT-WVALID":
            out2[1] = out2.get(1, 0) + v
            kk = ("SCALAR", "WVALID")
            out2[kk] = out2.get(kk, 0) - v
        else:
            out2[k] = out2.get(k, 0) + v
    return {k: v for k, v in out2.items() if v != 0}


# ------------------------------------------------------------------------------ C03
def rule_ctor_agreement(prog, C):
    """R-C03-a: ffunc_X.__init__ and xfunc_X.__init__ derive the same row arrays."""
    for name in SHARED:
        for w in weight_modes(name):
            cfg = aggr.Config(weights=w)
            mf = model(prog, "ffuncs", "ffunc_" + name, cfg)
            mx = model(prog, "xfuncs", "xfunc_" + name, cfg)
            for field in ("validity", "summables", "countables", "weights"):
                if field not in mf.rows and field not in mx.rows:
                    continue
                a, b = mf.rows.get(field), mx.rows.get(field)
                cons = "%s: field %s, weights %s" % (name, field, w)
                where = "ffuncs:ffunc_%s.__init__ / xfuncs:xfunc_%s.__init__" % (name, name)
                if a is None or b is None:
                    if field == "validity" and w == "none" and name == "count":
                        continue
                    C.add("R-C03-a", UNDECIDED, where, cons, "field defined on one side only")
                    continue
                if a[0] == "UNKNOWN" or b[0] == "UNKNOWN":
                    if w == "none" and field in ("weights", "validity") and name == "count":
                        continue
                    C.add("R-C03-a", UNDECIDED, where, cons, "not normalised: %s / %s" % (a, b))
                    continue
                C.ok(a == b, "R-C03-a", where, cons, show_row(a), "index cube derives %s, array cube derives %s" % (show_row(a), show_row(b)),
                     witness={"inputs": "%s with weights=%s where the two definitions differ on a missing row" % (name, w)})


def rule_corner_cell(prog, C, rule, classes=None):
    """corner value of every ffunc region = the ALL-rows instance of its cell value."""
    n = 0
    for name in SHARED:
        if classes and name not in classes:
            continue
        for w in weight_modes(name):
            for ign in (False, True):
                for rma in (("nan", "zero") if name == "valid_count" else ("nan",)):
                    cfg = aggr.Config(weights=w, ignore=ign, rma=rma)
                    m = model(prog, "ffuncs", "ffunc_" + name, cfg)
                    where = "ffuncs:ffunc_%s.get_initial_regions / fill_func" % name
                    for p in range(m.npos or 0):
                        cons = "%s region %d, weights %s, %s" % (name, p, w, "ignore" if ign else "propagate")
                        corner = m.corner.get(p)
                        cells = m.cell.get(p, [])
                        if corner is not None and not cells and getattr(m, "fill", None):
                            # the grand total of this region is set, but the fill closure - read completely, without unknown
                            # values or unsupported statements - never stores into it under this configuration
                            _fi2, _I2, _fr2 = m.fill
                            complete = not any(ev.kind == "unsupported" or any(tm.contains(v, lambda x: x.op == "unknown") for v in _terms(ev)) for ev in _I2.events)
                            stores_other = [ev for ev in _I2.events if ev.kind == "store_sub" and ev["base"].op == "unpack" and ev["base"].args[0] == tm.param("regions") and ev["index"] == tm.param("x_coords")]
                            if complete and stores_other:
                                C.add(rule, VIOLATED, where, cons,
                                      "the corner (grand total) of this region is initialised, but under this configuration the fill closure never writes the region's cell (it writes %d other region cell(s)): every visited cell stays 0 and differencing puts the whole total into the common cell"
                                      % len(stores_other), {"inputs": "any cube under this weight / missing-value configuration"})
                                continue
                        if corner is None or not cells:
                            C.add(rule, UNDECIDED, where, cons, "corner or cell expression not found")
                            continue
                        for cell in cells:
                            n += 1
                            if has_unknown(corner) or has_unknown(cell):
                                C.add(rule, UNDECIDED, where, cons, "not normalised: %s" % (unknown_text(corner) or unknown_text(cell)))
                                continue
                            want = scalarise(to_all(cell), cfg)
                            got = scalarise(corner, cfg)
                            if cfg.weights == "scalar":
                                got = {(k if k != ("COUNT", "ALL") or True else k): v for k, v in got.items()}
                            C.ok(got == want, rule, where, cons, "corner = %s" % show_lin(got),
                                 "corner holds %s but the cells hold %s per cell: the reconstructed common cell (corner - sum of cells) is wrong" % (show_lin(got), show_lin(cell)),
                                 witness={"inputs": "ccube([iindex({(1,): [0]}, 0, (5,))]).count(weights=2.0) -> [nan, 2.] instead of [8., 2.]" if w == "scalar" else "a cube with a common category and this configuration"})
    return n


def rule_sibling_fill(prog, C, rule="R-C03-b"):
    """R-C03-b: every fill branch of xfunc_X stores the same reducer as ffunc_X's cell, per region."""
    n = 0
    for name in SHARED:
        for w in weight_modes(name):
            for ign in (False, True):
                for rma in (("nan", "zero") if name == "valid_count" else ("nan",)):
                    cf = aggr.Config(weights=w, ignore=ign, rma=rma)
                    mf = model(prog, "ffuncs", "ffunc_" + name, cf)
                    for nd, co in ((1, True), (2, True), (1, False), (2, False)):
                        if name == "count" and nd == 2:
                            continue
                        cx = aggr.Config(weights=w, ignore=ign, rma=rma, ndim=nd, coords=co, N=(not co))
                        mx = model(prog, "xfuncs", "xfunc_" + name, cx)
                        branch = ("no coordinates" if nd == 1 else "no coordinates, several columns") if not co else ("one column (bincount)" if nd == 1 else "several columns (bins)")
                        where = "xfuncs:xfunc_%s.fill" % name
                        if mf.npos != mx.npos:
                            C.add(rule, VIOLATED, where, "%s: number of regions, weights %s" % (name, w), "index cube keeps %s regions, array cube %s" % (mf.npos, mx.npos))
                            continue
                        for p in range(mf.npos or 0):
                            cons = "%s region %d, weights %s, %s, %s" % (name, p, w, "ignore" if ign else "propagate", branch)
                            fcells = mf.cell.get(p, [])
                            xcells = mx.cell.get(p, [])
                            if not fcells or not xcells:
                                C.add(rule, UNDECIDED, where, cons, "fill expression not found on one side")
                                continue
                            ref = scalarise(erase_R(fcells[0]), cf)
                            for xc in xcells:
                                n += 1
                                if has_unknown(xc) or has_unknown(ref):
                                    C.add(rule, UNDECIDED, where, cons, "not normalised: %s" % (unknown_text(xc) or unknown_text(ref)))
                                    continue
                                got = scalarise(erase_R(xc), cx)
                                wit = None
                                # which rows are reduced: the cell's rows when there are coordinates, all rows otherwise
                                want_R = "CELL" if co else "ALL"
                                rs = _row_ranges(xc)
                                if rs - {want_R}:
                                    C.add(rule, VIOLATED, where, cons + ": reduces the cell's own rows", "the stored value is reduced over %s rows where %s" % (
                                        "ALL" if "ALL" in rs - {want_R} else sorted(rs - {want_R})[0], "only the rows of the cell may take part (the row selection `[rowmask]` is missing)" if co else "all rows form the single cell"),
                                        {"inputs": "xcube over one dimension with two categories and %s: every cell holds the grand total" % branch})
                                    continue
                                if got != ref:
                                    wit = {"inputs": "xcube and ccube over the same data with %s, weights=%s" % (branch, w)}
                                    if name == "mean" and nd == 2:
                                        wit = {"inputs": "2 fact columns + weights, propagate, nothing missing: xcube all-NaN, ccube [[2,3],[6,7]]"}
                                    if name == "count" and w == "scalar" and not co:
                                        wit = {"inputs": "xcube([]).count(weights=2.0, N=5) -> 2 vs ccube([]) -> 10"}
                                C.ok(got == ref, rule, where, cons, show_lin(got),
                                     "array cube stores %s where the index cube stores %s" % (show_lin(got), show_lin(ref)), wit)
    return n


def _row_ranges(lin):
    """The row ranges (ALL / CELL) the reducers of a linear form run over."""
    out = set()

    def walk(k):
        if isinstance(k, tuple):
            if k and k[0] in ("SUM", "COUNT", "SIZE") and len(k) >= 2 and k[1] in ("ALL", "CELL"):
                out.add(k[1])
            for x in k:
                walk(x)
    for k in lin:
        walk(k)
    return out


# ------------------------------------------------------------------------------ C04
def expected_predicate(name, cfg):
    """Set of (atom kind, role) the missing-cell rule requires."""
    if name == "count" and cfg.weights == "none":
        return {("close0", "COUNT")}
    valid_role = "WEIGHTED-VALIDCOUNT" if (name == "mean" and cfg.weights != "none") else "VALIDCOUNT"
    if name == "valid_count" and cfg.rma == "zero":
        return None  # documented shortcut: missing and zero are reported alike
    atoms = {("eq0", valid_role)}
    if not cfg.ignore:
        atoms.add(("ne0", "MISSINGCOUNT"))
    if name == "stddev":
        atoms = {("lt2", "VALIDCOUNT")} | ({("ne0", "MISSINGCOUNT")} if not cfg.ignore else set())
    return atoms


def reduce_summary(m):
    """From a reduce run: (mask term used for the sentinel, returned values term, returned validity term or None)."""
    rets = m.returns
    if len(rets) != 1:
        return None
    r = rets[0]
    vals, validity = (r.args[0], r.args[1]) if (r.op == "tuple" and len(r.args) == 2) else (r, None)
    mask = None
    how = None
    if vals.op == "call" and (tm.callee_name(vals) or "") == ".adjust_zeros":
        mask = tm.kwarg(vals, "condition")
        if mask is None and len(vals.args[1]) > 2:
            mask = vals.args[1][2]
        new = tm.kwarg(vals, "new")
        if new is None and len(vals.args[1]) > 1:
            new = vals.args[1][1]
        how = ("adjust_zeros", new)
    else:
        for ev in m.mask_stores:
            if ev["base"] == vals or ev["base"] in tm.alts(vals):
                mask = ev["index"]
                how = ("store", ev["value"])
    return mask, vals, validity, how


def rule_predicates(prog, C, names, rule="R-C04-a", modules=("ffuncs", "xfuncs")):
    n = 0
    for module in modules:
        pre = "ffunc_" if module == "ffuncs" else "xfunc_"
        for name in names:
            if prog.modules[module].classes.get(pre + name) is None:
                continue
            for w in weight_modes(name):
                for ign in (False, True):
                    for rma in RMAS:
                        cfg = aggr.Config(weights=w, ignore=ign, rma=rma)
                        want = expected_predicate(name, cfg)
                        m = model(prog, module, pre + name, cfg)
                        where = "%s:%s%s.reduce" % (module, pre, name)
                        cons = "%s, weights %s, %s, return_missing_as %s" % (name, w, "ignore" if ign else "propagate", rma)
                        s = reduce_summary(m)
                        if want is None:
                            continue
                        if s is None or s[0] is None:
                            C.add(rule, UNDECIDED, where, cons, "cannot find the mask that selects missing cells")
                            continue
                        atoms = m.predicate(s[0])
                        if atoms is None:
                            C.add(rule, UNDECIDED, where, cons, "missing-cell mask not recognised: %s" % tm.show(s[0])[:80])
                            continue
                        got = set()
                        unk = False
                        for kind, pos, term in atoms:
                            role = scalar_role(m, pos) if cfg.weights == "scalar" else m.role(pos)
                            if role in ("?", "OTHER") or role.startswith("mixed"):
                                unk = True
                            got.add((kind, role))
                        n += 1
                        if unk:
                            C.add(rule, UNDECIDED, where, cons, "a counter's fill expression is not recognised")
                            continue
                        if cfg.weights == "scalar":
                            want = {(k, scalar_expected(r)) for k, r in want}
                        C.ok(got == want, rule, where, cons, " | ".join("%s(%s)" % a for a in sorted(got)),
                             "cells are reported missing when %s; the rule requires %s" % (" | ".join("%s(%s)" % a for a in sorted(got)) or "never", " | ".join("%s(%s)" % a for a in sorted(want))),
                             witness={"inputs": "a cell with exactly one valid row" if name == "stddev" else "a cell whose rows are all valid / partly missing under this policy"})
    return n


def scalar_role(m, pos):
    forms = m.cell.get(pos) or []
    roles = set()
    for f in forms:
        lin = scalarise(erase_R(f), m.cfg)
        ks = [k for k, v in lin.items() if v]
        if len(ks) == 1 and ks[0][0] == "MULS" and ks[0][2] == ("COUNT",):
            roles.add({"WVALID": "VALIDCOUNT", "W": "SUM"}.get(ks[0][1], "OTHER"))
        elif lin == {("COUNT",): 1, ("MULS", "WVALID", ("COUNT",)): -1}:
            roles.add("MISSINGCOUNT")
        else:
            roles.add(classify(lin))
    return roles.pop() if len(roles) == 1 else "OTHER"


def scalar_expected(r):
    return r


def rule_format_coherence(prog, C, module, clsname, label, rule="R-C04-b", cfgs=None):
    """tuple format: returned validity is the negation of the SAME mask that placed the sentinel; the sentinel is
    return_missing_as[0]; NaN / plain formats return the same values array."""
    n = 0
    for w in (("none", "array") if cfgs is None else cfgs):
        for ign in (False, True):
            summaries = {}
            for rma in RMAS:
                cfg = aggr.Config(weights=w, ignore=ign, rma=rma)
                try:
                    m = model(prog, module, clsname, cfg)
                except Exception as e:  # class without weights parameter etc.
                    continue
                summaries[rma] = (m, reduce_summary(m))
            where = "%s:%s.reduce" % (module, clsname)
            for rma, (m, s) in summaries.items():
                cons = "%s, weights %s, %s, return_missing_as %s" % (label, w, "ignore" if ign else "propagate", rma)
                if s is None:
                    C.add(rule, UNDECIDED, where, cons, "reduce has more than one return on a decided path")
                    continue
                mask, vals, validity, how = s
                n += 1
                if rma == "tuple":
                    if validity is None:
                        C.add(rule, VIOLATED, where, cons, "the pair format returns a single array", {"inputs": "return_missing_as=(0, False)"})
                        continue
                    nulls = (m.fields.get("null"), T("sub", tm.param("return_missing_as"), tm.const(0)), tm.param("return_missing_as"))
                    if validity.op == "cmp" and validity.args[0] in ("!=", "==") and any(a == vals for a in validity.args[1:]) and any(a in nulls for a in validity.args[1:]):
                        C.add(rule, VIOLATED, where, cons, "the validity is recomputed by comparing the RETURNED values (after the sentinel was written) with the sentinel: a sentinel that equals a real cell value "
                              "marks that cell missing, and a NaN sentinel compares unequal to itself so no cell is missing", {"inputs": "return_missing_as=(1, False): every cell whose value is 1 is reported missing; (nan, False): empty cells are reported valid"})
                        continue
                    if mask is None:
                        # no sentinel written at all
                        if label.startswith("valid_count") and False:
                            continue
                        C.add(rule, UNDECIDED, where, cons, "no sentinel store / adjust_zeros(condition=...) found for the returned values")
                        continue
                    neg = T("unop", "~", mask)
                    same = validity == neg or (mask.op == "unop" and mask.args[0] == "~" and mask.args[1] == validity)
                    if not same:
                        # compare as predicates over the same atoms
                        ma = m.predicate(mask)
                        va = m.negated(validity)
                        if validity == mask:
                            same = False
                        elif ma is None or va is None:
                            same = None
                        else:
                            same = {(k, p_) for k, p_, _t in ma} == {(k, p_) for k, p_, _t in va}
                    C.tri(same, rule, where, cons, "validity = ~(mask at which the sentinel is written)",
                          "the validity returned is %s but the sentinel is written where %s" % (tm.show(validity)[:70], tm.show(mask)[:70]),
                          witness={"inputs": "a cell that is missing by one test but not the other: value is the sentinel while validity says True"})
                    # sentinel value = return_missing_as[0]
                    sent = how[1] if how else None
                    okn = sent is not None and (sent == T("sub", tm.param("return_missing_as"), tm.const(0)) or sent == m.fields.get("null"))
                    C.ok(okn, rule, where, cons + " [sentinel]", "sentinel is return_missing_as[0]", "sentinel written is %s" % (sent and tm.show(sent)[:40]))
                else:
                    C.ok(validity is None, rule, where, cons, "a single array is returned", "a pair is returned although return_missing_as is not a pair")
            # NaN vs plain: same mask
            if "nan" in summaries and "tuple" in summaries and summaries["nan"][1] and summaries["tuple"][1]:
                a, b = summaries["nan"][1][0], summaries["tuple"][1][0]
                if a is not None and b is not None:
                    n += 1
                    C.ok(a == b, rule, where, "%s, weights %s, %s: NaN and pair formats mark the same cells" % (label, w, "ignore" if ign else "propagate"), "",
                         "NaN format marks %s, pair format marks %s" % (tm.show(a)[:60], tm.show(b)[:60]))
    return n


def rule_exact_tests(prog, C, rule="R-C04-c"):
    """R-C04-c (index cube only: regions are differenced): == 0 / != 0 only on integral counters, else via adjust_zeros(new=0)."""
    n = 0
    for name in SHARED:
        for w in weight_modes(name):
            for ign in (False, True):
                cfg = aggr.Config(weights=w, ignore=ign, rma="nan")
                m = model(prog, "ffuncs", "ffunc_" + name, cfg)
                s = reduce_summary(m)
                if s is None or s[0] is None:
                    continue
                atoms = m.predicate(s[0])
                if not atoms:
                    continue
                for kind, pos, term in atoms:
                    if kind not in ("eq0", "ne0"):
                        continue
                    n += 1
                    forms = m.cell.get(pos, [])
                    integral = bool(forms) and all(is_integral(scalarise(erase_R(f), cfg)) for f in forms)
                    adjusted = m.zero_adjusted(term)
                    cons = "%s region %d (%s), weights %s, %s" % (name, pos, m.role(pos), w, "ignore" if ign else "propagate")
                    if not (integral or adjusted) and (not forms or any(has_unknown(f) for f in forms)):
                        C.add(rule, UNDECIDED, "ffuncs:ffunc_%s.reduce" % name, cons, "the counter's fill expression is not normalised, so whether it is integral is not known")
                        continue
                    C.ok(integral or adjusted, rule, "ffuncs:ffunc_%s.reduce" % name, cons,
                         "integral counter" if integral else "snapped to zero by adjust_zeros(new=0) before the exact test",
                         "a weighted (floating-point) counter that went through marginal differencing is compared with 0 exactly",
                         witness={"inputs": "weights like 0.1, 0.2, 0.3 on a common cell: the differenced sum is 5.5e-17, not 0, so an empty cell is reported valid"})
    return n


def is_integral(lin):
    for k, v in lin.items():
        if v == 0:
            continue
        if isinstance(k, tuple) and k[0] in ("ACROSSCOLUMNS", "ALLCOLUMNS") and len(k) == 2:
            # the same terms reduced over another axis: integral exactly when they are
            try:
                if is_integral(dict(k[1])):
                    continue
            except Exception:
                pass
            return False
        if k == 1 or k == ("COUNT",):
            continue
        if isinstance(k, tuple) and k[0] == "SUM" and aggmodel.is_validity(k[-1]):
            continue
        if isinstance(k, tuple) and k[0] == "MULS" and k[1] in ("WVALID", "NOT-WVALID") and k[2] in (("COUNT",), 1):
            continue
        if isinstance(k, tuple) and k[0] == "SCALAR" and k[1] in ("WVALID", "NOT-WVALID"):
            continue
        return False
    return True


# ------------------------------------------------------------------------------ C02
def rule_difference_typestate(prog, C):
    """R-C02-a: every region is differenced exactly once, before it is trimmed / tested / returned."""
    n = 0
    for name in SHARED:
        for w in weight_modes(name):
            for ign in (False, True):
                for rma in RMAS:
                    cfg = aggr.Config(weights=w, ignore=ign, rma=rma)
                    m = model(prog, "ffuncs", "ffunc_" + name, cfg)
                    fi, I, fr = m.red
                    where = "ffuncs:ffunc_%s.reduce" % name
                    for p in range(m.npos or 0):
                        reg = T("unpack", tm.param("regions"), p, m.npos)
                        diffs = [ev for ev in m.diffs if ev["args"] and ev["args"][0] == reg]
                        trimmed = T("sub", reg, T("attr", tm.param("cube"), "marginless"))
                        # first event whose operands mention the trimmed region
                        # (a call's RESULT is not a use of its value; an inlined helper that differences and then trims
                        # produces the trimmed region as its result before - in event order - its own body runs)
                        uses = [ev for ev in I.events if any(tm.contains(v, lambda x: x == trimmed) for v in _terms(ev, skip=("result",)))]
                        used_in_result = any(tm.contains(r, lambda x: x == reg) for r in m.returns)
                        cons = "%s region %d, weights %s, %s, return_missing_as %s" % (name, p, w, "ignore" if ign else "propagate", rma)
                        n += 1
                        if not used_in_result and not uses:
                            C.add("R-C02-a", PROVED, where, cons, "region not used by this configuration's result")
                            continue
                        first_use = min([u.seq for u in uses]) if uses else None
                        ok = len(diffs) == 1 and (first_use is None or diffs[0].seq < first_use)
                        raw_use = any(tm.contains(r, lambda x: x == reg) and not tm.contains(r, lambda x: x == trimmed) for r in m.returns)
                        C.ok(ok and not raw_use, "R-C02-a", where, cons, "differenced once, then trimmed",
                             "the region is %s" % ("never differenced: its common cells stay 0" if not diffs else "differenced %d times" % len(diffs) if len(diffs) > 1 else
                                                   "trimmed / read before it is differenced" if not ok else "returned untrimmed"),
                             witness={"inputs": "any cube whose dimension has rows in the common category: those cells are wrong"})
    return n


def _terms(ev, skip=()):
    for k, v in ev.d.items():
        if k in skip:
            continue
        if isinstance(v, T):
            yield v
        elif isinstance(v, tuple):
            for x in v:
                if isinstance(x, T):
                    yield x
                elif isinstance(x, tuple):
                    for y in x:
                        if isinstance(y, T):
                            yield y


# ------------------------------------------------------------------------------ near-zero tolerance
def _fold_float(t):
    """Constant value of a tolerance expression, or None."""
    if t.op == "const" and isinstance(t.args[1], (int, float)) and not isinstance(t.args[1], bool):
        return float(t.args[1])
    if t.op == "attr" and t.args[1] in ("eps", "epsilon"):
        b = t.args[0]
        if b.op == "call" and (tm.callee_name(b) or "") == "numpy.finfo":
            a = b.args[1][0] if b.args[1] else None
            d = tm.dotted(a) if a is not None else "builtins.float"
            if d in ("builtins.float", "numpy.float64", "numpy.double", "numpy.float_"):
                return 2.220446049250313e-16
            if d in ("numpy.float32", "numpy.single"):
                return 1.1920929e-07
        if tm.dotted(b) in ("sys.float_info",):
            return 2.220446049250313e-16
    if t.op == "binop" and t.args[0] in ("*", "/", "+", "-", "**"):
        a, b = _fold_float(t.args[1]), _fold_float(t.args[2])
        if a is None or b is None:
            return None
        try:
            return {"*": a * b, "/": a / b, "+": a + b, "-": a - b, "**": a ** b}[t.args[0]]
        except (ZeroDivisionError, OverflowError):
            return None
    return None


def rule_zero_snap_tolerance(prog, C, rule):
    """Every `numpy.isclose(<counter>, 0)` that decides 'this differenced value is zero' uses NumPy's default
    absolute tolerance (1e-8), as the adjust_zeros docstring documents - not a narrower one."""
    from .symex import Interp
    n = 0
    for module, quals in (("ffuncs", ("ffunc.adjust_zeros", "ffunc_count.reduce")), ("xfuncs", ("xfunc.adjust_zeros", "xfunc_count.reduce"))):
        for q in quals:
            try:
                fi = prog.func(module, q)
            except KeyError:
                C.add(rule, UNDECIDED, "%s:%s" % (module, q), "near-zero test", "function not found (anchor vanished)")
                continue
            I = Interp(prog, hints.param_types_for(module), hints.FIELD_TYPES, inline=False)
            I.run(fi)
            calls = [e for e in I.events if e.kind == "call" and e["name"] in ("numpy.isclose", "numpy.allclose")]
            for e in calls:
                n += 1
                args = e["args"]
                where = "%s@%d" % (fi.fq, e.line)
                cons = "%s: near-zero test %s" % (q, e.src()[:50])
                if len(args) < 2 or not tm.is_const(args[1], 0):
                    C.add(rule, UNDECIDED, where, cons, "not a comparison with the constant 0")
                    continue
                kw = dict(e["kwargs"])
                atol = kw.get("atol", args[3] if len(args) > 3 else None)
                if atol is None:
                    C.add(rule, PROVED, where, cons, "NumPy's default absolute tolerance (1e-8), as documented")
                    continue
                v = _fold_float(atol)
                if v is None:
                    C.add(rule, UNDECIDED, where, cons, "absolute tolerance %s is not a constant the analysis can evaluate" % tm.show(atol)[:40])
                elif v < 1e-8:
                    C.add(rule, VIOLATED, where, cons,
                          "absolute tolerance %.3g is narrower than the documented isclose(arr, 0) (1e-8): the rounding residue of marginal differencing grows with the magnitude of the totals (about 1e-13 for weight totals near 1e3), so an empty common cell is no longer snapped to zero and is reported valid with a garbage mean - while the same category stored explicitly is reported missing" % v,
                          {"inputs": "ccube.mean with float weights over a few thousand rows, a dimension re-encoded so that its common value never occurs"})
                elif v == 1e-8:
                    C.add(rule, PROVED, where, cons, "absolute tolerance 1e-8 (the default, spelled out)")
                else:
                    C.add(rule, UNDECIDED, where, cons, "absolute tolerance %.3g is wider than documented; genuine small totals could be zeroed" % v)
    return n


# ------------------------------------------------------------------------------ region dtypes
WIDE = {"builtins.int", "builtins.float", "numpy.int64", "numpy.float64", "numpy.intp", "numpy.int_", "numpy.double", "numpy.longlong", "builtins.bool", "numpy.bool_", "builtins.complex"}
NARROW = {"numpy.int8", "numpy.int16", "numpy.int32", "numpy.uint8", "numpy.uint16", "numpy.uint32", "numpy.uint64", "numpy.uintp", "numpy.float16", "numpy.float32", "numpy.single", "numpy.half",
          "numpy.intc", "numpy.uintc", "numpy.short", "numpy.ushort", "numpy.byte", "numpy.ubyte", "numpy.uint"}


def rule_region_dtypes(prog, C, rule, classes=None):
    """Every region a cube aggregate allocates can hold a row count of any size and the negative / fractional
    intermediate values of marginal differencing: Python int / float (64-bit), or the fact array's own dtype."""
    n = 0
    for module, pre in (("ffuncs", "ffunc_"), ("xfuncs", "xfunc_")):
        m = prog.modules[module]
        for cname, ci in sorted(m.classes.items()):
            if not cname.startswith(pre) or (classes and cname[len(pre):] not in classes):
                continue
            fi = ci.methods.get("get_initial_regions")
            if fi is None or prog.is_abstract(fi) if hasattr(prog, "is_abstract") else fi is None:
                continue
            I = Interp(prog, hints.param_types_for(module), hints.FIELD_TYPES, inline=False)
            try:
                I.run(fi)
            except Exception:
                continue
            for e in I.events:
                if e.kind != "call" or e["name"] not in ("numpy.zeros", "numpy.full", "numpy.empty", "numpy.ones"):
                    continue
                dt = dict(e["kwargs"]).get("dtype")
                where = "%s@%d" % (fi.fq, e.line)
                cons = "%s: region allocated by %s" % (cname, e.src()[:60])
                n += 1
                if dt is None:
                    C.add(rule, PROVED, where, cons, "default dtype float64")
                    continue
                verdicts = []
                for a in tm.alts(dt):
                    d = tm.dotted(a)
                    if a.op == "call" and tm.callee_name(a) == "numpy.dtype" and a.args[1]:
                        d = tm.dotted(a.args[1][0])
                    if a.op == "const" and isinstance(a.args[1], str):
                        d = {"i8": "numpy.int64", "f8": "numpy.float64", "int64": "numpy.int64", "float64": "numpy.float64", "int": "builtins.int", "float": "builtins.float",
                             "i4": "numpy.int32", "u4": "numpy.uint32", "f4": "numpy.float32", "int32": "numpy.int32", "uint32": "numpy.uint32", "float32": "numpy.float32",
                             "u1": "numpy.uint8", "u2": "numpy.uint16", "i2": "numpy.int16", "u8": "numpy.uint64"}.get(a.args[1].lstrip("<=>|"))
                    if d in WIDE:
                        verdicts.append("wide")
                    elif d in NARROW:
                        verdicts.append(("narrow", d))
                    elif a.op == "attr" and a.args[1] == "dtype":
                        verdicts.append("wide")  # the fact array's own dtype
                    else:
                        verdicts.append(("unknown", tm.show(a)[:40]))
                nar = [v for v in verdicts if isinstance(v, tuple) and v[0] == "narrow"]
                unk = [v for v in verdicts if isinstance(v, tuple) and v[0] == "unknown"]
                if nar:
                    C.add(rule, VIOLATED, where, cons, "dtype %s cannot hold every row count (and an unsigned type cannot hold the negative intermediate values of marginal differencing): counts wrap silently" % nar[0][1],
                          {"inputs": "a cube over more rows than the type's maximum; or, for an unsigned type, any cube with a common category (corner - sum of cells is computed in place)"})
                elif unk:
                    C.add(rule, UNDECIDED, where, cons, "dtype %s not recognised" % unk[0][1])
                else:
                    C.add(rule, PROVED, where, cons, "64-bit int/float or the fact array's dtype")
    return n


def _mentions(lin, pred):
    def walk(x):
        if pred(x):
            return True
        if isinstance(x, (tuple, list)):
            return any(walk(y) for y in x)
        if isinstance(x, dict):
            return any(walk(k) for k in x)
        return False
    return walk(lin)


def _fold_cfg(t, cfg):
    """Truth of a dtype-choice condition under a configuration: `<weights> is [not] None`, `numpy.isnan(<null>)`,
    not / and / or; None when something else is tested."""
    if t.op == "not":
        v = _fold_cfg(t.args[0], cfg)
        return None if v is None else not v
    if t.op == "bool":
        vs = [_fold_cfg(x, cfg) for x in t.args[1:]]
        if t.args[0] == "and":
            return False if any(v is False for v in vs) else (None if any(v is None for v in vs) else True)
        return True if any(v is True for v in vs) else (None if any(v is None for v in vs) else False)
    if t.op == "cmp" and t.args[0] in ("is", "is not") and tm.NONE in t.args[1:]:
        other = t.args[1] if t.args[2] == tm.NONE else t.args[2]
        if (other.op == "param" and other.args[0] == "weights") or (other.op == "attr" and other.args[1] == "weights"):
            return (cfg.weights == "none") == (t.args[0] == "is")
        return None
    if t.op == "call" and tm.callee_name(t) in ("numpy.isnan", "math.isnan") and t.args[1]:
        a = t.args[1][0]
        if (a.op == "param" and a.args[0] == "return_missing_as") or (a.op == "attr" and a.args[1] in ("null", "return_missing_as")):
            return cfg.rma == "nan"
    return None


def _dtype_alts(dt, cfg):
    if dt.op == "ifexp":
        v = _fold_cfg(dt.args[0], cfg)
        if v is True:
            return _dtype_alts(dt.args[1], cfg)
        if v is False:
            return _dtype_alts(dt.args[2], cfg)
        return _dtype_alts(dt.args[1], cfg) + _dtype_alts(dt.args[2], cfg)
    return [dt]


INTS = {"builtins.int", "numpy.int64", "numpy.intp", "numpy.int_", "numpy.longlong", "builtins.bool", "numpy.bool_"} | {d for d in NARROW if "float" not in d and d not in ("numpy.single", "numpy.half")}
FLOATS = {"builtins.float", "numpy.float64", "numpy.double"}


def rule_region_kind(prog, C, rule, modules=("ffuncs", "xfuncs"), classes=None):
    """Per configuration, a region whose cells receive weight values (or a scalar weight times a count) is a float
    region, and one that receives fact values is a float region or has the summed array's own dtype: an integer region
    truncates every fractional weight / fact on the store (NumPy casts silently on `region[...] = value`)."""
    n = 0
    for module in modules:
        pre = "ffunc_" if module == "ffuncs" else "xfunc_"
        for name in SHARED:
            if classes and name not in classes:
                continue
            for w in weight_modes(name):
                for rma in (("nan", "tuple", "zero") if name in ("count", "valid_count") else ("nan", "tuple")):
                    for ign in (False, True):
                        cfg = aggr.Config(weights=w, rma=rma, ignore=ign)
                        m = model(prog, module, pre + name, cfg)
                        fi = m.gir[0]
                        for p, r in enumerate(getattr(m, "region_terms", None) or []):
                            cells = m.cell.get(p, [])
                            if not cells or r.op != "call":
                                continue
                            wv = any(_mentions(c, lambda x: x == ("VALS", "weights") or (isinstance(x, tuple) and len(x) == 3 and x[0] == "MULS" and x[1] == "W")) for c in cells)
                            fv = any(_mentions(c, lambda x: x == ("VALS", "arr")) for c in cells)
                            if not (wv or fv):
                                continue
                            n += 1
                            where = "%s:%s%s.get_initial_regions" % (module, pre, name)
                            cons = "%s region %d, weights %s, return_missing_as %s, %s: dtype can hold %s" % (name, p, w, rma, "ignore" if ign else "propagate", "fractional weights" if wv else "the fact values")
                            dt = tm.kwarg(r, "dtype")
                            if dt is None:
                                C.add(rule, PROVED, where, cons, "default dtype float64")
                                continue
                            bad, unk, shown = [], [], []
                            for a in _dtype_alts(dt, cfg):
                                d = tm.dotted(a)
                                if a.op == "const" and isinstance(a.args[1], str):
                                    d = "builtins.float" if a.args[1].lstrip("<=>|") in ("f8", "float64", "float", "d") else ("builtins.int" if a.args[1].lstrip("<=>|")[:1] in ("i", "u", "b") else None)
                                shown.append(d or tm.show(a)[:40])
                                if d in FLOATS:
                                    continue
                                if a.op == "attr" and a.args[1] == "dtype":
                                    # the dtype of a constructor array: wide when that array carries the FACT values (float64 / int64 by the
                                    # properties' quantifier, and promotion never narrows); an array built from the weights and validity
                                    # alone has the WEIGHTS' dtype, which may be uint8 or bool
                                    row = None
                                    for fname, ft in m.fields.items():
                                        if ft == a.args[0] and fname in m.rows:
                                            row = m.rows[fname]
                                    if row is None:
                                        try:
                                            row = m.alg.simplify_row(m.alg.row(a.args[0]))
                                        except Exception:
                                            row = None
                                    if row is None or (isinstance(row, tuple) and row and row[0] == "UNKNOWN"):
                                        unk.append(tm.show(a)[:40])
                                    elif _mentions(row, lambda x: x == ("VALS", "arr")):
                                        pass  # the summed array's own dtype
                                    elif wv:
                                        bad.append("the dtype of %s, an array made of the weights and validity only: it has the weights' own dtype (uint8 / bool weights wrap at 255 / 1)" % tm.show(a.args[0])[:30])
                                    else:
                                        bad.append("the dtype of %s, which does not carry the fact values" % tm.show(a.args[0])[:30])
                                    continue
                                if d in INTS:
                                    bad.append(d)
                                else:
                                    unk.append(tm.show(a)[:40])
                            if bad:
                                C.add(rule, VIOLATED, where, cons, "region allocated as %s while its cells receive %s: the value is cut off / wraps on the store" % (bad[0], "weight values" if wv else "fact values"),
                                      {"inputs": ("uint8 weights whose valid sum in one cell is 256: the cell's weighted valid count is 0 and the cell is reported missing" if "dtype of" in bad[0] else "weights [0.5, 0.5]: the cell holds 0 instead of 1.0") if wv else "facts [0.5, 0.25]: the cell holds 0"})
                            elif unk:
                                C.add(rule, UNDECIDED, where, cons, "dtype %s not recognised" % unk[0])
                            else:
                                C.add(rule, PROVED, where, cons, ", ".join(sorted(set(shown))))
    return n


# ------------------------------------------------------------------------------ a given weight is used
def rule_weights_used(prog, C, rule, modules=("ffuncs", "xfuncs"), classes=("valid_count", "sum", "mean")):
    """Whatever form a weight is given in (per-row array or bare scalar), the constructor's row arrays involve it: a scalar
    weight that is silently dropped ("a constant cancels out") loses its MISSINGNESS and its zero - a NaN or 0 scalar weight
    must make every cell of a mean / sum / valid count missing."""
    n = 0
    for module in modules:
        pre = "ffunc_" if module == "ffuncs" else "xfunc_"
        for name in classes:
            if prog.modules[module].classes.get(pre + name) is None:
                continue
            for scal in (False, True):
                cfg = aggr.Config(weights="array", scalar_w=scal)
                try:
                    m = model(prog, module, pre + name, cfg)
                except Exception as e:  # noqa
                    C.add(rule, UNDECIDED, "%s:%s%s.__init__" % (module, pre, name), "%s: weights given as %s" % (name, "a bare scalar" if scal else "an array"), "constructor not modelled: %s" % e)
                    continue
                n += 1
                where = "%s:%s%s.__init__" % (module, pre, name)
                cons = "%s: a weight given as %s takes part in the row arrays" % (name, "a bare scalar" if scal else "a per-row array")
                rows = [r for f, r in m.rows.items() if f in ("summables", "countables", "wsummables", "validity", "arr")]
                if any(isinstance(r, tuple) and r and r[0] == "UNKNOWN" for r in rows):
                    C.add(rule, UNDECIDED, where, cons, "a constructor field is not normalised")
                    continue
                used = any(_mentions(r, lambda x: x in (("VALS", "weights"), ("VALID", "weights"))) for r in rows)
                C.ok(used, rule, where, cons, "the weights reach summables / countables / validity",
                     "with %s the constructor takes the unweighted branch: the weight is never used, so its missingness (NaN, validity False) and a zero weight no longer make cells missing"
                     % ("numpy.isscalar(weights) true" if scal else "array weights"), witness={"inputs": "mean(arr, weights=float('nan')) or weights=0.0: every cell must be missing"})
    return n


# ------------------------------------------------------------------------------ layout of row arrays
def _layout(t, seen=None):
    """Axis layout of a constructor term for facts of shape (rows, columns) and per-row weights:
    'RC' (rows, columns), 'CR' (columns, rows), 'R' (rows,), 'S' scalar / unknown-but-harmless, or ('BAD', why), None = not understood."""
    if t.op == "unpack" and t.args[0].op == "call" and (tm.callee_name(t.args[0]) or "").endswith("as_separate_validity"):
        a = t.args[0].args[1]
        if a and a[0].op == "param":
            return "RC" if a[0].args[0] == "arr" else ("R" if a[0].args[0] == "weights" else None)
        return None
    if t.op == "param":
        return "RC" if t.args[0] == "arr" else ("R" if t.args[0] == "weights" else None)
    if t.op == "const":
        return "S"
    if t.op == "attr" and t.args[1] == "T":
        x = _layout(t.args[0])
        return {"RC": "CR", "CR": "RC", "R": "R", "S": "S"}.get(x, x)
    if t.op == "call":
        nm = tm.callee_name(t) or ""
        if nm in (".copy", ".astype", ".view") or nm in ("numpy.asarray", "numpy.array", "numpy.ascontiguousarray", "numpy.isnan", "numpy.logical_not", "numpy.abs"):
            return _layout(t.args[0].args[0] if nm.startswith(".") else t.args[1][0])
        if nm in ("numpy.all", "numpy.any", ".all", ".any") and tm.kwarg(t, "axis") is not None:
            return "R"  # a per-column validity reduced to complete rows (R-C18-c decides the axis)
        if nm == "numpy.transpose" and len(t.args[1]) == 1:
            x = _layout(t.args[1][0])
            return {"RC": "CR", "CR": "RC"}.get(x, x)
        if nm == ".transpose" and not t.args[1]:
            x = _layout(t.args[0].args[0])
            return {"RC": "CR", "CR": "RC"}.get(x, x)
        return None
    if t.op == "unop":
        return _layout(t.args[-1])
    if t.op == "binop" and t.args[0] in ("*", "&", "|", "+", "-", "/"):
        a, b = _layout(t.args[1]), _layout(t.args[2])
        for x in (a, b):
            if isinstance(x, tuple):
                return x
        if a is None or b is None:
            return None
        if "S" in (a, b):
            return b if a == "S" else a
        if a == b:
            return a
        if {a, b} == {"CR", "R"}:
            return "CR"  # (columns, rows) op (rows,): the per-row vector runs along the last axis
        if {a, b} == {"RC", "R"}:
            return ("BAD", "a (rows, columns) array is combined with a per-row vector without the transposes: NumPy aligns the vector with the COLUMNS axis")
        if {a, b} == {"RC", "CR"}:
            return ("BAD", "a (rows, columns) array is combined with a (columns, rows) one")
        return None
    if t.op == "ifexp":
        xs = [_layout(a) for a in t.args[1:]]
        for x in xs:
            if isinstance(x, tuple):
                return x
        xs = [x for x in xs if x != "S"]
        return xs[0] if xs and all(x == xs[0] for x in xs) else None
    if t.op == "phi":
        xs = [_layout(a) for a in t.args]
        for x in xs:
            if isinstance(x, tuple):
                return x
        return xs[0] if xs and all(x == xs[0] for x in xs) else None
    return None


def rule_row_layout(prog, C, rule, modules=("ffuncs", "xfuncs"), classes=None):
    """With several fact columns and a per-row weight vector, every constructor field that carries fact values or fact
    validity ends up as (rows, columns): the vector is broadcast through the `X.T op w` ... `.T` sandwich.  A missing
    transpose aligns the weights with the columns axis (ValueError for rows != columns, silently wrong for a square array)."""
    n = 0
    for module in modules:
        pre = "ffunc_" if module == "ffuncs" else "xfunc_"
        for cname, ci in sorted(prog.modules[module].classes.items()):
            name = cname[len(pre):]
            if not cname.startswith(pre) or (classes and name not in classes) or name in ("op_base", "min", "max", "count"):
                continue
            try:
                m = model(prog, module, cname, aggr.Config(weights="array"))
            except Exception:
                continue
            for fname in ("summables", "countables", "validity", "wsummables", "arr"):
                t = m.fields.get(fname)
                if t is None:
                    continue
                n += 1
                where = "%s:%s.__init__" % (module, cname)
                cons = "%s.%s with (rows, columns) facts and per-row weights is laid out (rows, columns)" % (cname, fname)
                lay = _layout(t)
                if isinstance(lay, tuple):
                    C.add(rule, VIOLATED, where, cons, lay[1], {"inputs": "facts of shape (4, 2) with weights of shape (4,): ValueError (operands could not be broadcast); facts (3, 3): silently wrong"})
                elif lay is None:
                    C.add(rule, UNDECIDED, where, cons, "layout of %s not inferred" % tm.show(t)[:60])
                elif lay in ("RC",):
                    C.add(rule, PROVED, where, cons, "transposes are paired")
                elif lay == "CR":
                    C.add(rule, VIOLATED, where, cons, "the field is left transposed (columns, rows): every later row selection addresses columns", {"inputs": "facts of shape (4, 2) with weights"})
                else:
                    C.add(rule, PROVED, where, cons, "per-row field")
    return n


# ------------------------------------------------------------------------------ vectorised increments
def rule_fancy_increment(prog, C, rule):
    """`region[<integer array>] += v` adds v once per DISTINCT index (NumPy buffers the read-modify-write);
    a per-row accumulation must use bincount / add.at.  Zero instances are expected."""
    n = 0
    hits = 0
    for module, pre, meths in (("xfuncs", "xfunc", ("fill", "_fill_one", "_fill_one_by_coordinates")), ("ffuncs", "ffunc", ("fill_func",))):
        m = prog.modules[module]
        for cname, ci in sorted(m.classes.items()):
            for mn in meths:
                fi = ci.methods.get(mn)
                if fi is None or getattr(fi, "node", None) is None:
                    continue
                I = Interp(prog, hints.param_types_for(module), hints.FIELD_TYPES, max_depth=3)
                try:
                    I.run(fi)
                except Exception:
                    continue
                n += 1
                for e in I.events:
                    if e.kind != "store_sub" or e["aug"] is None:
                        continue
                    idx = e["index"]
                    arrayish = tm.contains(idx, lambda x: x.op == "param" and x.args[0] in ("coordinates", "coords", "x_rowids", "rowids")) and not tm.contains(idx, lambda x: x.op == "cmp")
                    if arrayish and not (e["base"].op == "param" and e["base"].args[0] in ("tracing",)):
                        hits += 1
                        C.add(rule, VIOLATED, "%s@%d" % (fi.fq, e.line), "%s.%s: %s[%s] %s= ..." % (cname, mn, tm.show(e["base"])[:20], tm.show(idx)[:30], e["aug"]),
                              "an in-place operation through an integer-array index is applied once per distinct index: rows that share a cell are counted once",
                              {"inputs": "any cube in which two rows fall into the same cell"})
    if not hits:
        C.add(rule, PROVED, "ffuncs/xfuncs", "no in-place operation through an integer-array index in %d fill methods" % n, "accumulation uses bincount / per-cell stores")
    return n


# ------------------------------------------------------------------------------ flattened region views
def rule_flat_views(prog, C, rule):
    """xfunc.flat_regions hands the fill methods C-order reshape VIEWS of the regions it was given: what fill writes
    lands in the cube's own arrays, cell i of the flat view being cell i of the strided coordinates."""
    n = 0
    ci = prog.cls("xfuncs", "xfunc")
    fi = ci.methods.get("flat_regions")
    if fi is None:
        C.add(rule, UNDECIDED, "xfuncs:xfunc.flat_regions", "flattened views", "method not found (anchor vanished)")
        return 0
    I = Interp(prog, hints.param_types_for("xfuncs"), hints.FIELD_TYPES, inline=False)
    fr = I.run(fi)
    regions = tm.param(fi.params()[1])
    for v, g in fr.returns:
        for a in tm.alts(v):
            n += 1
            where = "%s" % fi.fq
            cons = "flat_regions returns %s" % tm.show(a)[:50]
            if not (a.op == "comp" and a.args[0] in ("list", "gen") and a.args[1].op == "call" and tm.callee_name(a.args[1]) == ".reshape"):
                C.add(rule, UNDECIDED, where, cons, "not a comprehension of part.reshape(...)")
                continue
            call = a.args[1]
            recv_ = call.args[0].args[0]
            is_part = recv_.op == "iter" and recv_.args[0] == regions
            order = dict(call.args[2]).get("order") if len(call.args) > 2 else None
            if not is_part:
                C.add(rule, UNDECIDED, where, cons, "the reshaped object is not an element of the regions argument")
            elif order is None or tm.is_const(order, "C"):
                C.add(rule, PROVED, where, cons, "C-order reshape of a block selected by integer indices on leading axes: a view, cell order = strided coordinate order")
            elif tm.is_const(order, "F"):
                C.add(rule, VIOLATED, where, cons, "a Fortran-order reshape of a C-contiguous block is a COPY laid out differently: what fill() writes never reaches the cube's regions (and cell i no longer matches strided coordinate i)",
                      {"inputs": "any xcube with at least one dimension: every aggregate comes back as its initial (missing) values"})
            else:
                C.add(rule, UNDECIDED, where, cons, "reshape order %s: cannot decide that the result is a view in cell order" % tm.show(order))
    return n


# ------------------------------------------------------------------------------ bins()
def rule_bins(prog, C, rule):
    """xfunc.bins(coordinates, size) presents EVERY cell u in range(size) with the mask of exactly its rows
    (coordinates == u); without a size, every distinct coordinate value u with the rows equal to it."""
    fi = prog.cls("xfuncs", "xfunc").methods.get("bins")
    if fi is None:
        C.add(rule, UNDECIDED, "xfuncs:xfunc.bins", "bins schema", "method not found (anchor vanished)")
        return 0
    I = Interp(prog, hints.param_types_for("xfuncs"), hints.FIELD_TYPES, inline=False)
    I.run(fi)
    coords, size = tm.param(fi.params()[0]), tm.param(fi.params()[1])
    ys = [e for e in I.events if e.kind == "yield" and not e.stack]
    if len(ys) != 2:
        C.add(rule, UNDECIDED, fi.fq, "bins schema", "expected two yields (with and without a size), found %d" % len(ys))
        return 0
    n = 0
    for e in ys:
        v = e["value"]
        sized = any(c.op == "cmp" and c.args[0] == "is" and not pol and size in c.args[1:] for c, pol in e.guards)
        where = "%s@%d" % (fi.fq, e.line)
        n += 1
        if v.op != "tuple" or len(v.args) != 2 or not e.loops:
            C.add(rule, UNDECIDED, where, "bins yields (cell, row mask)", "yields %s" % tm.show(v)[:60])
            continue
        u, mask = v.args
        it = I.loopinfo[e.loops[-1]].get("iter")
        if sized:
            full = it is not None and it.op == "call" and tm.callee_name(it) == "builtins.range" and it.args[1] == (size,)
            C.ok(full, rule, where, "bins (size given): every cell 0 .. size-1 is presented", "for u in range(size)",
                 "the loop runs over %s: cells outside it are never filled and keep their initial (missing) value" % (tm.show(it)[:40] if it is not None else "?"),
                 witness={"inputs": "any xcube aggregate that fills per cell (quantile, several fact columns, min/max): cell 0 stays missing"})
            okm = u.op == "iter" and mask.op == "cmp" and mask.args[0] == "==" and {mask.args[1], mask.args[2]} == {coords, u}
            C.ok(okm, rule, where, "bins (size given): the mask of cell u is coordinates == u", "", "mask is %s" % tm.show(mask)[:50],
                 witness={"inputs": "rows of other cells are aggregated into this one"})
        else:
            uq = it.args[1][0] if (it is not None and it.op == "call" and tm.callee_name(it) == "builtins.enumerate" and it.args[1]) else None
            oku = uq is not None and uq.op == "unpack" and uq.args[1] == 0 and uq.args[0].op == "call" and tm.callee_name(uq.args[0]) == "numpy.unique" \
                and uq.args[0].args[1] and uq.args[0].args[1][0] == coords and tm.kwarg(uq.args[0], "return_inverse") == tm.TRUE
            okv = oku and u.op == "iter" and u.args[0] == uq
            inv = T("unpack", uq.args[0], 1, 2) if oku else None
            okm = oku and mask.op == "cmp" and mask.args[0] == "==" and inv in mask.args[1:] and any(a.op == "enumidx" and a.args[0] == uq for a in mask.args[1:])
            C.ok(bool(okv and okm), rule, where, "bins (no size): yields each distinct value with the rows whose inverse index points at it", "(uniqs[i], row_indexes == i)",
                 "yields %s" % tm.show(v)[:80], witness={"inputs": "coordinates that are not 0..k-1: cells are labelled by position instead of by value"})
    return n


# ------------------------------------------------------------------------------ tracing twins
def rule_tracing_twins(prog, C, rule, classes=None):
    """The fill closures exist twice (with and without the timing diagnostics): both store the same cell values."""
    n = 0
    for name in SHARED:
        if classes and name not in classes:
            continue
        for w in weight_modes(name):
            for ign in (False, True):
                m0 = model(prog, "ffuncs", "ffunc_" + name, aggr.Config(weights=w, ignore=ign))
                m1 = model(prog, "ffuncs", "ffunc_" + name, aggr.Config(weights=w, ignore=ign, tracing=True))
                where = "ffuncs:ffunc_%s.fill_func" % name
                for p in range(m0.npos or 0):
                    n += 1
                    cons = "%s region %d, weights %s, %s: traced and untraced fill agree" % (name, p, w, "ignore" if ign else "propagate")
                    a, b = m0.cell.get(p, []), m1.cell.get(p, [])
                    if not a or not b or any(has_unknown(x) for x in a + b):
                        C.add(rule, UNDECIDED, where, cons, "fill expression not found / not normalised in one variant")
                        continue
                    fa = sorted(repr(sorted(scalarise(erase_R(x), aggr.Config(weights=w, ignore=ign)).items(), key=repr)) for x in a)
                    fb = sorted(repr(sorted(scalarise(erase_R(x), aggr.Config(weights=w, ignore=ign)).items(), key=repr)) for x in b)
                    C.ok(fa == fb, rule, where, cons, "same reducer", "with tracing switched on the cell holds %s, without it %s" % (show_lin(b[0]), show_lin(a[0])),
                         witness={"inputs": "the same cube computed with func.tracing set: different counts"})
    return n


def rule_every_cell_written(prog, C, rule):
    """Index-cube fill closures: every region store for the presented cell happens for EVERY presented cell.  The walk only
    presents combinations that have rows, and marginal differencing reconstructs a common cell as margin - sum(visited
    cells): a cell whose store is skipped on a data-dependent condition (no valid row, a zero weight sum) keeps its
    initial 0 while the margin still counts its rows - they are charged to the common cell.  Configuration tests (weights
    None, ignore_missing, tracing) are decided by the configuration oracle and never remain as guards."""
    n = 0
    for name in SHARED:
        for w in weight_modes(name):
            for ign in (False, True):
                cfg = aggr.Config(weights=w, ignore=ign, rma="nan")
                m = model(prog, "ffuncs", "ffunc_" + name, cfg)
                fill = getattr(m, "fill", None)
                if not fill:
                    continue
                fi2, I2, fr2 = fill
                for ev in I2.events:
                    if not (ev.kind == "store_sub" and ev["base"].op == "unpack" and ev["base"].args[0] == tm.param("regions") and ev["index"] == tm.param("x_coords")):
                        continue
                    n += 1
                    where = "%s@%d" % (ev.fi.fq, ev.line)
                    cons = "%s region %d, weights %s, %s: the cell is written for every presented combination" % (name, ev["base"].args[1], w, "ignore" if ign else "propagate")
                    data = [g for g in ev.guards if tm.contains(g[0], lambda x: x in (tm.param("x_rowids"), tm.param("x_coords")) or (x.op == "attr" and x.args[1] in ("validity", "summables", "countables", "weights", "arr")))]
                    other = [g for g in ev.guards if g not in data and not tm.contains(g[0], lambda x: x.op == "attr" and x.args[1] in ("tracing", "_tracing"))]
                    def operand_of(g):
                        c = g[0]
                        if c.op == "call" and (tm.callee_name(c) or "") in ("numpy.any", "numpy.count_nonzero", "builtins.len", ".any") and (c.args[1] or c.args[0].op == "attr"):
                            return c.args[1][0] if c.args[1] else c.args[0].args[0]
                        return c
                    counts_rows = tm.contains(ev["value"], lambda x: x.op == "call" and tm.callee_name(x) == "builtins.len" and x.args[1] and x.args[1][0] == tm.param("x_rowids"))
                    if data and all(g[1] is True and operand_of(g) == ev["value"] for g in data):
                        C.add(rule, PROVED, where, cons, "skipped only when the value to store is all zero: the region already holds zeros")
                    elif data and not counts_rows:
                        C.add(rule, UNDECIDED, where, cons, "the store is skipped depending on the rows of the cell (%s); whether the skipped value is always the region's initial value is not decided" % tm.show(data[0][0])[:60])
                    elif data:
                        C.add(rule, VIOLATED, where, cons,
                              "the store is skipped depending on the rows of the cell (%s): the skipped cell keeps its initial value while its rows are still in the margin, so marginal differencing adds them to the cell at the common category" % tm.show(data[0][0])[:60],
                              {"inputs": "ccube.sum, ignore_missing=False: an uncommon cell whose rows are all missing and a fully valid common cell on the same axis - the common cell is reported missing"})
                    elif other:
                        C.add(rule, UNDECIDED, where, cons, "the store is conditional on %s" % tm.show(other[0][0])[:60])
                    else:
                        C.add(rule, PROVED, where, cons, "unconditional in the fill closure")
    return n
