"""Row-id typestate (engine F, DESIGN 3.3 / 4 C07): for a value that is stored as an index
entry, derive  sorted&unique / non-empty / dtype / provenance  from the shape of its term,
the guards in force at the store and the few idioms the repository uses.

Assume-guarantee: arrays read from an existing index (self, other, a parameter documented
to be an index, an index built earlier in the same activation) are well-formed; every
value STORED must be shown well-formed again.
"""
from . import terms as tm
from .symex import flat_guards
from .terms import T

U32, I64, UNK = "uint32", "int64", "unknown"


class Facts:
    def __init__(self, su=False, nonempty=False, dtype=UNK, prov=None, why=None, assumed=None, maybe_none=False):
        self.su = su  # strictly increasing (sorted and unique)
        self.nonempty = nonempty
        self.dtype = dtype
        self.prov = prov or ("?",)  # provenance tag for range / exclusivity
        self.why = why or []
        self.assumed = assumed or []
        self.maybe_none = maybe_none
        self.sorted_only = False  # sorted, uniqueness promised by the caller (assume_unique)
        self.defect = None

    def copy(self, **kw):
        f = Facts(self.su, self.nonempty, self.dtype, self.prov, list(self.why), list(self.assumed), self.maybe_none)
        f.sorted_only, f.defect = self.sorted_only, self.defect
        for k, v in kw.items():
            setattr(f, k, v)
        return f

    def __repr__(self):
        return "<su=%s nonempty=%s dtype=%s prov=%s>" % (self.su, self.nonempty, self.dtype, self.prov)


def meet(fs):
    fs = [f for f in fs if f is not None]
    if not fs:
        return Facts()
    out = Facts(all(f.su for f in fs), all(f.nonempty for f in fs),
                fs[0].dtype if len({f.dtype for f in fs}) == 1 else UNK,
                fs[0].prov if len({f.prov for f in fs}) == 1 else ("mixed",) + tuple(sorted({(x,) for f in fs for x in _leaves(f.prov)}, key=str)),
                [w for f in fs for w in f.why], [a for f in fs for a in f.assumed], any(f.maybe_none for f in fs))
    out.sorted_only = any(f.sorted_only for f in fs) and all(f.su or f.sorted_only for f in fs)
    ds = [f.defect for f in fs if f.defect]
    out.defect = ds[0] if ds else None
    return out


def _leaves(p):
    if p[0] == "mixed":
        out = []
        for q in p[1:]:
            out += _leaves(q)
        return out
    return [p[0]]


def is_call(t, name):
    return t.op == "call" and tm.callee_name(t) == name


def method(t):
    nm = tm.callee_name(t) if t.op == "call" else None
    return nm[1:] if nm and nm.startswith(".") else None


def recv(t):
    return t.args[0].args[0]


class Analyzer:
    def __init__(self, I, root_fi, index_params=("self", "other"), assumed_params=()):
        self.I = I
        self.root = root_fi
        self.index_params = set(index_params)
        self.assumed_params = set(assumed_params)
        self.memo = {}
        self.active = set()

    # ---------------------------------------------------------------- index-ish objects
    def is_index(self, x):
        """x denotes a well-formed index by hypothesis."""
        for a in tm.alts(x):
            if a.op == "param" and a.args[0] in self.index_params:
                continue
            if a.op == "alloc" and a.args[0] == "obj:iindex":
                continue
            if a.op == "iter" and a.args[0].op == "param" and a.args[0].args[0] in ("iindexes",):
                continue
            if a.op == "super":
                continue
            if a.op == "call" and tm.callee_name(a) in (".copy", "iindexes:iindex.copy") and self.is_index(recv(a)):
                continue
            return False
        return True

    def is_rowid_dtype(self, d):
        if d is None:
            return False
        for a in tm.alts(d):
            if a.op == "attr" and a.args[1] in ("rowid_dtype", "ROWID_DTYPE"):
                continue
            if tm.dotted(a) == "numpy.uint32":
                continue
            if is_call(a, "numpy.dtype") and a.args[1] and tm.dotted(a.args[1][0]) == "numpy.uint32":
                continue
            return False
        return True

    # ---------------------------------------------------------------- guards
    def nonempty_by_guard(self, v, guards):
        """A guard in force says v (or an array of the same length) is non-empty."""
        same_len = self.same_length_terms(v)
        for c, pol in guards:
            if self._len_truth(c, pol, same_len):
                return True
        return False

    def same_length_terms(self, v):
        out = {v}
        cur = v
        for _ in range(6):
            m = method(cur)
            if m in ("astype", "copy"):
                cur = recv(cur)
                out.add(cur)
            elif is_call(cur, "numpy.asarray") or is_call(cur, "numpy.array"):
                cur = cur.args[1][0]
                out.add(cur)
            elif cur.op == "binop" and cur.args[0] in ("+", "-"):
                a, b = cur.args[1], cur.args[2]
                cur = a if self._scalar(b) else (b if self._scalar(a) else None)
                if cur is None:
                    break
                out.add(cur)
            else:
                break
        return out

    def _scalar(self, t):
        if t.op == "const":
            return True
        if t.op == "call" and t.args[0].op == "attr" and t.args[0].args[1] == "type":
            return True
        if t.op == "param" and t.args[0] in ("shift",):
            return True
        if t.op == "sub" and t.args[0].op == "attr" and t.args[0].args[1] == "shape":
            return True
        return False

    def _len_truth(self, c, pol, same):
        # len(x) truthy / len(x) > 0 / len(x) != 0 / not (len(x) == 0) / x.size
        def is_len(t):
            return (is_call(t, "builtins.len") and t.args[1][0] in same) or (t.op == "attr" and t.args[1] == "size" and t.args[0] in same)

        if is_len(c):
            return pol is True
        if c.op == "cmp":
            op, a, b = c.args
            if is_len(a) and tm.is_const(b, 0):
                if op in (">", "!=") and pol:
                    return True
                if op in ("==", "<=") and not pol:
                    return True
            if is_len(a) and tm.is_const(b, 1) and ((op == ">=" and pol) or (op == "<" and not pol)):
                return True
            if is_len(b) and tm.is_const(a, 0) and ((op in ("<", "!=") and pol) or (op in ("==", ">=") and not pol)):
                return True
        if c.op == "bool" and c.args[0] == "or" and pol is False:
            return any(self._len_truth(x, False, same) for x in c.args[1:])
        if c.op == "bool" and c.args[0] == "and" and pol is True:
            return any(self._len_truth(x, True, same) for x in c.args[1:])
        if c.op == "not":
            return self._len_truth(c.args[0], not pol, same)
        return False

    def any_guard(self, m, guards):
        """numpy.any(m) (or m.any()) holds."""
        for c, pol in flat_guards(guards):
            if pol and ((is_call(c, "numpy.any") and c.args[1][0] == m) or (method(c) == "any" and recv(c) == m)):
                return True
            if pol and is_call(c, "numpy.count_nonzero") and c.args[1][0] == m:
                return True
        return False

    def not_all_guard(self, m, guards):
        for c, pol in flat_guards(guards):
            if (not pol) and ((is_call(c, "numpy.all") and c.args[1][0] == m) or (method(c) == "all" and recv(c) == m)):
                return True
        return False

    # ---------------------------------------------------------------- value facts
    def facts(self, t, guards, depth=0):
        if depth > 30:
            return Facts(why=["depth"])
        key = (t, tuple(guards))
        if key in self.memo:
            return self.memo[key]
        if t in self.active:
            return None  # cycle: contributes nothing new (co-inductive assumption)
        self.active.add(t)
        try:
            f = self._facts(t, list(guards), depth + 1)
        finally:
            self.active.discard(t)
        if f is not None and not f.nonempty and t.op not in ("ifexp", "phi") and self.nonempty_by_guard(t, guards):
            f = f.copy(nonempty=True)
        self.memo[key] = f
        return f

    def _facts(self, t, guards, d):
        op = t.op
        if op == "ifexp":
            # a decision tree (nested conditional expressions, e.g. the merged returns of a helper): a None leaf is treated
            # like a None operand of a phi - dropped when a guard excludes None for the tree (or an enclosing subtree)
            parts = []

            def leaves(x, g, roots):
                if x.op == "ifexp":
                    c, a, b = x.args
                    yield from leaves(a, g + [(c, True)], roots + [x])
                    yield from leaves(b, g + [(c, False)], roots + [x])
                else:
                    yield x, g, roots
            may_none = False
            for x, g, roots in leaves(t, list(guards), []):
                if x == tm.NONE:
                    if not any(self._none_excluded(r, guards) for r in roots):
                        may_none = True
                    continue
                parts.append(self.facts(x, g, d))
            if not may_none:
                return meet(parts)
            # the facts describe the array when there is one; None is recorded separately
            f = meet(parts) if [p for p in parts if p is not None] else Facts(True, True, UNK, ("none",))
            return f.copy(maybe_none=True, why=f.why + ["may be None"])
        if op == "phi":
            parts = []
            for a in t.args:
                if a == tm.NONE:
                    if self._none_excluded(t, guards):
                        continue
                    parts.append(Facts(maybe_none=True, why=["may be None"]))
                    continue
                parts.append(self.facts(a, guards, d))
            return meet(parts)
        if op == "loopvar":
            be = self.I.backedge.get((t.args[0], t.args[1]))
            return self.facts(be, guards, d) if be is not None else Facts()
        if op == "const" and t.args[1] is None:
            return Facts(maybe_none=True)
        # ---- P1 inherited from a well-formed index
        if op in ("dval",) and self.is_index(t.args[0]):
            return Facts(True, True, U32, ("inherited", t.args[0]), ["entry of a well-formed index"])
        if op == "iter" and is_call(t.args[0], ".values") and self.is_index(recv(t.args[0])):
            return Facts(True, True, U32, ("inherited", recv(t.args[0])), ["entry of a well-formed index"])
        if op == "call" and method(t) == "get" and self.is_index(recv(t)):
            # common_rowids via force=True is not used by the stores analysed; plain get -> entry or default
            dflt = t.args[1][1] if len(t.args[1]) > 1 else tm.NONE
            f = Facts(True, True, U32, ("inherited", recv(t)), ["entry of a well-formed index (get)"])
            if dflt == tm.NONE:
                f.maybe_none = not self._none_excluded(t, guards)
            return f
        if op == "sub" and self.is_index(t.args[0]) and t.args[1].op != "slice":
            return Facts(True, True, U32, ("inherited", t.args[0]), ["entry of a well-formed index"])
        if op == "call" and method(t) == "get" and t.args[1]:
            from . import own

            els = own._elem_terms1(recv(t), own.OwnCtx(self.I))
            if els is not None:
                parts = [self.facts(e, guards, d) for e in els]
                parts = [p for p in parts if p is not None]
                f = meet(parts) if parts else Facts(True, True, U32, ("inherited", recv(t)), ["nothing stored yet"])
                f = f.copy(maybe_none=not self._none_excluded(t, guards))
                return f
        # values of a dict of entries built earlier in this activation
        if op in ("dval", "iter", "unpack", "sub") and not (op == "sub" and self._is_array_index(t)):
            els = self._container_elements(t)
            if els is not None:
                parts = [self.facts(e, guards, d) for e in els]
                parts = [p for p in parts if p is not None]
                if parts:
                    return meet(parts)
        # caller-supplied partial entries (documented precondition)
        if op in ("dval",) and t.args[0].op == "param" and t.args[0].args[0] in self.assumed_params:
            return Facts(True, False, UNK, ("assumed", t.args[0]), ["caller-supplied entries (may be empty: set_if exists to drop those)"], assumed=["row ids passed in '%s' are strictly increasing and within range (documented precondition)" % t.args[0].args[0]])
        if op == "param" and t.args[0] in self.assumed_params:
            return Facts(True, False, UNK, ("assumed", t), ["caller-supplied value"], assumed=["row ids passed in '%s' are strictly increasing and within range (documented precondition)" % t.args[0]])
        if op == "comp" and t.args[0] in ("list", "gen"):
            return Facts(why=["list"])
        # ---- rows mapped from an INDX file (saved from a well-formed index: C10/C11)
        if op == "sub" and t.args[1].op == "slice" and is_call(t.args[0], "numpy.ndarray") and tm.kwarg(t.args[0], "buffer") is not None:
            dt_ok = any(c.op == "cmp" and ((c.args[0] == "!=" and not pol) or (c.args[0] == "==" and pol)) and any(tm.dotted(x) == "numpy.uint32" for x in c.args[1:])
                        and any(x.op == "attr" and x.args[1] == "dtype" and x.args[0] == t for x in c.args[1:]) for c, pol in guards)
            return Facts(True, True, U32 if dt_ok else UNK, ("file",), ["slice [ptr:ptr+length] of the row-id block of an INDX file"],
                         assumed=["an INDX file being loaded was saved from a well-formed index (lengths >= 1, rows increasing)"])
        # ---- P2 generators
        if op == "sub" and tm.is_const(t.args[1], 0):
            b = t.args[0]
            if is_call(b, "numpy.where") and len(b.args[1]) == 1:
                return Facts(True, False, I64, ("where",), ["numpy.where(mask)[0] is strictly increasing"])
            if method(b) == "nonzero":
                return Facts(True, False, I64, ("nonzero",), ["mask.nonzero()[0] is strictly increasing"])
            if is_call(b, "numpy.nonzero"):
                return Facts(True, False, I64, ("nonzero",), ["numpy.nonzero(mask)[0] is strictly increasing"])
        if is_call(t, "numpy.arange"):
            dt = tm.kwarg(t, "dtype")
            return Facts(True, False, U32 if self.is_rowid_dtype(dt) else I64, ("arange",), ["arange is strictly increasing"])
        if is_call(t, "numpy.flatnonzero"):
            return Facts(True, False, I64, ("nonzero",), ["flatnonzero is strictly increasing"])
        if is_call(t, "numpy.unique") and len(t.args[1]) == 1:
            f = self.facts(t.args[1][0], guards, d) or Facts()
            return Facts(True, f.nonempty, f.dtype, f.prov, ["numpy.unique sorts and de-duplicates"])
        # ---- P3 wrappers
        m = method(t)
        if m == "astype" and t.args[1]:
            f = self.facts(recv(t), guards, d)
            if f is None:
                return None
            return f.copy(dtype=U32 if self.is_rowid_dtype(t.args[1][0]) else UNK)
        if m == "copy":
            return self.facts(recv(t), guards, d)
        if is_call(t, "numpy.asarray") or is_call(t, "numpy.array") or is_call(t, "numpy.ascontiguousarray"):
            src = t.args[1][0]
            dt = tm.kwarg(t, "dtype")
            if dt is None and len(t.args[1]) > 1:
                dt = t.args[1][1]
            f = self.facts(src, guards, d)
            lf = self._increasing_list(src)
            if lf is not None:
                f = lf
            if f is None:
                return None
            if dt is not None:
                f = f.copy(dtype=U32 if self.is_rowid_dtype(dt) else UNK)
            return f
        if m == "common_rowids" or is_call(t, "iindexes:iindex.common_rowids"):
            return Facts(True, False, U32, ("complement", recv(t) if m else None), ["complement of all entries"])
        # ---- P9 kernels
        nm = tm.callee_name(t) if op == "call" else None
        if nm in ("set_operations:union", "set_operations:intersection", "set_operations:difference",
                  "set_operations:set_union_merge_np", "set_operations:set_intersect_merge_np", "set_operations:set_difference_merge_np"):
            args = [self.facts(a, guards, d) for a in t.args[1][:2]]
            args = [a for a in args if a is not None]
            su = all(a.su or a.maybe_none for a in args)
            wrapper = nm.split(":")[1] in ("union", "intersection", "difference")
            if "union" in nm and any(a.nonempty for a in args):
                wrapper = True  # a union with a non-empty operand is non-empty
            return Facts(su, wrapper, U32, ("kernel", nm.split(":")[1]),
                         ["set kernel over strictly increasing operands (C08)"], [x for a in args for x in a.assumed], maybe_none=wrapper)
        # ---- P4 shift
        if op == "binop" and t.args[0] == "+":
            a, b = t.args[1], t.args[2]
            arr, sc = (a, b) if self._scalar(b) else ((b, a) if self._scalar(a) else (None, None))
            if arr is not None:
                f = self.facts(arr, guards, d)
                if f is None:
                    return None
                return f.copy(prov=("shifted", (f.prov[0],), sc), why=f.why + ["adding a scalar keeps the order"])
        # ---- P5/P6/P8 indexing
        if op == "sub":
            base, idx = t.args
            r = self._renumber(base, idx, guards, d)
            if r is not None:
                return r
            r = self._sort_dedup(base, idx, guards, d)
            if r is not None:
                return r
            if self._is_mask_index(idx):
                f = self.facts(base, guards, d)
                if f is None:
                    return None
                ne = self._mask_nonempty(idx, guards) and True
                return f.copy(nonempty=bool(ne), prov=("subset", f.prov[0]), why=f.why + ["boolean-mask selection keeps order and uniqueness"])
        # sorted in place (assume_unique path): concatenate + .sort()
        if is_call(t, "numpy.concatenate") and self._sorted_in_place(t) and self._sorted_in_place(t, guards) is None:
            return Facts(why=["a .sort() of the concatenation exists, but under a condition this path does not decide"])
        if is_call(t, "numpy.concatenate") and self._sorted_in_place(t, guards):
            parts = self._concat_parts(t)
            pf = [self.facts(p, guards, d) for p in parts] if parts else []
            ne = any(p is not None and p.nonempty for p in pf) if pf else self._list_of_nonempty(t, guards, d)
            f = Facts(False, ne, U32 if (not pf or all(p is None or p.dtype == U32 for p in pf)) else UNK, ("merged",),
                      ["concatenate + sort(): sorted; duplicates are not removed"])
            f.sorted_only = True
            return f
        if is_call(t, "numpy.concatenate") and not (self._concat_parts(t) and len(self._concat_parts(t)) == 2):
            f = Facts(False, self._list_of_nonempty(t, guards, d), U32, ("merged",), ["several row-id arrays are concatenated and never sorted"])
            f.defect = "unsorted-merge"
            return f
        # ---- P7 append / concatenate of two ordered parts
        if is_call(t, "numpy.append") or (is_call(t, "numpy.concatenate") and self._concat_parts(t) and len(self._concat_parts(t)) == 2):
            parts = list(t.args[1][:2]) if is_call(t, "numpy.append") else self._concat_parts(t)
            fa, fb = self.facts(parts[0], guards, d), self.facts(parts[1], guards, d)
            if fa is None or fb is None:
                return None
            ordered = self._below(fa, fb)
            return Facts(fa.su and fb.su and ordered, fa.nonempty or fb.nonempty,
                         U32 if fa.dtype == U32 and fb.dtype == U32 else UNK, ("append", fa.prov[0], fb.prov[0]),
                         ["append(a, b): every id of a is below the shift, every id of b at or above it" if ordered else "append(a, b) without a proof that max(a) < min(b)"],
                         fa.assumed + fb.assumed)
        if op == "alloc" and t.args[0] == "list":
            return Facts(why=["list"])
        return Facts(why=["unrecognised: %s" % tm.show(t)[:60]])

    # ------------------------------------------------------------- helper patterns
    def _none_excluded(self, t, guards):
        for c, pol in tm_flat(guards):
            if c.op == "cmp" and c.args[0] in ("is", "is not") and tm.NONE in c.args[1:]:
                x = c.args[1] if c.args[2] == tm.NONE else c.args[2]
                if x == t or t in tm.alts(x) or x in tm.alts(t):
                    if (c.args[0] == "is" and not pol) or (c.args[0] == "is not" and pol):
                        return True
        return False

    def _is_array_index(self, t):
        idx = t.args[1]
        return self._is_mask_index(idx) or idx.op == "slice"

    def _is_mask_index(self, idx):
        if idx.op == "unop" and idx.args[0] == "~":
            return True
        if idx.op in ("cmp",):
            return True
        if idx.op == "sub" and idx.args[1].op not in ("const", "slice"):
            return True  # mask[rowids]
        if idx.op == "alloc":
            return False
        if idx.op == "call" and tm.callee_name(idx) in ("numpy.empty", "numpy.ones", "numpy.zeros"):
            return True
        return False

    def _mask_nonempty(self, idx, guards):
        if idx.op == "unop" and idx.args[0] == "~":
            m = idx.args[1]
            return self.any_guard(m, guards) is not None and self.not_all_guard(m, guards)
        return self.any_guard(idx, guards)

    def _container_elements(self, t):
        """Values stored in the dict / list a value is read from (entries built in this activation)."""
        from . import own

        base = t.args[0]
        ctx = own.OwnCtx(self.I)
        # dval(X)/iter(X)/sub(X,k)/unpack(iter(items(X)),1,2)
        if t.op == "unpack":
            if t.args[1] != t.args[2] - 1:
                return None  # the key component
            inner = base
            if inner.op == "iter":
                inner = inner.args[0]
            els = own._elem_terms1(inner, ctx)
            return els
        if t.op == "sub" and t.args[1].op == "const":
            # element k of a list of arrays
            els = own._elem_terms1(base, ctx)
            if els is None and base.op in ("dval", "unpack", "iter"):
                outer = self._container_elements(base)
                if outer is None:
                    return None
                els = []
                for o in outer:
                    sub = own._elem_terms1(o, ctx)
                    if sub is None:
                        continue  # an array-valued alternative: indexing it would not yield an entry
                    els.extend(sub)
                if not els:
                    return None
            return els
        els = own._elem_terms1(base, ctx)
        return els

    def _increasing_list(self, src):
        """numpy.array(L): L is a Python list that only ever receives the running row index of an
        enumerate loop (so it is strictly increasing and non-empty once its key exists)."""
        cands = []
        if src.op in ("dval", "unpack", "iter"):
            base = src.args[0]
            if base.op == "iter":
                base = base.args[0]
            if is_call(base, ".items"):
                base = recv(base)
            cands = tm.alts(base)
        dd = [c for c in cands if is_call(c, "collections.defaultdict") and c.args[1] and tm.dotted(c.args[1][0]) == "builtins.list"]
        if not dd:
            return None
        # all .append calls on elements of that defaultdict append an enumerate index
        apps = [ev for ev in self.I.events if ev.kind == "call" and ev["method"] == "append" and ev["recv"] is not None
                and ev["recv"].op == "sub" and ev["recv"].args[0] in dd]
        if not apps:
            return None
        for ev in apps:
            a = ev["args"][0]
            if a.op != "enumidx" or a.args[1] not in ev.loops:
                return None
            # the enumerate loop must be the innermost loop of the append (row order)
            if ev.loops[-1] != a.args[1]:
                return None
        return Facts(True, True, UNK, ("rowscan",), ["list of the running row index of an enumerate loop: strictly increasing; a key exists only once a row was appended"])

    def _renumber(self, base, idx, guards, d):
        """new_rowids[rowids[mask[rowids]]] with new_rowids[mask] = arange(n): monotone renumbering."""
        if not (is_call(base, "numpy.empty") or is_call(base, "numpy.zeros") or is_call(base, "numpy.full")):
            return None
        stores = [ev for ev in self.I.events if ev.kind == "store_sub" and ev["base"] == base]
        if len(stores) != 1:
            return None
        st = stores[0]
        mask, val = st["index"], st["value"]
        if not is_call(val, "numpy.arange"):
            return None
        # idx = R[mask[R]] with R strictly increasing
        if idx.op == "sub" and idx.args[1].op == "sub" and idx.args[1].args[0] == mask and idx.args[1].args[1] == idx.args[0]:
            f = self.facts(idx.args[0], guards, d)
            if f is None or not f.su:
                return None
            ne = self.any_guard(idx.args[1], guards)
            dt = tm.kwarg(base, "dtype")
            return Facts(True, bool(ne), U32 if self.is_rowid_dtype(dt) else UNK, ("renumbered", val.args[1][0] if val.args[1] else None),
                         ["monotone renumbering: new ids are arange(n) scattered to the kept rows, read at an increasing subsequence of kept rows"])
        return None

    def _sorted_in_place(self, c, guards=None):
        """Is c.sort() executed on the path described by `guards`?  True / False / None (a sort exists, but under a condition
        the path says nothing about).  Without guards: is there any sort at all."""
        evs = [ev for ev in self.I.events if ev.kind == "call" and ev["method"] == "sort" and ev["recv"] == c and not ev["args"]]
        if guards is None or not evs:
            return bool(evs)
        have = set(flat_guards(guards))
        verdicts = []
        for ev in evs:
            v = True
            for cnd, pol in flat_guards(ev.guards):
                if (cnd, pol) in have:
                    continue
                if (cnd, not pol) in have:
                    v = False
                    break
                v = None
            verdicts.append(v)
        if any(v is True for v in verdicts):
            return True
        if all(v is False for v in verdicts):
            return False
        return None

    def _concat_parts(self, c):
        a = c.args[1][0] if c.args[1] else None
        if a is not None and a.op in ("tuple", "list"):
            return list(a.args)
        return None

    def _list_of_nonempty(self, c, guards, d):
        a = c.args[1][0] if c.args[1] else None
        if a is None:
            return False
        els = self._container_elements(T("iter", a, "?"))
        if els is None:
            # a list of lists of arrays: elements of the lists
            from . import own

            outer = own._elem_terms1(a, own.OwnCtx(self.I)) if a.op not in ("dval", "unpack") else self._container_elements(a)
            if outer is None:
                return False
            els = []
            for o in outer:
                sub = own._elem_terms1(o, own.OwnCtx(self.I))
                if sub is None:
                    continue  # an array where a list of arrays is expected: not a feasible alternative
                els.extend(sub)
        fs = [self.facts(e, guards, d) for e in els]
        fs = [f for f in fs if f is not None]
        return bool(fs) and all(f.nonempty for f in fs)

    def _sort_dedup(self, base, idx, guards, d):
        """C = concatenate(lists); C.sort(); M[:1] = True; M[1:] = C[1:] != C[:-1]; C[M]"""
        if not (is_call(base, "numpy.concatenate") and self._sorted_in_place(base, guards)):
            return None
        if not (is_call(idx, "numpy.empty") or is_call(idx, "numpy.ones")):
            return None
        stores = [ev for ev in self.I.events if ev.kind == "store_sub" and ev["base"] == idx]
        head = tail = False
        for st in stores:
            i, v = st["index"], st["value"]
            if i.op == "slice" and tm.is_const(i.args[1], 1) and i.args[0] == tm.NONE and v == tm.TRUE:
                head = True
            if i.op == "slice" and tm.is_const(i.args[0], 1) and i.args[1] == tm.NONE and v.op == "cmp" and v.args[0] == "!=":
                a, b = v.args[1], v.args[2]

                def sl(x, lo, hi):
                    return x.op == "sub" and x.args[0] == base and x.args[1].op == "slice" and x.args[1].args[0] == lo and x.args[1].args[1] == hi

                if (sl(a, tm.const(1), tm.NONE) and sl(b, tm.NONE, tm.const(-1))) or (sl(b, tm.const(1), tm.NONE) and sl(a, tm.NONE, tm.const(-1))):
                    tail = True
        if head and tail and len(stores) == 2:
            ne = self._list_of_nonempty(base, guards, d)
            return Facts(True, ne, U32, ("merged",), ["concatenate, sort(), keep elements that differ from their predecessor: strictly increasing"])
        return None

    def _below(self, fa, fb):
        """every element of a < every element of b: a inherited from X (ids < X.shape[0]), b shifted by X.shape[0]."""
        pa, pb = fa.prov, fb.prov
        if pa[0] == "inherited" and pb[0] == "shifted":
            x = pa[1]
            sc = pb[2]
            # shift = dtype.type(X.shape[0])  or X.shape[0]
            return tm.contains(sc, lambda y: y.op == "sub" and y.args[0].op == "attr" and y.args[0].args[1] == "shape" and y.args[0].args[0] in tm.alts(x) + [x] and tm.is_const(y.args[1], 0))
        return False


def tm_flat(guards):
    from .symex import flat_guards

    return flat_guards(guards)
