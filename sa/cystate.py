"""Buffer provenance of the compiled kernels (typed Cython tree): every memoryview a kernel WRITES is a view of an
array allocated inside the same call.  A buffer kept at module level (a `global`, a module-scope array, a default
argument) is shared by all callers - in particular by the pool tasks, which run the `nogil` merge loops concurrently -
and survives from one call to the next.  Used by C16 (R-C16-f) and C17 (R-C17-e)."""
from .cyfront import tname, children, walk, functions

FRESH_CALLS = {"empty", "zeros", "ones", "full", "array", "concatenate", "arange", "empty_like", "zeros_like", "copy", "astype", "cumsum"}


def _strip(n):
    while tname(n) in ("CoerceToMemViewSliceNode", "CoerceToTempNode", "CloneNode", "CoerceToPyTypeNode", "NoneCheckNode") and hasattr(n, "arg"):
        n = n.arg
    return n


def _is_fresh(n):
    n = _strip(n)
    if tname(n) in ("GeneralCallNode", "SimpleCallNode") and tname(n.function) == "AttributeNode" and n.function.attribute in FRESH_CALLS:
        return True
    if tname(n) in ("AddNode", "SubNode", "MulNode"):  # array arithmetic allocates
        return True
    if tname(n) == "SliceIndexNode":
        return False
    return False


def analyse(tree):
    """-> list of (status, where, construct, detail); status in PROVED / VIOLATED / UNDECIDED"""
    out = []
    for f in functions(tree):
        body = f.node.body
        globals_ = [g for g in walk(body) if tname(g) == "GlobalNode"]
        gnames = set()
        for g in globals_:
            gnames.update(getattr(g, "names", []) or [])
        written = {}
        for x in walk(body):
            if tname(x) in ("SingleAssignmentNode", "InPlaceAssignmentNode") and tname(x.lhs) == "MemoryViewIndexNode" and tname(x.lhs.base) == "NameNode":
                written.setdefault(x.lhs.base.name, x.pos[1])
        if not written and not globals_:
            continue
        where = "set_operations:%s" % f.name
        for g in globals_:
            out.append(("VIOLATED", "%s@%d" % (where, g.pos[1]), "kernel rebinds module-level name(s) %s" % sorted(getattr(g, "names", [])),
                        "a `global` statement in a kernel: state shared by every caller and every pool thread, and kept between calls"))
        # assignments in this function
        assigns = {}
        for x in walk(body):
            if tname(x) == "SingleAssignmentNode" and tname(x.lhs) == "NameNode":
                assigns.setdefault(x.lhs.name, []).append(x.rhs)
        local_names = set(assigns) | {a.name for a in f.node.args}
        for mv, line in sorted(written.items()):
            cons = "buffer written through %s" % mv
            srcs = assigns.get(mv, [])
            if not srcs:
                out.append(("UNDECIDED", "%s@%d" % (where, line), cons, "the memoryview is not assigned in this function"))
                continue
            verdict, why = "PROVED", []
            for rhs in srcs:
                src = _strip(rhs)
                if tname(src) == "NameNode":
                    nm = src.name
                    if nm in gnames or nm not in local_names:
                        verdict = "VIOLATED"
                        why.append("%s is a view of the module-level object %s" % (mv, nm))
                        continue
                    if any(a.name == nm for a in f.node.args):
                        verdict = "VIOLATED"
                        why.append("%s is a view of the caller's argument %s" % (mv, nm))
                        continue
                    inner = assigns.get(nm, [])
                    if inner and all(_is_fresh(r) for r in inner):
                        why.append("%s = view of %s, allocated in this call" % (mv, nm))
                    else:
                        bad = [r for r in inner if not _is_fresh(r)]
                        named = [_strip(r).name for r in bad if tname(_strip(r)) == "NameNode"]
                        if any(n2 in gnames or n2 not in local_names for n2 in named):
                            verdict = "VIOLATED"
                            why.append("%s = view of %s, which is (on some path) the module-level object %s" % (mv, nm, named))
                        elif verdict != "VIOLATED":
                            verdict = "UNDECIDED"
                            why.append("%s = view of %s whose origin is not a recognised allocation" % (mv, nm))
                elif _is_fresh(src):
                    why.append("%s = view of a fresh allocation" % mv)
                elif verdict != "VIOLATED":
                    verdict = "UNDECIDED"
                    why.append("origin of %s not recognised (%s)" % (mv, tname(src)))
            out.append((verdict, "%s@%d" % (where, line), cons, "; ".join(why)))
    return out
