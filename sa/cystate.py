"""Buffer provenance of the compiled kernels (typed Cython tree): every memoryview a kernel WRITES is a view of an
array allocated inside the same call.  A buffer kept at module level (a `global`, a module-scope array, a default
argument) is shared by all callers - in particular by the pool tasks, which run the `nogil` merge loops concurrently -
and survives from one call to the next.  Used by C16 (R-C16-f) and C17 (R-C17-e)."""
from .cyfront import tname, children, walk, functions, cfunctions

FRESH_CALLS = {"empty", "zeros", "ones", "full", "array", "concatenate", "arange", "empty_like", "zeros_like", "copy", "astype", "cumsum"}


def _strip(n):
    while tname(n) in ("CoerceToMemViewSliceNode", "CoerceToTempNode", "CloneNode", "CoerceToPyTypeNode", "NoneCheckNode") and hasattr(n, "arg"):
        n = n.arg
    return n


def _is_fresh(n):
    n = _strip(n)
    if tname(n) in ("GeneralCallNode", "SimpleCallNode") and tname(n.function) == "AttributeNode" and n.function.attribute in FRESH_CALLS:
        return True
    if tname(n) in ("AddNode", "SubNode", "MulNode"):  # array arithmetic allocates
        return True
    if tname(n) == "SliceIndexNode":
        return False
    return False


def _call_name(n):
    n = _strip(n)
    if tname(n) in ("SimpleCallNode", "GeneralCallNode") and tname(n.function) == "NameNode":
        return n.function.name
    return None


def helper_summaries(tree):
    """name -> ('global', module-level name) | ('fresh',) | ('unknown',) for every function of the module: what the value a
    helper RETURNS is a view of.  A helper that hands out a module-level array (a grow-on-demand workspace) shares it with
    every caller."""
    nodes = [(f.name, f.node) for f in functions(tree)] + cfunctions(tree)
    out = {}
    for name, node in nodes:
        body = node.body
        gl = set()
        for g in walk(body):
            if tname(g) == "GlobalNode":
                gl.update(getattr(g, "names", []) or [])
        assigned = {}
        for x in walk(body):
            if tname(x) == "SingleAssignmentNode" and tname(x.lhs) == "NameNode":
                assigned.setdefault(x.lhs.name, []).append(x.rhs)
        args = set()
        for a in getattr(node, "args", None) or []:
            nm = getattr(a, "name", None)
            if nm is None:
                d = getattr(a, "declarator", None)
                while d is not None and not hasattr(d, "name"):
                    d = getattr(d, "base", None)
                nm = getattr(d, "name", None)
            if nm:
                args.add(str(nm))
        kinds = set()
        for r in walk(body):
            if tname(r) != "ReturnStatNode" or r.value is None:
                continue
            v = _strip(r.value)
            while tname(v) == "SliceIndexNode":
                v = _strip(v.base)
            if tname(v) == "NameNode":
                if v.name in gl or (v.name not in assigned and v.name not in args):
                    kinds.add(("global", v.name))
                elif all(_is_fresh(x) for x in assigned.get(v.name, [])) and assigned.get(v.name):
                    kinds.add(("fresh",))
                else:
                    kinds.add(("unknown",))
            elif _is_fresh(v):
                kinds.add(("fresh",))
            else:
                kinds.add(("unknown",))
        g = [k for k in kinds if k[0] == "global"]
        out[name] = g[0] if g else (("fresh",) if kinds == {("fresh",)} else ("unknown",))
    return out


def analyse(tree):
    """-> list of (status, where, construct, detail); status in PROVED / VIOLATED / UNDECIDED"""
    out = []
    helpers = helper_summaries(tree)
    # a `global` statement in a cdef helper is the same shared state, one call away
    for name, node in cfunctions(tree):
        for g in walk(node.body):
            if tname(g) == "GlobalNode":
                out.append(("VIOLATED", "set_operations:%s@%d" % (name, g.pos[1]), "cdef helper rebinds module-level name(s) %s" % sorted(getattr(g, "names", [])),
                            "a `global` statement in a helper of the kernels: state shared by every caller and every pool thread, and kept between calls"))
    for f in functions(tree):
        body = f.node.body
        globals_ = [g for g in walk(body) if tname(g) == "GlobalNode"]
        gnames = set()
        for g in globals_:
            gnames.update(getattr(g, "names", []) or [])
        written = {}
        for x in walk(body):
            if tname(x) in ("SingleAssignmentNode", "InPlaceAssignmentNode") and tname(x.lhs) == "MemoryViewIndexNode" and tname(x.lhs.base) == "NameNode":
                written.setdefault(x.lhs.base.name, x.pos[1])
        if not written and not globals_:
            continue
        where = "set_operations:%s" % f.name
        for g in globals_:
            out.append(("VIOLATED", "%s@%d" % (where, g.pos[1]), "kernel rebinds module-level name(s) %s" % sorted(getattr(g, "names", [])),
                        "a `global` statement in a kernel: state shared by every caller and every pool thread, and kept between calls"))
        # assignments in this function
        assigns = {}
        for x in walk(body):
            if tname(x) == "SingleAssignmentNode" and tname(x.lhs) == "NameNode":
                assigns.setdefault(x.lhs.name, []).append(x.rhs)
        local_names = set(assigns) | {a.name for a in f.node.args}
        for mv, line in sorted(written.items()):
            cons = "buffer written through %s" % mv
            srcs = assigns.get(mv, [])
            if not srcs:
                out.append(("UNDECIDED", "%s@%d" % (where, line), cons, "the memoryview is not assigned in this function"))
                continue
            verdict, why = "PROVED", []
            for rhs in srcs:
                src = _strip(rhs)
                if tname(src) == "NameNode":
                    nm = src.name
                    if nm in gnames or nm not in local_names:
                        verdict = "VIOLATED"
                        why.append("%s is a view of the module-level object %s" % (mv, nm))
                        continue
                    if any(a.name == nm for a in f.node.args):
                        verdict = "VIOLATED"
                        why.append("%s is a view of the caller's argument %s" % (mv, nm))
                        continue
                    inner = assigns.get(nm, [])
                    via = [(_call_name(r), helpers.get(_call_name(r))) for r in inner if _call_name(r) in helpers]
                    shared = [(h, k[1]) for h, k in via if k and k[0] == "global"]
                    if shared:
                        verdict = "VIOLATED"
                        why.append("%s = view of %s, obtained from %s(), which hands out the module-level object %s: every caller (and every pool thread, the merge loops run without the GIL) fills the same buffer"
                                   % (mv, nm, shared[0][0], shared[0][1]))
                        continue
                    if inner and all(_is_fresh(r) or (helpers.get(_call_name(r)) == ("fresh",)) for r in inner):
                        why.append("%s = view of %s, allocated in this call" % (mv, nm))
                    else:
                        bad = [r for r in inner if not _is_fresh(r)]
                        named = [_strip(r).name for r in bad if tname(_strip(r)) == "NameNode"]
                        if any(n2 in gnames or n2 not in local_names for n2 in named):
                            verdict = "VIOLATED"
                            why.append("%s = view of %s, which is (on some path) the module-level object %s" % (mv, nm, named))
                        elif verdict != "VIOLATED":
                            verdict = "UNDECIDED"
                            why.append("%s = view of %s whose origin is not a recognised allocation" % (mv, nm))
                elif _is_fresh(src):
                    why.append("%s = view of a fresh allocation" % mv)
                elif verdict != "VIOLATED":
                    verdict = "UNDECIDED"
                    why.append("origin of %s not recognised (%s)" % (mv, tname(src)))
            out.append((verdict, "%s@%d" % (where, line), cons, "; ".join(why)))
    return out


def aliased_views(tree):
    """Typed memoryviews of one function that are views of the SAME local array, at least one of them written: a store
    through one changes what the other reads, which no per-view bounds argument accounts for (cursor tables taken as
    offsets[:-1] / offsets[1:] of one prefix-sum array: advancing cursor i+1 raises limit i).
    -> [(status, where, construct, detail)]; nothing is reported for functions without such a pair."""
    out = []
    for f in functions(tree):
        body = f.node.body
        views = {}   # memoryview local -> (base name, slice text, line)
        for x in walk(body):
            if tname(x) == "SingleAssignmentNode" and tname(x.lhs) == "NameNode" and str(getattr(x.lhs, "type", "")).endswith(("[:]", "[::1]")):
                src = _strip(x.rhs)
                sl = None
                if tname(src) == "SliceIndexNode":
                    def txt(n):
                        n = _strip(n) if n is not None else None
                        if n is None:
                            return ""
                        if tname(n) == "IntNode":
                            return str(n.value)
                        if tname(n) == "UnaryMinusNode" and tname(_strip(n.operand)) == "IntNode":
                            return "-" + str(_strip(n.operand).value)
                        return "?"
                    sl = "[%s:%s]" % (txt(src.start), txt(src.stop))
                    src = _strip(src.base)
                if tname(src) == "NameNode":
                    views[x.lhs.name] = (src.name, sl or "", x.pos[1])
        written = set()
        for x in walk(body):
            if tname(x) in ("SingleAssignmentNode", "InPlaceAssignmentNode") and tname(x.lhs) == "MemoryViewIndexNode" and tname(x.lhs.base) == "NameNode":
                written.add(x.lhs.base.name)
        by_base = {}
        for v, (b, sl, ln) in views.items():
            by_base.setdefault(b, []).append((v, sl, ln))
        for b, vs in sorted(by_base.items()):
            if len(vs) < 2 or not any(v in written for v, _, _ in vs):
                continue
            w = [v for v, _, _ in vs if v in written]
            desc = ", ".join("%s = %s%s" % (v, b, sl) for v, sl, _ in sorted(vs))

            def open_ended(sl):
                """[c:] / [c:-k] / [:] / whole array: start a small constant, stop = len - k: any two such slices share
                elements once the array is long enough"""
                if sl == "":
                    return True
                a, _, e = sl[1:-1].partition(":")
                return (a == "" or a.isdigit()) and (e == "" or (e.startswith("-") and e[1:].isdigit()))
            if not all(open_ended(sl) for _, sl, _ in vs):
                out.append(("UNDECIDED", "set_operations:%s@%d" % (f.name, min(ln for _, _, ln in vs)), "memoryviews over one array: %s" % desc,
                            "views of the same array `%s`, %s written: whether the slices overlap is not decided (non-constant bounds)" % (b, ", ".join(sorted(w)))))
                continue
            out.append(("VIOLATED", "set_operations:%s@%d" % (f.name, min(ln for _, _, ln in vs)), "memoryviews over one array: %s" % desc,
                        "%s is written through while another view of the same array `%s` is read: the slices overlap (for two or more elements), so a store changes the other view's elements - "
                        "bounds taken from it (limits, lengths) move while the loop runs" % (", ".join(sorted(w)), b)))
    return out
