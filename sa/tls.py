"""Thread-local state on the cubes' evaluation path (C16 R-C16-g, C20 R-C20-e).

The cubes dispatch their sub-cube tasks to a ThreadPool.  A `threading.local()` object has one attribute namespace PER
THREAD: whatever the importing / calling thread stored in it does not exist in a pool worker.  So

  * an attribute of a module-level threading.local() that is assigned only at import time (module level) and read inside
    a function raises AttributeError in every worker thread (or silently yields the getattr default);
  * an instance attribute exposed through a property whose getter reads a per-instance threading.local() returns the
    default (None) in every worker thread, whatever the caller's thread has set.

Pure AST scan of the four evaluation modules; nothing is executed."""
import ast

MODULES = ("ccubes", "xcubes", "ffuncs", "xfuncs")


def _is_tls_ctor(v):
    return isinstance(v, ast.Call) and ((isinstance(v.func, ast.Attribute) and v.func.attr == "local" and isinstance(v.func.value, ast.Name) and v.func.value.id == "threading")
                                        or (isinstance(v.func, ast.Name) and v.func.id == "local"))


def scan(prog):
    """-> (findings, inventory): findings = [(kind, where, construct, detail)] with kind 'module-attr' | 'property';
    inventory = number of threading.local objects seen (0 on the unchanged tree)."""
    findings, inventory = [], 0
    for mname in MODULES:
        mod = prog.modules.get(mname)
        if mod is None:
            continue
        tree = mod.tree
        # ---- module-level thread-locals
        tls = set()
        for st in tree.body:
            if isinstance(st, ast.Assign) and _is_tls_ctor(st.value):
                tls.update(t.id for t in st.targets if isinstance(t, ast.Name))
        inventory += len(tls)
        if tls:
            top_set, fn_set, fn_get = {}, {}, {}
            for st in tree.body:
                if isinstance(st, (ast.FunctionDef, ast.ClassDef)):
                    continue
                for x in ast.walk(st):
                    if isinstance(x, ast.Attribute) and isinstance(x.ctx, ast.Store) and isinstance(x.value, ast.Name) and x.value.id in tls:
                        top_set.setdefault((x.value.id, x.attr), x.lineno)
            for fn in [x for x in ast.walk(tree) if isinstance(x, (ast.FunctionDef, ast.Lambda))]:
                for x in ast.walk(fn):
                    if isinstance(x, ast.Attribute) and isinstance(x.value, ast.Name) and x.value.id in tls:
                        (fn_set if isinstance(x.ctx, ast.Store) else fn_get).setdefault((x.value.id, x.attr), []).append((getattr(fn, "name", "<lambda>"), x.lineno))
                    if isinstance(x, ast.Call) and isinstance(x.func, ast.Name) and x.func.id in ("setattr",) and x.args and isinstance(x.args[0], ast.Name) and x.args[0].id in tls:
                        fn_set.setdefault((x.args[0].id, "*"), []).append((getattr(fn, "name", "?"), x.lineno))
            # a function whose FIRST access to obj.attr (in source order) is a read: no assignment of this call precedes it,
            # so the first call made on a fresh thread reads an attribute that thread never set
            first_read = {}
            for fn in [x for x in ast.walk(tree) if isinstance(x, ast.FunctionDef)]:
                protected = set()
                for t in ast.walk(fn):
                    if isinstance(t, ast.Try) and any(h.type is None or any(isinstance(n, ast.Name) and n.id in ("AttributeError", "Exception", "BaseException") for n in ast.walk(h.type)) for h in t.handlers):
                        protected.update(id(x) for b in t.body for x in ast.walk(b))
                occ = sorted([x for x in ast.walk(fn) if isinstance(x, ast.Attribute) and isinstance(x.value, ast.Name) and x.value.id in tls], key=lambda x: (x.lineno, x.col_offset))
                seen = set()
                for x in occ:
                    k2 = (x.value.id, x.attr)
                    if k2 in seen:
                        continue
                    seen.add(k2)
                    if isinstance(x.ctx, ast.Load) and id(x) not in protected:
                        first_read.setdefault(k2, (fn.name, x.lineno))
            for key, reads in sorted(fn_get.items()):
                obj, attr = key
                if key in first_read and (key in fn_set or (obj, "*") in fn_set):
                    fnm, ln = first_read[key]
                    findings.append(("module-attr", "%s:%s@%d" % (mname, fnm, ln), "%s.%s is read in a function" % key,
                                     "%s is a module-level threading.local(); %s() reads .%s before anything in that call assigns it, and outside functions it is assigned only at import time%s - i.e. in the importing thread: "
                                     "the first call on a pool worker thread raises AttributeError" % (obj, fnm, attr, " (line %d)" % top_set[key] if key in top_set else "")))
                elif key in fn_set or (obj, "*") in fn_set:
                    findings.append(("undecided", "%s:%s@%d" % (mname, reads[0][0], reads[0][1]), "%s.%s is read in a function" % key,
                                     "a thread-local attribute that is also assigned inside functions: whether every thread assigns it before reading it is not decided"))
                elif key in top_set:
                    findings.append(("module-attr", "%s:%s@%d" % (mname, reads[0][0], reads[0][1]), "%s.%s is read in a function" % key,
                                     "%s is a module-level threading.local() and .%s is assigned only at import time (line %d), i.e. in the importing thread: in a pool worker thread the attribute does not exist and the read raises AttributeError"
                                     % (obj, attr, top_set[key])))
                else:
                    findings.append(("module-attr", "%s:%s@%d" % (mname, reads[0][0], reads[0][1]), "%s.%s is read in a function" % key,
                                     "%s is a module-level threading.local() and .%s is never assigned: the read raises AttributeError" % (obj, attr)))
        # ---- per-instance thread-locals behind a property
        for cname, cls in mod.classes.items():
            inst = set()
            for x in ast.walk(cls.node):
                if isinstance(x, ast.Assign) and _is_tls_ctor(x.value):
                    for t in x.targets:
                        if isinstance(t, ast.Attribute) and isinstance(t.value, ast.Name) and t.value.id == "self":
                            inst.add(t.attr)
            inventory += len(inst)
            if not inst:
                continue
            for sub in cls.node.body:
                if isinstance(sub, ast.FunctionDef) and any((isinstance(d, ast.Name) and d.id == "property") or (isinstance(d, ast.Attribute) and d.attr in ("getter",)) or
                                                            (isinstance(d, ast.Name) and d.id == "cached_property") for d in sub.decorator_list):
                    uses = [x for x in ast.walk(sub) if isinstance(x, ast.Attribute) and isinstance(x.value, ast.Name) and x.value.id == "self" and x.attr in inst]
                    if uses:
                        findings.append(("property", "%s:%s.%s@%d" % (mname, cname, sub.name, sub.lineno), "property %s.%s reads per-thread storage (self.%s)" % (cname, sub.name, uses[0].attr),
                                         "the value set by the calling thread is invisible to the pool's worker threads: inside a pooled task the property yields its default"))
    return findings, inventory
