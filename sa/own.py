"""Ownership / aliasing and mod-ref component of engine F (DESIGN 3.3, 3.6).

roots(term) classifies which storage a value may share:
   ("FRESH",)                 allocated in this activation / immutable
   ("PARAM", name, path)      caller-supplied parameter `name` or something reachable from it
   ("GLOBAL", name)           module-level object
   ("UNKNOWN", why)           outside the summary table
mods(interp) lists every event that writes to storage, with the roots of the target.

The summary table below is the only hand-written knowledge about NumPy / builtins:
each row says whether a call returns fresh storage, a view/alias of an argument, and
which argument it mutates.
"""
from . import terms as tm
from . import kind as K

FRESH = ("FRESH",)

# --- externals returning fresh storage (or immutable scalars) -----------------------------
FRESH_FUNCS = {
    "numpy.zeros", "numpy.ones", "numpy.empty", "numpy.full", "numpy.array", "numpy.arange",
    "numpy.concatenate", "numpy.append", "numpy.where", "numpy.unique", "numpy.bincount",
    "numpy.cumprod", "numpy.cumsum", "numpy.nansum", "numpy.sum", "numpy.prod", "numpy.max",
    "numpy.min", "numpy.amax", "numpy.amin", "numpy.all", "numpy.any", "numpy.isnan",
    "numpy.isclose", "numpy.allclose", "numpy.array_equal", "numpy.count_nonzero", "numpy.sqrt",
    "numpy.corrcoef", "numpy.cov", "numpy.repeat", "numpy.setxor1d", "numpy.dtype", "numpy.iinfo",
    "numpy.quantile", "numpy.nanquantile", "numpy.digitize", "numpy.diff", "numpy.apply_along_axis",
    "numpy.full_like", "numpy.zeros_like", "numpy.ones_like", "numpy.empty_like", "numpy.copy",
    "numpy.sort", "numpy.argsort", "numpy.nanmean", "numpy.mean", "numpy.std", "numpy.nanstd",
    "numpy.column_stack", "numpy.stack", "numpy.vstack", "numpy.hstack", "numpy.logical_and",
    "numpy.logical_or", "numpy.logical_not", "numpy.invert", "numpy.add", "numpy.multiply",
    "numpy.clip", "numpy.abs", "numpy.isfinite", "numpy.nonzero", "numpy.flatnonzero",
    "numpy.errstate", "numpy.searchsorted", "numpy.in1d", "numpy.isin", "numpy.union1d",
    "numpy.intersect1d", "numpy.setdiff1d", "numpy.take", "numpy.fromiter", "numpy.tile",
    "builtins.len", "builtins.int", "builtins.float", "builtins.bool", "builtins.str", "builtins.repr",
    "builtins.isinstance", "builtins.hasattr", "builtins.type", "builtins.max", "builtins.min",
    "builtins.sum", "builtins.any", "builtins.all", "builtins.range", "builtins.slice",
    "builtins.sorted", "builtins.set", "builtins.frozenset", "builtins.print", "builtins.abs",
    "builtins.round", "builtins.id", "builtins.bytes",
    "struct.pack", "struct.unpack", "struct.unpack_from", "struct.calcsize", "sys.getsizeof",
    "time.time", "time.perf_counter", "collections.defaultdict", "contextlib.closing",
    "multiprocessing.pool.ThreadPool", "multiprocessing.pool.Pool", "multiprocessing.Pool",
    "itertools.product", "operator.mul", "operator.add", "warnings.filterwarnings",
    "warnings.catch_warnings", "warnings.simplefilter", "mmap.mmap",
    "builtins.TypeError", "builtins.ValueError", "builtins.RuntimeError", "builtins.AssertionError",
    "builtins.NotImplementedError", "builtins.KeyError", "builtins.IndexError", "builtins.Exception",
    "builtins.KeyboardInterrupt", "builtins.OverflowError", "builtins.StopIteration",
}
# containers built from an iterable: fresh container, elements alias the source's elements
CONTAINER_FUNCS = {"builtins.list", "builtins.tuple", "builtins.dict", "builtins.reversed", "builtins.enumerate",
                   "builtins.zip", "itertools.chain", "itertools.islice", "builtins.iter", "builtins.filter", "builtins.map"}
# externals whose result may share storage with argument k
VIEW_FUNCS = {
    "numpy.asarray": 0, "numpy.asanyarray": 0, "numpy.ascontiguousarray": 0, "numpy.flip": 0,
    "numpy.reshape": 0, "numpy.ravel": 0, "numpy.transpose": 0, "numpy.squeeze": 0,
    "numpy.atleast_1d": 0, "numpy.atleast_2d": 0, "numpy.expand_dims": 0, "numpy.broadcast_to": 0,
    "numpy.swapaxes": 0, "numpy.moveaxis": 0, "numpy.real": 0, "numpy.frombuffer": 0,
    "numpy.nan_to_num": 0,  # only with copy=False (also a mutator, see MUTATING_FUNCS)
    "functools.reduce": 1,  # reduce(f, seq) may return an element of seq unchanged
    "builtins.next": 0, "builtins.getattr": 0,
}
FRESH_METHODS = {
    "copy", "astype", "tolist", "sum", "any", "all", "max", "min", "mean", "std", "prod", "nonzero",
    "cumsum", "cumprod", "argsort", "clip", "item", "tobytes", "flatten", "round", "dot", "conj",
    "keys", "count", "index", "join", "format", "split", "strip", "startswith", "endswith",
    "issubset", "intersection", "union", "difference", "type", "tell", "fileno", "read", "write",
    "tofile", "isoformat", "bit_length", "encode", "decode", "lower", "upper", "replace", "repeat",
    "searchsorted", "close", "terminate", "__len__",
}
VIEW_METHODS = {"reshape", "ravel", "view", "transpose", "squeeze", "swapaxes", "get", "values", "items",
                "setdefault", "pop", "popitem", "__getitem__", "__iter__", "diagonal"}
# receiver-mutating methods (builtin containers and ndarrays)
MUTATING_METHODS = {
    "append", "extend", "insert", "pop", "popitem", "clear", "update", "setdefault", "sort", "fill",
    "resize", "put", "itemset", "remove", "reverse", "add", "discard", "__setitem__", "__delitem__",
    "setflags", "partition", "byteswap", "setfield", "difference_update", "intersection_update",
    "symmetric_difference_update",
}
# external functions mutating argument k
MUTATING_FUNCS = {"numpy.put": 0, "numpy.place": 0, "numpy.copyto": 0, "numpy.putmask": 0,
                  "numpy.fill_diagonal": 0, "numpy.random.shuffle": 0, "builtins.setattr": 0,
                  "numpy.add.at": 0, "numpy.put_along_axis": 0, "builtins.delattr": 0}
IMMUTABLE_ATTRS = {"shape", "dtype", "size", "ndim", "itemsize", "nbytes", "str", "name", "type", "__class__", "__name__"}
VIEW_ATTRS = {"T", "flat", "real", "imag", "base", "mT"}
KERNEL_RESULTS = {
    # set_operations kernels / wrappers: which arguments the result may alias
    "set_operations:set_intersect_merge_np": (),
    "set_operations:set_difference_merge_np": (),
    "set_operations:set_union_merge_np": (0, 1),  # empty-operand shortcut returns asarray(other)
    "set_operations:set_union_merge_many": (),
}


class OwnCtx:
    def __init__(self, interp, kctx=None):
        self.I = interp
        self.kctx = kctx or K.KindCtx(interp)
        self.unknown_calls = set()
        self.memo = {}
        self.at = None  # (seq, loops) of the event whose operands are being classified

    def visible(self, h):
        """Heap contents of an allocation that can have been stored when the current event runs:
        stored earlier in program order, or inside a loop the current event is also in
        (a later store reaches it around the back edge)."""
        els = list(zip(h.get("elts", []), h.get("elts_at", [])))
        its = list(zip([v for _, v in h.get("items", [])], h.get("items_at", [])))
        allv = els + its
        if self.at is None:
            return [v for v, _ in allv]
        seq, loops = self.at
        out = []
        for v, at in allv:
            if at is None or at[0] <= seq or (set(at[1]) & set(loops)):
                out.append(v)
        return out


def _is_fancy_index(idx, ctx):
    """Index known to select by array / boolean mask => NumPy returns a copy."""
    for i in (idx.args if idx.op == "tuple" else (idx,)):
        if i.op in ("cmp", "not"):
            return True
        if i.op == "unop" and i.args[0] == "~":
            return True
        if i.op == "bool":
            return True
        if K.kind(i, ctx.kctx) == K.ARRAY:
            return True
        if i.op == "binop" and i.args[0] in ("&", "|") and any(x.op in ("cmp", "unop") for x in i.args[1:]):
            return True
    return False


def _truth_under(c, test, val):
    """Truth value the condition c has when `test` is known to be `val`; None when not determined."""
    if c == test:
        return val
    if c.op == "not":
        r = _truth_under(c.args[0], test, val)
        return None if r is None else not r
    if c.op == "const" and isinstance(c.args[1], bool):
        return c.args[1]
    if c.op == "ifexp":
        # a flag: ifexp(test2, const, const)
        r = _truth_under(c.args[0], test, val)
        if r is not None:
            return _truth_under(c.args[1] if r else c.args[2], test, val)
        a, b = _truth_under(c.args[1], test, val), _truth_under(c.args[2], test, val)
        return a if a is not None and a == b else None
    return None


def _implied(test, val):
    """(cond, value) facts implied by `test` being `val`: for a flag test = ifexp(c, K1, K2) with boolean constants, the
    value of the flag pins c."""
    out = [(test, val)]
    if test.op == "ifexp" and all(x.op == "const" and isinstance(x.args[1], bool) for x in test.args[1:]):
        k1, k2 = test.args[1].args[1], test.args[2].args[1]
        if k1 != k2:
            out += _implied(test.args[0], k1 == val)
    if test.op == "not":
        out += _implied(test.args[0], not val)
    return out


def _assume(t, test, val, depth=0):
    """t with every conditional value whose test is decided by (test == val) replaced by the alternative it selects."""
    facts = _implied(test, val)

    def walk(x, dd):
        if dd > 40 or not isinstance(x, tm.T):
            return x
        if x.op == "ifexp":
            for f_t, f_v in facts:
                r = _truth_under(x.args[0], f_t, f_v)
                if r is not None:
                    return walk(x.args[1] if r else x.args[2], dd + 1)
        if x.op in ("const", "param", "alloc", "ext", "global"):
            return x
        new = []
        changed = False
        for a in x.args:
            if isinstance(a, tm.T):
                b = walk(a, dd + 1)
            elif isinstance(a, tuple):
                b = tuple(walk(y, dd + 1) if isinstance(y, tm.T) else (tuple(walk(z, dd + 1) if isinstance(z, tm.T) else z for z in y) if isinstance(y, tuple) else y) for y in a)
            else:
                b = a
            changed = changed or (b is not a and b != a)
            new.append(b)
        return tm.T(x.op, *new) if changed else x
    return walk(t, depth)


def roots(t, ctx, depth=0, seen=None):
    """Set of storage roots the value of t may share."""
    if depth > 60:
        return {("UNKNOWN", "depth")}
    d = depth + 1
    op = t.op
    if op in ("const", "closure", "func", "class", "module", "ext", "enumidx", "cmp", "bool", "not", "slice", "exc", "excval", "reraise", "anyexc"):
        return {FRESH}
    if op == "param":
        return {("PARAM", t.args[0], "")}
    if op == "global":
        return {("GLOBAL", "%s.%s" % t.args[:2])}
    if op == "alloc":
        return {FRESH}
    if op == "ifexp":
        # guard-aware: inside the branch taken when the test holds (fails), every conditional value with the SAME test - also
        # one reached through a flag that was itself set under that test - is replaced by its matching alternative.  This
        # keeps correlated choices together (`if c: x = x.copy(); share = False` ... `x if not share else x.copy()`).
        out = set()
        for branch, val in ((t.args[1], True), (t.args[2], False)):
            out |= roots(_assume(branch, t.args[0], val), ctx, d, seen)
        return out
    if op == "phi":
        out = set()
        for a in t.args:
            out |= roots(a, ctx, d, seen)
        return out
    if op == "loopvar":
        seen = seen or set()
        if t in seen:
            return set()
        be = ctx.I.backedge.get((t.args[0], t.args[1]))
        if be is None:
            return {FRESH}
        return roots(be, ctx, d, seen | {t})
    if op in ("binop", "unop"):
        return {FRESH}
    if op in ("tuple", "list", "set", "dict", "comp", "gen"):
        return {FRESH}
    if op == "attr":
        base, name = t.args
        if name in IMMUTABLE_ATTRS:
            return {FRESH}
        rs = roots(base, ctx, d, seen)
        if name in VIEW_ATTRS:
            return rs
        out = set()
        for r in rs:
            if r[0] == "PARAM":
                out.add(("PARAM", r[1], (r[2] + "." + name)[:60]))
            elif r[0] == "FRESH":
                # field of a fresh object: what was stored there (looked up by the walker's env
                # when possible); otherwise unknown field of a fresh object = fresh
                out.add(FRESH)
            else:
                out.add(r)
        return out
    if op in ("sub", "iter", "dval", "dkey", "unpack", "starred", "enter", "slice1d"):
        base = t.args[0]
        if op == "sub" and _is_fancy_index(t.args[1], ctx):
            # fancy indexing copies - but only for ndarrays; a dict/list lookup aliases the element
            if K.kind(base, ctx.kctx) == K.ARRAY or base.op in ("attr", "param", "sub"):
                bk = K.kind(base, ctx.kctx)
                if bk in (K.ARRAY, K.UNKNOWN):
                    return {FRESH}
        return _element_roots(base, ctx, d, seen)
    if op == "call":
        return _call_roots(t, ctx, d, seen)
    if op == "super":
        return roots(t.args[0], ctx, d, seen)
    if op == "varargs":
        out = set()
        for a in t.args:
            out |= roots(a, ctx, d, seen)
        return out or {FRESH}
    if op == "unknown":
        return {FRESH} if t.args[0] in ("str", "sent", "acc") else {("UNKNOWN", t.args[0])}
    return {("UNKNOWN", op)}


def _elem_terms1(x, ctx):
    """One level: the element terms of container x, or None if x is opaque."""
    out = []
    for b in tm.alts(x):
        if b.op in ("tuple", "list", "set"):
            out.extend(b.args)
        elif b.op == "dict":
            out.extend(v for k, v in b.args)
        elif b.op == "alloc":
            out.extend(ctx.visible(ctx.I.heap.get(b, {})))
        elif b.op in ("comp", "gen"):
            e = b.args[1] if b.op == "comp" else b.args[0]
            if b.op == "comp" and b.args[0] == "dict" and e.op == "tuple":
                e = e.args[1]
            out.append(e)
        elif b.op == "call" and tm.callee_name(b) in CONTAINER_FUNCS and b.args[1]:
            for a in b.args[1]:
                sub = _elem_terms1(a, ctx)
                if sub is None:
                    return None
                out.extend(sub)
        elif b.op == "call" and tm.callee_name(b) in (".items", ".values"):
            sub = _elem_terms1(b.args[0].args[0], ctx)
            if sub is None:
                return None
            out.extend(sub)
        else:
            return None
    return out


def _element_roots(base, ctx, d, seen):
    """Roots of an element / view of `base` (memoised; a term being expanded higher up
    contributes nothing new, which cuts cycles through loop-carried containers)."""
    key = ("el", base)
    if key in ctx.memo:
        r = ctx.memo[key]
        return set() if r is None else set(r)
    ctx.memo[key] = None  # in progress
    out = _element_roots0(base, ctx, d, seen)
    ctx.memo[key] = frozenset(out)
    return out


def _element_roots0(base, ctx, d, seen):
    out = set()
    for b in tm.alts(base):
        if b.op in ("tuple", "list", "set"):
            for e in b.args:
                out |= roots(e, ctx, d, seen)
            if not b.args:
                out.add(FRESH)
        elif b.op == "dict":
            for k, v in b.args:
                out |= roots(v, ctx, d, seen)
        elif b.op == "alloc":
            els = ctx.visible(ctx.I.heap.get(b, {}))
            for e in els:
                out |= roots(e, ctx, d, seen)
            if not els:
                out.add(FRESH)
        elif b.op in ("comp", "gen"):
            e = b.args[1] if b.op == "comp" else b.args[0]
            if b.op == "comp" and b.args[0] == "dict" and e.op == "tuple":
                e = e.args[1]
            out |= roots(e, ctx, d, seen)
        elif b.op == "call" and tm.callee_name(b) in CONTAINER_FUNCS:
            for a in b.args[1]:
                out |= _element_roots(a, ctx, d, seen)
            if not b.args[1]:
                out.add(FRESH)
        elif b.op == "call" and tm.callee_name(b) in (".items", ".values"):
            out |= _element_roots(b.args[0].args[0], ctx, d, seen)
        elif b.op in ("iter", "dval", "unpack", "sub") and _elem_terms1(b.args[0], ctx) is not None:
            # b is itself an element of a transparent container: its elements are the elements
            # of those inner containers
            for c in _elem_terms1(b.args[0], ctx):
                out |= _element_roots(c, ctx, d + 1, seen)
        else:
            for r in roots(b, ctx, d, seen):
                if r[0] == "PARAM":
                    out.add(("PARAM", r[1], (r[2] + "[]")[:60]))
                else:
                    out.add(r)
    return out or {FRESH}


def _call_roots(t, ctx, d, seen):
    nm = tm.callee_name(t)
    args = t.args[1]
    f = t.args[0]
    if nm is None:
        # call of a computed callable (self.op(...), self.qfunc(...), pool_class(...)): a NumPy
        # reducer or a pool constructor by protocol
        return {FRESH}
    if nm in KERNEL_RESULTS:
        out = {FRESH}
        for i in KERNEL_RESULTS[nm]:
            if i < len(args):
                out |= roots(args[i], ctx, d, seen)
        return out
    if nm in FRESH_FUNCS:
        if nm == "numpy.array" and tm.kwarg(t, "copy") is not None and not tm.is_const(tm.kwarg(t, "copy"), True):
            return {FRESH} | (roots(args[0], ctx, d, seen) if args else set())
        return {FRESH}
    if nm in CONTAINER_FUNCS:
        return {FRESH}
    if nm in VIEW_FUNCS:
        i = VIEW_FUNCS[nm]
        if nm == "numpy.nan_to_num":
            c = tm.kwarg(t, "copy")
            if c is None or tm.is_const(c, True):
                return {FRESH}
        if nm == "functools.reduce":
            out = {FRESH}
            if len(args) > 1:
                out |= _element_roots(args[1], ctx, d, seen)
            return out
        if nm == "numpy.frombuffer":
            return roots(args[0], ctx, d, seen) if args else {FRESH}
        return (roots(args[i], ctx, d, seen) if len(args) > i else set()) | {FRESH}
    if nm == "numpy.ndarray":
        b = tm.kwarg(t, "buffer")
        if b is None and len(args) > 2:
            b = args[2]
        return roots(b, ctx, d, seen) if b is not None else {FRESH}
    if nm.startswith("."):
        m = nm[1:]
        recv = f.args[0]
        if m == "astype":
            c = tm.kwarg(t, "copy")
            if c is not None and not tm.is_const(c, True):
                return {FRESH} | roots(recv, ctx, d, seen)
            return {FRESH}
        if m in FRESH_METHODS:
            return {FRESH}
        if m in VIEW_METHODS:
            if m in ("get", "pop", "setdefault", "values", "items", "popitem", "__getitem__", "__iter__"):
                out = _element_roots(recv, ctx, d, seen)
                if m in ("get", "pop", "setdefault") and len(args) > 1:
                    out |= roots(args[1], ctx, d, seen)
                return out
            return roots(recv, ctx, d, seen) | {FRESH}
        if m in MUTATING_METHODS:
            return {FRESH}
        ctx.unknown_calls.add(nm)
        return {FRESH}
    if nm.startswith("numpy."):
        ctx.unknown_calls.add(nm)
        return {FRESH}
    if ":" in nm:
        # repo function that was not inlined (recursion / depth): conservatively aliases its arguments
        out = {FRESH}
        for a in args:
            out |= roots(a, ctx, d, seen)
        return out
    ctx.unknown_calls.add(nm)
    return {("UNKNOWN", nm)}


class Mod:
    __slots__ = ("ev", "target", "roots", "what", "rebind")

    def __init__(self, ev, target, rts, what, rebind=False):
        self.ev = ev
        self.target = target
        self.roots = rts
        self.what = what
        self.rebind = rebind

    def __repr__(self):
        return "<mod %s %s %s>" % (self.what, self.ev.where(), sorted(self.roots))


_FIELD_CACHE = {}


def _ctor_field_values(interp, ev, attr):
    """Values a class's own __init__ stores into self.<attr> (all alternatives), for resolving `self.<attr>(...)` calls."""
    fi = ev.fi
    cls = getattr(fi, "cls", None)
    if cls is None:
        return []
    key = (id(interp.prog), cls.fq if hasattr(cls, "fq") else id(cls))
    if key not in _FIELD_CACHE:
        vals = {}
        try:
            init = interp.prog.lookup_method(cls, "__init__")
            if init is not None and getattr(init, "node", None) is not None:
                from .symex import Interp as _I
                I0 = _I(interp.prog, max_depth=1)
                I0.run(init)
                for e in I0.events:
                    if e.kind == "store_attr" and e["base"] == tm.param("self") and not e.stack:
                        vals.setdefault(e["attr"], []).extend(tm.alts(e["value"]))
        except Exception:
            vals = {}
        _FIELD_CACHE[key] = vals
    return list(_FIELD_CACHE[key].get(attr, []))


def mods(interp, ctx=None):
    """Every event that may write storage: element stores, attribute rebinds, deletions,
    in-place augmented assignment on arrays, mutating methods / functions, out= arguments."""
    ctx = ctx or OwnCtx(interp)
    out = []
    for ev in interp.events:
        k = ev.kind
        ctx.at = (ev.seq, ev.loops)
        ctx.memo = {}
        if k == "store_sub":
            out.append(Mod(ev, ev["base"], roots(ev["base"], ctx), "store %s[...]" % _short(ev["base"])))
        elif k == "del_sub":
            out.append(Mod(ev, ev["base"], roots(ev["base"], ctx), "del %s[...]" % _short(ev["base"])))
        elif k == "store_attr":
            out.append(Mod(ev, ev["base"], roots(ev["base"], ctx), "set .%s" % ev["attr"], rebind=True))
        elif k == "del_attr":
            out.append(Mod(ev, ev["base"], roots(ev["base"], ctx), "del .%s" % ev["attr"], rebind=True))
        elif k == "aug_name":
            old = ev["old"]
            kk = K.kind(old, ctx.kctx)
            if kk in (K.PYINT, K.FLOAT) or old.op in ("const", "tuple"):
                continue
            if kk == K.UNKNOWN and K.kind(ev["rhs"], ctx.kctx) in (K.PYINT, K.FLOAT) and old.op not in ("call", "sub", "attr", "param", "iter"):
                continue
            out.append(Mod(ev, old, roots(old, ctx), "in-place %s= on %s" % (ev["op"], ev["name"])))
        elif k == "call":
            if ev["resolved"]:
                continue  # repo callee: its own events are analysed (inlined) or it is recursion
            m = ev["method"]
            nm = ev["name"]
            if m in MUTATING_METHODS and ev["recv"] is not None and nm and nm.startswith("."):
                out.append(Mod(ev, ev["recv"], roots(ev["recv"], ctx), "method .%s()" % m))
            if nm in MUTATING_FUNCS and ev["args"]:
                a = ev["args"][MUTATING_FUNCS[nm]]
                out.append(Mod(ev, a, roots(a, ctx), "%s()" % nm))
            if nm == "numpy.nan_to_num" and ev["args"]:
                c = dict(ev["kwargs"]).get("copy")
                if c is not None and not tm.is_const(c, True):
                    out.append(Mod(ev, ev["args"][0], roots(ev["args"][0], ctx), "nan_to_num(copy=False)"))
            kws = list(ev["kwargs"])
            # functools.partial(g, **kw)(...) is g(..., **kw): the frozen keywords count
            f_alts = list(tm.alts(ev["f"]))
            # self.<field>(...) where the constructor stored a callable in <field>: look at what was stored
            f0 = ev["f"]
            if f0.op == "attr" and f0.args[0] == tm.param("self"):
                f_alts += _ctor_field_values(interp, ev, f0.args[1])
            for f_alt in f_alts:
                if f_alt.op == "call" and tm.callee_name(f_alt) == "functools.partial":
                    kws += list(f_alt.args[2]) if len(f_alt.args) > 2 else []
            for kname, v in kws:
                if kname == "out" and v != tm.NONE:
                    out.append(Mod(ev, v, roots(v, ctx), "out= argument of %s" % nm))
                if kname in ("overwrite_input",) and not tm.is_const(v, False) and v != tm.NONE and ev["args"]:
                    # numpy.quantile / percentile / median / nanquantile ...: the input array is partitioned in place
                    out.append(Mod(ev, ev["args"][0], roots(ev["args"][0], ctx), "overwrite_input= argument of %s" % (nm or "a partial")))
            if nm == "builtins.dict.__init__" and ev["args"]:
                pass
    ctx.at = None
    ctx.memo = {}
    return out


def _short(t):
    s = tm.show(t)
    return s if len(s) <= 60 else s[:57] + "..."
