"""Engine A support: configuration-indexed partial evaluation of the aggregator classes
(DESIGN 3.4).  The ffunc_*/xfunc_* classes branch on a handful of configuration attributes
fixed at construction (weights None / array / scalar, ignore_missing, return_missing_as
NaN / (sentinel, False) / plain 0, fact arity, coordinates None); enumerating that finite
space and folding those tests to constants removes infeasible path combinations."""
from . import terms as tm
from .terms import T
from . import hints
from .symex import Interp


class Config:
    def __init__(self, weights="none", ignore=False, rma="nan", ndim=1, coords=True, N=False, dims=True, tracing=False, scalar_w=False):
        self.scalar_w = scalar_w  # the weight is given as a bare scalar: numpy.isscalar(weights) / numpy.ndim(weights) == 0 hold
        self.tracing = tracing  # the per-call timing diagnostics of the index-cube aggregates are switched on
        self.weights = weights  # none | array | scalar
        self.ignore = ignore
        self.rma = rma  # nan | tuple | zero | plain
        self.ndim = ndim
        self.coords = coords
        self.N = N  # explicit N given
        self.dims = dims  # cube has dimensions

    def key(self):
        return (self.weights, self.ignore, self.rma, self.ndim, self.coords, self.N, self.dims, self.tracing, self.scalar_w)

    def __repr__(self):
        return "weights=%s ignore_missing=%s return_missing_as=%s ndim=%d coords=%s" % (self.weights, self.ignore, self.rma, self.ndim, self.coords)


def _is_attr(t, name, of=None):
    return t.op == "attr" and t.args[1] == name and (of is None or t.args[0] == of)


def make_oracle(cfg, fields=None, selfname="self"):
    """Truth of configuration tests under cfg. `fields` maps self attributes to their __init__ terms
    so that tests written on either the parameter or the attribute are folded alike."""
    self_t = tm.param(selfname)
    rev = {}
    for k, v in (fields or {}).items():
        rev.setdefault(v, k)

    def root(t):
        """Which configuration quantity a term denotes."""
        if t in rev:
            return rev[t]
        if t.op == "call" and (tm.callee_name(t) or "") in (".copy", ".astype") and t.args[0].args[0] in rev:
            return rev[t.args[0].args[0]]
        if t.op == "param":
            return t.args[0]
        if t.op == "attr" and t.args[0] == self_t:
            return t.args[1]
        if t.op == "attr" and t.args[0].op in ("iter", "alloc", "param"):
            return t.args[1]
        return None

    def weights_like(t):
        """t is the weights value (parameter, attribute, or the unpacked/copied array derived from it)."""
        r = root(t)
        if r == "weights":
            return True
        if tm.contains(t, lambda x: x.op == "param" and x.args[0] == "weights") and not tm.contains(t, lambda x: x.op == "param" and x.args[0] in ("arr",)):
            return t.op in ("unpack", "call", "ifexp", "phi", "sub")
        return False

    def oracle(t):
        if t.op == "cmp" and t.args[0] in ("is", "is not") and tm.NONE in t.args[1:]:
            x = t.args[1] if t.args[2] == tm.NONE else t.args[2]
            pos = t.args[0] == "is"
            r = root(x)
            if r == "weights" or weights_like(x):
                return (cfg.weights == "none") if pos else (cfg.weights != "none")
            if r == "coordinates":
                return (not cfg.coords) if pos else cfg.coords
            if r == "N":
                return (not cfg.N) if pos else cfg.N
            if r == "validity" and cfg.weights == "none" and x.op != "param":
                return None
            if r in ("tracing",):
                return pos != cfg.tracing
            return None
        r = root(t)
        if r == "ignore_missing":
            return cfg.ignore
        if r in ("tracing",):
            return cfg.tracing
        if r == "dims" and t.op == "attr" and t.args[0] == tm.param("cube"):
            return cfg.dims
        if t.op == "attr" and t.args[1] == "shape":
            b = t.args[0]
            rb = root(b)
            if rb == "weights" or weights_like(b):
                return cfg.weights == "array" if cfg.weights != "none" else None
            if rb == "validity":
                # validity has the shape of the weights for count; of the fact otherwise (an array)
                return None if cfg.weights == "scalar" else True
            return None
        if t.op == "call":
            nm = tm.callee_name(t)
            if nm == "numpy.isscalar" and t.args[1] and (root(t.args[1][0]) == "weights" or weights_like(t.args[1][0])):
                return cfg.scalar_w if cfg.weights != "none" else False
            if nm == "builtins.isinstance" and len(t.args[1]) == 2 and tm.dotted(t.args[1][1]) == "builtins.tuple" and root(t.args[1][0]) == "return_missing_as":
                return cfg.rma == "tuple"
            if nm == "numpy.isnan" and t.args[1] and root(t.args[1][0]) == "null":
                return cfg.rma == "nan"
            if nm == "numpy.isnan" and t.args[1] and t.args[1][0].op in ("ifexp", "sub", "attr") and tm.contains(t.args[1][0], lambda x: root(x) == "return_missing_as"):
                return cfg.rma == "nan"
        if t.op == "cmp" and t.args[0] in ("==", "!="):
            a, b = t.args[1], t.args[2]
            for x, y in ((a, b), (b, a)):
                if root(x) == "return_missing_as" and tm.is_const(y, 0):
                    eq = cfg.rma == "zero"
                    return eq if t.args[0] == "==" else not eq
                if x.op == "attr" and x.args[1] == "ndim" and y.op == "const" and root(x.args[0]) in ("summables", "countables", "arr", "values", "validity"):
                    eq = cfg.ndim == y.args[1]
                    return eq if t.args[0] == "==" else not eq
        if t.op == "cmp" and t.args[0] in (">", ">=", "<", "<=") and t.args[1].op == "attr" and t.args[1].args[1] == "ndim" and t.args[2].op == "const" and type(t.args[2].args[1]) is int:
            k = t.args[2].args[1]
            return {">": cfg.ndim > k, ">=": cfg.ndim >= k, "<": cfg.ndim < k, "<=": cfg.ndim <= k}[t.args[0]]
        return None

    return oracle


class ClassModel:
    """One aggregator class under one configuration: __init__ fields and method runs."""

    def __init__(self, prog, module, clsname, cfg):
        self.prog, self.module, self.clsname, self.cfg = prog, module, clsname, cfg
        self.ci = prog.cls(module, clsname)
        self.oracle = make_oracle(cfg)
        init = prog.lookup_method(self.ci, "__init__")
        self.I0 = Interp(prog, hints.param_types_for(module), hints.FIELD_TYPES, oracle=self.oracle, max_depth=4)
        fr = self.I0.run(init)
        self.init_frame = fr
        self.fields = self.I0.fields_of(fr)
        self.init_params = init.params()[1:]

    def run(self, method, args=None, max_depth=4, no_inline=()):
        fi = self.prog.lookup_method(self.ci, method)
        I = Interp(self.prog, hints.param_types_for(self.module), hints.FIELD_TYPES, oracle=self.oracle, max_depth=max_depth, no_inline=no_inline)
        fr = I.run(fi, args=args, fields=self.fields)
        return fi, I, fr
