"""Exact piecewise evaluation of a 'ladder' helper: a function that inspects ONE integer parameter
only through comparisons with constants and returns constants (a word size, a dtype).

Used when a word size / dtype is chosen by something other than iindexes.fit_dtype (whose own ladder
is decided by checks/c19.py): the helper's AST is evaluated abstractly over a partition of the
integers into intervals - loops over constant tuples are unrolled, conditions split the live
intervals, returns record (interval, value).  Nothing is executed; unsupported syntax raises
Unknown and the caller reports UNDECIDED.
"""
import ast

INF = 1 << 400

RANGES = {
    "int8": (-(2 ** 7), 2 ** 7 - 1), "int16": (-(2 ** 15), 2 ** 15 - 1), "int32": (-(2 ** 31), 2 ** 31 - 1), "int64": (-(2 ** 63), 2 ** 63 - 1),
    "uint8": (0, 2 ** 8 - 1), "uint16": (0, 2 ** 16 - 1), "uint32": (0, 2 ** 32 - 1), "uint64": (0, 2 ** 64 - 1),
}
ITEMSIZE = {"int8": 1, "uint8": 1, "int16": 2, "uint16": 2, "int32": 4, "uint32": 4, "int64": 8, "uint64": 8}
CODES = {"i1": "int8", "i2": "int16", "i4": "int32", "i8": "int64", "u1": "uint8", "u2": "uint16", "u4": "uint32", "u8": "uint64",
         "B": "uint8", "H": "uint16", "L": "uint32", "I": "uint32", "Q": "uint64", "b": "int8", "h": "int16", "l": "int32", "i": "int32", "q": "int64"}


class Unknown(Exception):
    pass


class DType:
    def __init__(self, name):
        self.name = name

    def __eq__(self, o):
        return isinstance(o, DType) and o.name == self.name

    def __hash__(self):
        return hash(("dtype", self.name))

    def __repr__(self):
        return "dtype(%s)" % self.name


class Evaluator:
    def __init__(self, program, module, max_depth=4):
        self.prog = program
        self.module = module
        self.max_depth = max_depth

    # ------------------------------------------------------------------ constants
    def const(self, e, env, depth=0):
        """Fold e to an int / str / DType / tuple, or raise Unknown."""
        if isinstance(e, ast.Constant) and not isinstance(e.value, bool) and isinstance(e.value, (int, str)):
            return e.value
        if isinstance(e, ast.Name):
            if e.id in env:
                return env[e.id]
            mc = self._module_const(e.id, depth)
            if mc is not None:
                return mc
            raise Unknown("name %s" % e.id)
        if isinstance(e, ast.Subscript):
            v, i = self.const(e.value, env, depth), self.const(e.slice, env, depth)
            if isinstance(v, (tuple, str)) and isinstance(i, int) and -len(v) <= i < len(v):
                return v[i]
            raise Unknown("subscript")
        if isinstance(e, (ast.GeneratorExp, ast.ListComp)) and len(e.generators) == 1 and not e.generators[0].ifs:
            g = e.generators[0]
            it = self.const(g.iter, env, depth)
            if not isinstance(it, tuple) or len(it) > 64:
                raise Unknown("comprehension over a non-constant sequence")
            out = []
            for item in it:
                e2 = dict(env)
                self._bind(g.target, item, e2)
                out.append(self.const(e.elt, e2, depth))
            return tuple(out)
        if isinstance(e, (ast.Tuple, ast.List)):
            return tuple(self.const(x, env, depth) for x in e.elts)
        if isinstance(e, ast.UnaryOp) and isinstance(e.op, (ast.USub, ast.UAdd)):
            v = self.const(e.operand, env, depth)
            if not isinstance(v, int):
                raise Unknown("unary on non-int")
            return -v if isinstance(e.op, ast.USub) else v
        if isinstance(e, ast.BinOp):
            a, b = self.const(e.left, env, depth), self.const(e.right, env, depth)
            if not (isinstance(a, int) and isinstance(b, int)):
                raise Unknown("arithmetic on non-int")
            if isinstance(e.op, ast.Add):
                return a + b
            if isinstance(e.op, ast.Sub):
                return a - b
            if isinstance(e.op, ast.Mult):
                return a * b
            if isinstance(e.op, ast.Pow) and 0 <= b <= 512:
                return a ** b
            if isinstance(e.op, ast.LShift) and 0 <= b <= 512:
                return a << b
            if isinstance(e.op, ast.FloorDiv) and b:
                return a // b
            raise Unknown("operator")
        if isinstance(e, ast.Attribute) and isinstance(e.value, ast.Name) and e.value.id not in ("numpy", "np"):
            # a class-level constant table: IndxIO._WORDS / cls._WORDS / self._WORDS
            cc = self._class_const(e.value.id, e.attr, depth)
            if cc is not None:
                return cc
        if isinstance(e, ast.Attribute):
            # numpy.uint8
            if isinstance(e.value, ast.Name) and e.value.id in ("numpy", "np") and e.attr in RANGES:
                return DType(e.attr)
            # <dtype>.itemsize / iinfo(<dtype>).max
            if e.attr == "itemsize":
                d = self.const(e.value, env, depth)
                if isinstance(d, DType):
                    return ITEMSIZE[d.name]
            if e.attr in ("max", "min") and isinstance(e.value, ast.Call) and isinstance(e.value.func, ast.Attribute) and e.value.func.attr == "iinfo" and len(e.value.args) == 1:
                d = self.const(e.value.args[0], env, depth)
                if isinstance(d, str):
                    d = self._dtype_of_str(d)
                if isinstance(d, DType):
                    return RANGES[d.name][1 if e.attr == "max" else 0]
            raise Unknown("attribute %s" % e.attr)
        if isinstance(e, ast.Call):
            f = e.func
            if isinstance(f, ast.Attribute) and f.attr == "dtype" and isinstance(f.value, ast.Name) and f.value.id in ("numpy", "np") and len(e.args) == 1:
                d = self.const(e.args[0], env, depth)
                if isinstance(d, str):
                    d = self._dtype_of_str(d)
                if isinstance(d, DType):
                    return d
                raise Unknown("numpy.dtype argument")
            if isinstance(f, ast.Name) and f.id == "int" and len(e.args) == 1:
                return self.const(e.args[0], env, depth)
            if isinstance(f, ast.Name) and f.id in ("tuple", "list") and len(e.args) == 1 and not e.keywords:
                v = self.const(e.args[0], env, depth)
                if isinstance(v, tuple):
                    return v
                raise Unknown("tuple() of a non-constant")
            target = self._resolve(f)
            if target is not None and depth < self.max_depth and not e.keywords:
                args = [self.const(a, env, depth) for a in e.args]
                return self.call_const(target, args, depth + 1)
            raise Unknown("call")
        raise Unknown("expression %s" % type(e).__name__)

    def _forward(self, value, p, ivs, env, depth):
        """`return helper(p)` / `return helper(p)[k]`: the parameter handed on to another one-parameter ladder of the program
        (a shared row lookup): that ladder's pieces over the live intervals, projected by the subscript.  None if `value` is
        not of that form."""
        sub = None
        e = value
        if isinstance(e, ast.Subscript):
            try:
                sub = self.const(e.slice, env, depth)
            except Unknown:
                return None
            e = e.value
        if not (isinstance(e, ast.Call) and len(e.args) == 1 and not e.keywords and isinstance(e.args[0], ast.Name) and e.args[0].id == p and p not in env):
            return None
        target = self._resolve(e.func)
        if target is None or depth >= self.max_depth:
            return None
        saved = getattr(self, "_cls", None)
        try:
            inner = Evaluator(self.prog, self.module, self.max_depth).pieces(target, depth=depth + 1, domain=list(ivs))
        finally:
            self._cls = saved
        out = []
        for lo, hi, v in inner:
            if sub is not None:
                if isinstance(v, tuple) and isinstance(sub, int) and -len(v) <= sub < len(v):
                    v = v[sub]
                else:
                    raise Unknown("subscript of a helper result that is not a table row")
            out.append((lo, hi, v))
        return out

    def _bind(self, target, value, env):
        if isinstance(target, ast.Name):
            env[target.id] = value
            return
        if isinstance(target, (ast.Tuple, ast.List)) and isinstance(value, tuple) and len(value) == len(target.elts):
            for t, v in zip(target.elts, value):
                self._bind(t, v, env)
            return
        raise Unknown("loop target does not match the table's rows")

    def _module_const(self, name, depth):
        """value of a module-level constant (a table of rungs), or None"""
        if depth > self.max_depth + 2:
            return None
        cache = self.__dict__.setdefault("_mc", {})
        for mod in (self.module, "iindexes", "indxio"):
            m = getattr(self.prog, "modules", {}).get(mod)
            if m is None:
                continue
            for st in m.tree.body:
                if isinstance(st, ast.Assign) and len(st.targets) == 1 and isinstance(st.targets[0], ast.Name) and st.targets[0].id == name:
                    key = (mod, name)
                    if key not in cache:
                        cache[key] = None
                        try:
                            cache[key] = self.const(st.value, {}, depth + 1)
                        except Unknown:
                            cache[key] = None
                    return cache[key]
        return None

    def _class_const(self, owner, attr, depth):
        cls = getattr(self, "_cls", None) if owner in ("cls", "self") else owner
        if not cls:
            return None
        for mod in (self.module, "indxio", "iindexes"):
            try:
                ci = self.prog.cls(mod, cls)
            except Exception:
                ci = None
            if ci is not None and attr in getattr(ci, "attrs", {}):
                try:
                    return self.const(ci.attrs[attr], {}, depth + 1)
                except Unknown:
                    return None
        return None

    def _dtype_of_str(self, s):
        s = s.lstrip("<=|>")
        s = CODES.get(s, s)
        if s in RANGES:
            return DType(s)
        raise Unknown("dtype string %r" % s)

    def _resolve(self, f):
        """ast of a call target -> FuncInfo of a program function (module function or Class.method)."""
        name = None
        if isinstance(f, ast.Name):
            name = f.id
        elif isinstance(f, ast.Attribute) and isinstance(f.value, ast.Name):
            name = "%s.%s" % (f.value.id, f.attr)
            if f.value.id in ("cls", "self") and getattr(self, "_cls", None):
                name = "%s.%s" % (self._cls, f.attr)
        if name is None:
            return None
        for mod in (self.module, "iindexes", "indxio"):
            try:
                fi = self.prog.func(mod, name)
            except Exception:
                fi = None
            if fi is not None and getattr(fi, "node", None) is not None:
                return fi
        return None

    def call_const(self, fi, args, depth):
        """Evaluate a program function on constant arguments (each a degenerate interval)."""
        params = [p for p in fi.params() if p not in ("self", "cls")]
        if len(args) != len(params):
            raise Unknown("arity of %s" % fi.fq)
        if len(args) == 1 and isinstance(args[0], int):
            pieces = self.pieces(fi, depth=depth, domain=[(args[0], args[0])])
            vals = {v for _, _, v in pieces}
            if len(vals) == 1:
                return vals.pop()
            raise Unknown("no single value for %s(%r)" % (fi.fq, args[0]))
        raise Unknown("call of %s with %d constant args" % (fi.fq, len(args)))

    # ------------------------------------------------------------------ conditions
    def split(self, test, env, ivs, p, depth):
        """-> (true intervals, false intervals) of the live intervals `ivs` of parameter p."""
        if isinstance(test, ast.BoolOp):
            if isinstance(test.op, ast.And):
                t_live, f_all = ivs, []
                for v in test.values:
                    t, f = self.split(v, env, t_live, p, depth)
                    f_all += f
                    t_live = t
                return t_live, _norm(f_all)
            t_all, f_live = [], ivs
            for v in test.values:
                t, f = self.split(v, env, f_live, p, depth)
                t_all += t
                f_live = f
            return _norm(t_all), f_live
        if isinstance(test, ast.UnaryOp) and isinstance(test.op, ast.Not):
            t, f = self.split(test.operand, env, ivs, p, depth)
            return f, t
        if isinstance(test, ast.Compare):
            if len(test.ops) > 1:
                parts = []
                left = test.left
                for op, right in zip(test.ops, test.comparators):
                    parts.append(ast.Compare(left=left, ops=[op], comparators=[right]))
                    left = right
                return self.split(ast.BoolOp(op=ast.And(), values=parts), env, ivs, p, depth)
            op, l, r = test.ops[0], test.left, test.comparators[0]
            lp = isinstance(l, ast.Name) and l.id == p and p not in env
            rp = isinstance(r, ast.Name) and r.id == p and p not in env
            if lp and rp:
                raise Unknown("parameter compared with itself")
            if not lp and not rp:
                a, b = self.const(l, env, depth), self.const(r, env, depth)
                val = _cmp(op, a, b)
                return (ivs, []) if val else ([], ivs)
            k = self.const(r if lp else l, env, depth)
            if not isinstance(k, int):
                raise Unknown("parameter compared with a non-integer")
            if rp:
                op = _flip(op)
            return _split_iv(ivs, op, k)
        if isinstance(test, ast.Call) and isinstance(test.func, ast.Name) and test.func.id == "isinstance" and len(test.args) == 2:
            # the parameter is an integer in this evaluation: isinstance(p, <array / dtype type>) is False, isinstance(p, int) True
            is_int = isinstance(test.args[1], ast.Name) and test.args[1].id == "int"
            return (ivs, []) if is_int else ([], ivs)
        raise Unknown("condition %s" % type(test).__name__)

    # ------------------------------------------------------------------ statements
    def pieces(self, fi, depth=0, domain=None):
        """[(lo, hi, value)] for the single integer parameter of fi over `domain` (default: all integers)."""
        params = [a for a in fi.params() if a not in ("self", "cls")]
        if len(params) != 1:
            raise Unknown("%s takes %d parameters; the ladder evaluator handles one" % (fi.fq, len(params)))
        p = params[0]
        self._cls = fi.fq.split(":")[-1].rsplit(".", 1)[0] if "." in fi.fq.split(":")[-1] else None
        out = []
        budget = [4000]

        def run(stmts, ivs, env):
            """returns the intervals that fall through the statement list"""
            for i, s in enumerate(stmts):
                budget[0] -= 1
                if budget[0] < 0:
                    raise Unknown("ladder too large")
                if not ivs:
                    return []
                if isinstance(s, ast.Expr) and isinstance(s.value, ast.Constant):
                    continue
                if isinstance(s, ast.Pass):
                    continue
                if isinstance(s, ast.Return):
                    if s.value is None:
                        raise Unknown("bare return")
                    fwd = self._forward(s.value, p, ivs, env, depth)
                    if fwd is not None:
                        out.extend(fwd)
                        return []
                    v = self.const(s.value, env, depth)
                    for lo, hi in ivs:
                        out.append((lo, hi, v))
                    return []
                if isinstance(s, ast.Raise):
                    for lo, hi in ivs:
                        out.append((lo, hi, "raise"))
                    return []
                if isinstance(s, ast.If):
                    t, f = self.split(s.test, env, ivs, p, depth)
                    ft = run(list(s.body), t, env) if t else []
                    ff = run(list(s.orelse), f, env) if f else []
                    ivs = _norm(ft + ff)
                    continue
                if isinstance(s, ast.For) and not s.orelse:
                    seq = self.const(s.iter, env, depth)
                    if not isinstance(seq, tuple) or len(seq) > 64:
                        raise Unknown("loop over a non-constant sequence")
                    live = ivs
                    for item in seq:
                        e2 = dict(env)
                        self._bind(s.target, item, e2)
                        live = run(list(s.body), live, e2)
                    ivs = live
                    continue
                if isinstance(s, ast.Assign) and len(s.targets) == 1 and isinstance(s.targets[0], ast.Name) and s.targets[0].id != p:
                    env = dict(env)
                    env[s.targets[0].id] = self.const(s.value, env, depth)
                    continue
                raise Unknown("statement %s" % type(s).__name__)
            return ivs

        rest = run(list(fi.node.body), domain or [(-INF, INF)], {})
        for lo, hi in rest:
            out.append((lo, hi, None))  # falls off the end: returns None
        return sorted(out, key=lambda x: x[0])


def _cmp(op, a, b):
    if isinstance(op, ast.Eq):
        return a == b
    if isinstance(op, ast.NotEq):
        return a != b
    if not (isinstance(a, int) and isinstance(b, int)):
        raise Unknown("ordering of non-integers")
    return {ast.Lt: a < b, ast.LtE: a <= b, ast.Gt: a > b, ast.GtE: a >= b}[type(op)]


def _flip(op):
    return {ast.Lt: ast.Gt(), ast.LtE: ast.GtE(), ast.Gt: ast.Lt(), ast.GtE: ast.LtE(), ast.Eq: ast.Eq(), ast.NotEq: ast.NotEq()}[type(op)]


def _norm(ivs):
    ivs = sorted((lo, hi) for lo, hi in ivs if lo <= hi)
    out = []
    for lo, hi in ivs:
        if out and lo <= out[-1][1] + 1:
            out[-1] = (out[-1][0], max(out[-1][1], hi))
        else:
            out.append((lo, hi))
    return out


def _split_iv(ivs, op, k):
    t, f = [], []
    for lo, hi in ivs:
        if isinstance(op, ast.Lt):
            t.append((lo, min(hi, k - 1)))
            f.append((max(lo, k), hi))
        elif isinstance(op, ast.LtE):
            t.append((lo, min(hi, k)))
            f.append((max(lo, k + 1), hi))
        elif isinstance(op, ast.Gt):
            t.append((max(lo, k + 1), hi))
            f.append((lo, min(hi, k)))
        elif isinstance(op, ast.GtE):
            t.append((max(lo, k), hi))
            f.append((lo, min(hi, k - 1)))
        elif isinstance(op, ast.Eq):
            if lo <= k <= hi:
                t.append((k, k))
                f.append((lo, k - 1))
                f.append((k + 1, hi))
            else:
                f.append((lo, hi))
        elif isinstance(op, ast.NotEq):
            if lo <= k <= hi:
                f.append((k, k))
                t.append((lo, k - 1))
                t.append((k + 1, hi))
            else:
                t.append((lo, hi))
        else:
            raise Unknown("comparison operator")
    return _norm(t), _norm(f)


def narrowest_unsigned_size(v):
    for n in (1, 2, 4, 8):
        if 0 <= v <= 256 ** n - 1:
            return n
    return None


def size_of(value):
    """word size denoted by a ladder value: an int size or a dtype."""
    if isinstance(value, DType):
        return ITEMSIZE[value.name]
    if isinstance(value, int):
        return value
    return None


def check_word_ladder(pieces, lo=0, hi=2 ** 64 - 1):
    """Compare a ladder with the narrowest unsigned word for every value in [lo, hi].
    -> list of (kind, witness value, got size, wanted size); kind in too-narrow | too-wide | no-size"""
    bad = []
    for a, b, v in pieces:
        a2, b2 = max(a, lo), min(b, hi)
        if a2 > b2:
            continue
        got = size_of(v)
        if isinstance(v, DType) and RANGES[v.name][0] < 0:
            bad.append(("signed", a2, v.name, "unsigned"))
            continue
        if got is None:
            bad.append(("no-size", a2, v, narrowest_unsigned_size(a2)))
            continue
        # narrowest() is monotone: check both ends and every power-of-256 boundary inside
        pts = {a2, b2} | {x for n in (1, 2, 4) for x in (256 ** n - 1, 256 ** n) if a2 <= x <= b2}
        for x in sorted(pts):
            want = narrowest_unsigned_size(x)
            if got < want:
                bad.append(("too-narrow", x, got, want))
                break
            if got > want:
                bad.append(("too-wide", x, got, want))
                break
    return bad
