"""Numeric-kind component of engine F: is a value an unbounded Python int, or a
fixed-width NumPy scalar / array (which wraps silently under NEP 50 arithmetic)?

kind(term) -> one of
  PYINT      unbounded Python int
  NPFIXED    fixed-width NumPy integer scalar (dtype unknown or named)
  ARRAY      ndarray (element kind fixed-width)
  FLOAT      Python/NumPy float
  PYLIST     Python list/tuple of PYINT (e.g. .tolist())
  OBJ        anything else known
  UNKNOWN
"""
from . import terms as tm

PYINT, NPFIXED, ARRAY, FLOAT, PYLIST, OBJ, UNKNOWN = "PYINT", "NPFIXED", "ARRAY", "FLOAT", "PYLIST", "OBJ", "UNKNOWN"

ARRAY_MAKERS = {
    "numpy.array", "numpy.asarray", "numpy.ndarray", "numpy.zeros", "numpy.ones", "numpy.empty",
    "numpy.full", "numpy.arange", "numpy.cumprod", "numpy.cumsum", "numpy.append", "numpy.flip",
    "numpy.concatenate", "numpy.where", "numpy.unique", "numpy.bincount", "numpy.repeat",
    "numpy.diff", "numpy.isnan", "numpy.isclose", "numpy.nan_to_num", "numpy.sort",
}
ARRAY_METHODS = {"astype", "copy", "reshape", "ravel", "flatten", "nonzero", "cumsum", "clip", "argsort", "view"}
SCALAR_REDUCERS = {"numpy.max", "numpy.min", "numpy.sum", "numpy.prod", "numpy.amax", "numpy.amin",
                   "numpy.nansum", "numpy.count_nonzero"}
SCALAR_REDUCER_METHODS = {"sum", "max", "min", "prod"}
PYINT_ATTRS = {"itemsize", "nbytes", "size", "ndim"}
PYINT_CALLS = {"builtins.len", "builtins.int", "struct.calcsize", "builtins.ord", "builtins.round", "operator.index"}
PYINT_METHODS = {"item", "tell", "fileno", "index", "count", "bit_length", "__len__"}


class KindCtx:
    def __init__(self, interp=None, param_kinds=None, attr_kinds=None, func_kinds=None):
        self.interp = interp
        self.func_kinds = func_kinds or {}  # fq of an un-inlined program function -> kind of its result
        self.param_kinds = param_kinds or {}
        self.attr_kinds = attr_kinds or {}


def join(kinds):
    ks = set(kinds)
    if not ks:
        return UNKNOWN
    if len(ks) == 1:
        return ks.pop()
    if ARRAY in ks:
        return ARRAY
    if NPFIXED in ks:
        return NPFIXED  # may be fixed-width on some path: the unsafe answer wins
    if UNKNOWN in ks:
        return UNKNOWN
    if FLOAT in ks:
        return FLOAT
    return OBJ


def kind(t, ctx=None, depth=0):
    ctx = ctx or KindCtx()
    if depth > 40:
        return UNKNOWN
    d = depth + 1
    op = t.op
    if op == "const":
        v = t.args[1]
        if isinstance(v, bool):
            return PYINT
        if isinstance(v, int):
            return PYINT
        if isinstance(v, float):
            return FLOAT
        return OBJ
    if op == "param":
        return ctx.param_kinds.get(t.args[0], UNKNOWN)
    if op in ("phi", "ifexp"):
        return join([kind(a, ctx, d) for a in tm.alts(t)])
    if op == "loopvar":
        if ctx.interp is not None:
            be = ctx.interp.backedge.get((t.args[0], t.args[1]))
            if be is not None and be != t and depth < 20:
                # loop-carried: kind of the back edge ignoring self references
                return kind(_strip_self(be, t), ctx, d + 10)
        return UNKNOWN
    if op == "attr":
        base, name = t.args
        if name in PYINT_ATTRS:
            return PYINT
        if name == "shape":
            return PYLIST
        if name in ("flat", "T", "real"):
            bk = kind(base, ctx, d)
            return ARRAY if bk == ARRAY else UNKNOWN
        k = ctx.attr_kinds.get(name)
        if k:
            return k
        return UNKNOWN
    if op == "sub":
        base, idx = t.args
        bk = kind(base, ctx, d)
        if bk == PYLIST:
            return PYLIST if idx.op == "slice" else PYINT
        if bk == ARRAY:
            if idx.op == "slice":
                return ARRAY
            ik = kind(idx, ctx, d)
            if ik == ARRAY:
                return ARRAY
            if idx.op == "tuple":
                if any(x.op == "slice" or kind(x, ctx, d) == ARRAY for x in idx.args):
                    return ARRAY
            return NPFIXED
        if base.op == "call" and tm.callee_name(base) in ("struct.unpack", "struct.unpack_from"):
            return PYINT
        if base.op == "call" and tm.callee_name(base) in (".nonzero",) or (base.op == "call" and tm.callee_name(base) == "numpy.where"):
            return ARRAY
        return UNKNOWN
    if op in ("iter",):
        bk = kind(t.args[0], ctx, d)
        if bk == ARRAY:
            return NPFIXED
        if bk == PYLIST:
            return PYINT
        src = t.args[0]
        if src.op == "call" and tm.callee_name(src) == "builtins.range":
            return PYINT
        return UNKNOWN
    if op == "enumidx":
        return PYINT
    if op == "unpack":
        return UNKNOWN
    if op == "tuple":
        ks = [kind(x, ctx, d) for x in t.args]
        return PYLIST if all(k == PYINT for k in ks) else OBJ
    if op == "comp":
        ek = kind(t.args[1], ctx, d)
        return PYLIST if ek == PYINT else OBJ
    if op == "alloc":
        if ctx.interp is not None and t in ctx.interp.heap:
            els = ctx.interp.heap[t]["elts"]
            if els and all(kind(e, ctx, d) == PYINT for e in els):
                return PYLIST
        return OBJ
    if op == "unop":
        return kind(t.args[1], ctx, d)
    if op == "binop":
        o, l, r = t.args
        lk, rk = kind(l, ctx, d), kind(r, ctx, d)
        if ARRAY in (lk, rk):
            return ARRAY
        if NPFIXED in (lk, rk):
            return NPFIXED  # NEP 50: a Python int adapts to the NumPy scalar's dtype
        if o == "/":
            return FLOAT if UNKNOWN not in (lk, rk) else UNKNOWN
        if FLOAT in (lk, rk):
            return FLOAT
        if lk == PYINT and rk == PYINT:
            return PYINT
        if lk == PYLIST and rk == PYLIST and o == "+":
            return PYLIST
        return UNKNOWN
    if op == "call":
        nm = tm.callee_name(t)
        args = t.args[1]
        if nm in PYINT_CALLS:
            return PYINT
        if t.args[0].op == "func" and t.args[0].args[0] in ctx.func_kinds:
            return ctx.func_kinds[t.args[0].args[0]]
        if nm == "builtins.float":
            return FLOAT
        if nm in ARRAY_MAKERS:
            return ARRAY
        if nm in SCALAR_REDUCERS:
            if tm.kwarg(t, "axis") is not None and not tm.is_const(tm.kwarg(t, "axis"), None):
                return ARRAY
            return NPFIXED
        if nm in ("builtins.sum", "builtins.max", "builtins.min"):
            if len(args) == 1 or nm == "builtins.sum":
                ak = kind(args[0], ctx, d) if args else UNKNOWN
                if ak == ARRAY:
                    return NPFIXED  # builtin reduction over an ndarray yields its scalar type
                if ak == PYLIST:
                    return PYINT
                if args and args[0].op in ("comp", "alloc", "binop"):
                    # elements of a comprehension / list
                    if args[0].op == "comp":
                        return kind(args[0].args[1], ctx, d)
                    if args[0].op == "binop":
                        return join([_elem_kind(x, ctx, d) for x in _concat_parts(args[0])])
                    return _elem_kind(args[0], ctx, d)
                return UNKNOWN
            return join([kind(a, ctx, d) for a in args])
        if nm and nm.startswith("."):
            m = nm[1:]
            recv = t.args[0].args[0]
            if m in PYINT_METHODS:
                return PYINT
            if m == "tolist":
                return PYLIST
            rk = kind(recv, ctx, d)
            if m in ARRAY_METHODS:
                return ARRAY if rk in (ARRAY, UNKNOWN) else rk
            if m in SCALAR_REDUCER_METHODS and rk == ARRAY:
                if tm.kwarg(t, "axis") is not None:
                    return ARRAY
                return NPFIXED
            if m == "type" or m == "dtype":
                return NPFIXED
        if nm and nm.startswith("numpy.") and nm.split(".")[-1] in ("uint8", "uint16", "uint32", "uint64", "int8", "int16", "int32", "int64", "intp"):
            return NPFIXED
        if t.args[0].op == "attr" and t.args[0].args[1] == "type":
            return NPFIXED  # dtype.type(x)
        return UNKNOWN
    return UNKNOWN


def _strip_self(be, lv):
    """Replace occurrences of the loop variable inside its own back edge by a PYINT-neutral 0
    so that kind(x := x + e) is kind(e) joined with the initial value (handled by the phi)."""
    from .terms import T, const

    def rec(x):
        if not isinstance(x, T):
            return x
        if x == lv:
            return const(0)
        if x.op == "phi":
            parts = [rec(a) for a in x.args if a != lv]
            return tm.phi(parts) if parts else const(0)
        return T(x.op, *[rec(a) if isinstance(a, T) else (tuple(rec(b) if isinstance(b, T) else b for b in a) if isinstance(a, tuple) else a) for a in x.args])

    return rec(be)


def _concat_parts(t):
    if t.op == "binop" and t.args[0] == "+":
        return _concat_parts(t.args[1]) + _concat_parts(t.args[2])
    return [t]


def _elem_kind(t, ctx, d):
    if t.op == "comp":
        return kind(t.args[1], ctx, d)
    if t.op == "alloc" and ctx.interp is not None and t in ctx.interp.heap:
        els = ctx.interp.heap[t]["elts"]
        return join([kind(e, ctx, d) for e in els]) if els else UNKNOWN
    k = kind(t, ctx, d)
    if k == PYLIST:
        return PYINT
    if k == ARRAY:
        return NPFIXED
    return UNKNOWN
