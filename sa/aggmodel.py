"""Per (aggregator class, configuration) model: constructor fields, corner values, cell
fill expressions and the reduce predicate, all in the normal forms of sa/algebra.py."""
from . import terms as tm
from .terms import T
from . import aggr, hints
from .algebra import Algebra, Unknown, show_lin, show_row, to_all, erase_R
from .symex import Interp

NOINLINE = {"as_separate_validity", "ffunc.adjust_zeros", "xfunc.adjust_zeros", "ccube._compute_common_cells_from_marginal_diffs",
            "xfunc.flat_regions", "xfunc.bins", "xfunc_quantile.weighted_quantile"}
ROW_FIELDS = ("validity", "summables", "countables", "weights", "wsummables", "arr", "values")


class Model:
    def __init__(self, prog, module, clsname, cfg):
        self.prog, self.module, self.clsname, self.cfg = prog, module, clsname, cfg
        self.ci = prog.cls(module, clsname)
        self.oracle = aggr.make_oracle(cfg)
        self.problems = []
        init = prog.lookup_method(self.ci, "__init__")
        self.I0 = Interp(prog, hints.param_types_for(module), hints.FIELD_TYPES, oracle=self.oracle, max_depth=4, no_inline=NOINLINE)
        fr = self.I0.run(init)
        self.fields = self.I0.fields_of(fr)
        self.oracle = aggr.make_oracle(cfg, self.fields)
        self.alg = Algebra(self.I0, self.fields, rows_params=("x_rowids",))
        # the array cube branches on ndim explicitly; the index cube accepts one or several fact columns alike
        self.alg.ndim = cfg.ndim if module == "xfuncs" else None
        self.rows = {}
        for name in ROW_FIELDS:
            if name in self.fields:
                try:
                    self.rows[name] = self.alg.simplify_row(self.alg.row(self.fields[name]))
                except Unknown as e:
                    self.rows[name] = ("UNKNOWN", str(e))
        self.corner = {}
        self.cell = {}
        self.npos = None
        self._regions()
        self._reduce()

    def run(self, method, args=None):
        fi = self.prog.lookup_method(self.ci, method)
        I = Interp(self.prog, hints.param_types_for(self.module), hints.FIELD_TYPES, oracle=self.oracle, max_depth=4, no_inline=NOINLINE)
        fr = I.run(fi, args=args, fields=self.fields)
        return fi, I, fr

    # ------------------------------------------------------------ regions
    def _lin(self, v, env=None):
        try:
            return self.alg.red(v, env=env)
        except Unknown as e:
            return {("UNKNOWN", str(e)): 1}

    def _regions(self):
        ff = self.module == "ffuncs"
        fi, I, fr = self.run("get_initial_regions")
        self.gir = (fi, I, fr)
        rets = [v for v, g in fr.returns]
        if len(rets) != 1 or rets[0].op != "tuple":
            self.problems.append("get_initial_regions does not return one tuple under %r" % (self.cfg,))
            return
        regs = rets[0].args
        self.npos = len(regs)
        self.region_terms = regs
        if ff:
            for ev in I.events:
                if ev.kind == "store_sub" and ev["index"] == T("attr", tm.param("cube"), "corner"):
                    for i, r in enumerate(regs):
                        if r == ev["base"]:
                            self.corner[i] = self._lin(ev["value"])
            fi2, I2, fr2 = self.run("fill_func")
            res = I2.result_of(fr2)
            I2.call_closure(fr2, res, [tm.param("x_coords"), tm.param("x_rowids")])
            self.fill = (fi2, I2, fr2)
            for ev in I2.events:
                if ev.kind == "store_sub" and ev["base"].op == "unpack" and ev["base"].args[0] == tm.param("regions") and ev["index"] == tm.param("x_coords"):
                    self.cell.setdefault(ev["base"].args[1], []).append(self._lin(ev["value"]))
        else:
            fi2, I2, fr2 = self.run("fill")
            self.fill = (fi2, I2, fr2)
            env = {}
            for ev in I2.events:
                if ev.kind == "store_sub" and ev["base"].op == "unpack" and ev["base"].args[0].op == "call" and (tm.callee_name(ev["base"].args[0]) or "").endswith("flat_regions"):
                    lin = self._lin(ev["value"], env)
                    env[(ev["base"], ev["index"])] = lin
                    self.cell.setdefault(ev["base"].args[1], []).append(lin)

    # ------------------------------------------------------------ reduce
    def _reduce(self):
        fi, I, fr = self.run("reduce")
        self.red = (fi, I, fr)
        self.returns = [v for v, g in fr.returns]
        self.adjusts = [ev for ev in I.events if ev.kind == "call" and ev["method"] == "adjust_zeros"]
        self.diffs = [ev for ev in I.events if ev.kind == "call" and any(a.op == "attr" and a.args[1] == "_compute_common_cells_from_marginal_diffs" and a.args[0] == tm.param("cube")
                                                                       for a in tm.alts(ev["f"]))]
        self.mask_stores = [ev for ev in I.events if ev.kind == "store_sub" and not ev.stack]

    def pos_of(self, t):
        """Region position a term denotes, looking through [cube.marginless] and adjust_zeros(new=0)."""
        seen = 0
        while seen < 6:
            seen += 1
            if t.op == "unpack" and t.args[0] == tm.param("regions"):
                return t.args[1]
            if t.op == "sub" and t.args[1] == T("attr", tm.param("cube"), "marginless"):
                t = t.args[0]
                continue
            if t.op == "call" and (tm.callee_name(t) or "") == ".adjust_zeros" and t.args[1]:
                t = t.args[1][0]
                continue
            return None
        return None

    def zero_adjusted(self, t):
        """t passes through adjust_zeros(new=0) (values within epsilon of zero snapped to zero)."""
        for x in tm.walk(t):
            if x.op == "call" and (tm.callee_name(x) or "") == ".adjust_zeros":
                new = tm.kwarg(x, "new")
                if new is None and len(x.args[1]) > 1:
                    new = x.args[1][1]
                if new is not None and tm.is_const(new, 0) and tm.kwarg(x, "condition") is None:
                    return True
        return False

    def predicate(self, cond):
        """Disjunction of atoms (kind, region position) for a missing-cell mask term; None if unrecognised."""
        atoms = []
        stack = [cond]
        while stack:
            c = stack.pop()
            if c.op == "binop" and c.args[0] == "|":
                stack.extend(c.args[1:])
                continue
            if c.op == "cmp" and c.args[0] in ("==", "!=") and c.args[2] in (self.fields.get("null"), T("sub", tm.param("return_missing_as"), tm.const(0)), tm.param("return_missing_as")):
                p = self.pos_of(c.args[1])
                if p is None:
                    return None
                atoms.append(("eqnull" if c.args[0] == "==" else "nenull", p, c.args[1]))
                continue
            if c.op == "cmp" and c.args[0] in ("==", "!=", "<", "<=") and c.args[2].op == "const":
                p = self.pos_of(c.args[1])
                k = c.args[2].args[1]
                if p is None:
                    return None
                kind = {("==", 0): "eq0", ("!=", 0): "ne0", ("<", 2): "lt2", ("<=", 1): "lt2", ("<", 1): "eq0", ("<=", 0): "eq0"}.get((c.args[0], k))
                if kind is None:
                    return None
                atoms.append((kind, p, c.args[1]))
                continue
            if c.op == "call" and tm.callee_name(c) == "numpy.isclose" and len(c.args[1]) == 2 and tm.is_const(c.args[1][1], 0):
                p = self.pos_of(c.args[1][0])
                if p is None:
                    return None
                atoms.append(("close0", p, c.args[1][0]))
                continue
            if c.op == "call" and tm.callee_name(c) == "numpy.isnan" and c.args[1]:
                p = self.pos_of(c.args[1][0])
                if p is None:
                    return None
                atoms.append(("isnan", p, c.args[1][0]))
                continue
            if c.op == "unop" and c.args[0] == "~":
                p = self.pos_of(c.args[1])
                if p is None:
                    return None
                atoms.append(("not", p, c.args[1]))
                continue
            return None
        return atoms

    def negated(self, validity):
        """Mask atoms M such that validity == NOT(M1 | M2 | ...), or None if the form is not recognised."""
        v = validity
        if v.op == "unop" and v.args[0] == "~":
            return self.predicate(v.args[1])
        if v.op == "call" and tm.callee_name(v) in ("numpy.logical_not", "numpy.invert", "numpy.bitwise_not") and v.args[1]:
            return self.predicate(v.args[1][0])
        # conjunction of complemented comparisons
        parts = []
        stack = [v]
        while stack:
            c = stack.pop()
            if c.op == "binop" and c.args[0] == "&":
                stack.extend(c.args[1:])
            else:
                parts.append(c)
        out = []
        comp = {"!=": "==", "==": "!=", ">=": "<", ">": "<="}
        for c in parts:
            if c.op == "cmp" and c.args[0] in comp:
                a = self.predicate(T("cmp", comp[c.args[0]], c.args[1], c.args[2]))
                if a is None:
                    return None
                out.extend(a)
            elif c.op == "unop" and c.args[0] == "~":
                a = self.predicate(c.args[1])
                if a is None:
                    return None
                out.extend(a)
            else:
                return None
        return out

    def role(self, pos):
        """Semantic role of a region position from what fills it."""
        forms = self.cell.get(pos) or []
        if not forms:
            return "?"
        roles = set()
        for f in forms:
            roles.add(classify(erase_R(f)))
        if len(roles) == 1:
            return roles.pop()
        return "mixed:" + "/".join(sorted(roles))


def classify(lin):
    """Name a reducer normal form (R erased)."""
    items = {k: v for k, v in lin.items() if v != 0}
    keys = list(items)
    if len(keys) == 1 and items[keys[0]] == 1:
        k = keys[0]
        if k == ("COUNT",):
            return "COUNT"
        if k[0] == "SUM":
            r = k[1]
            if is_validity(r):
                return "VALIDCOUNT"
            if r[0] == "MUL" and any(is_validity(x) for x in r[1:]):
                return "WEIGHTED-VALIDCOUNT"
            if r[0] == "ZEROAT" and r[1][0] == "MUL" and any(is_validity(x) for x in r[1][1:]):
                return "WEIGHTED-VALIDCOUNT"
            if r[0] == "NOT" and is_validity(r[1]):
                return "MISSINGCOUNT"
            return "SUM"
        if k[0] == "MULS":
            return "SCALED-" + classify({k[2]: 1})
        if k[0] == "IF":
            return "IF(%s: %s | %s)" % (k[1], classify(dict(k[2])), classify(dict(k[3])) if k[3] else "0")
    if len(keys) == 2 and items.get(("COUNT",)) == 1:
        other = [k for k in keys if k != ("COUNT",)][0]
        if items[other] == -1 and other[0] == "SUM":
            if is_validity(other[1]):
                return "MISSINGCOUNT"
            return "COUNT-minus-%s" % classify({other: 1})
    if not keys:
        return "ZERO"
    return "OTHER"


def is_validity(r):
    if r[0] == "VALID":
        return True
    if r[0] == "AND":
        return all(is_validity(x) for x in r[1:])
    if r[0] == "ALLCOLS":
        return is_validity(r[1])
    return False
