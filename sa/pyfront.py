"""pyfront: parse /repo/src/catii/*.py (and the pure-Python functions of the .pyx),
build module / class / function tables and resolve names.  Nothing is imported."""
import ast
import os
import re

from . import core


class FuncInfo:
    def __init__(self, module, qualname, node, cls=None):
        self.module = module
        self.qualname = qualname  # "iindex.append" or "fit_dtype"
        self.node = node
        self.cls = cls
        decos = [_deco_name(d) for d in getattr(node, "decorator_list", [])]
        self.is_static = "staticmethod" in decos
        self.is_classmethod = "classmethod" in decos
        self.is_property = "property" in decos
        self.is_generator = node is not None and any(
            isinstance(n, (ast.Yield, ast.YieldFrom)) for n in _own_nodes(node)
        )
        self.opaque = False  # Cython kernel: signature only

    @property
    def name(self):
        return self.node.name if self.node is not None else self.qualname.split(".")[-1]

    @property
    def fq(self):
        return "%s:%s" % (self.module, self.qualname)

    def params(self):
        a = self.node.args
        names = [x.arg for x in a.posonlyargs + a.args]
        return names

    def __repr__(self):
        return "<func %s>" % self.fq


def _deco_name(d):
    if isinstance(d, ast.Name):
        return d.id
    if isinstance(d, ast.Attribute):
        return d.attr
    if isinstance(d, ast.Call):
        return _deco_name(d.func)
    return None


def _own_nodes(fn):
    """Nodes of a function body, not descending into nested defs/lambdas/classes."""
    stack = list(fn.body)
    while stack:
        n = stack.pop()
        yield n
        for c in ast.iter_child_nodes(n):
            if isinstance(c, (ast.FunctionDef, ast.AsyncFunctionDef, ast.Lambda, ast.ClassDef)):
                continue
            stack.append(c)


class ClassInfo:
    def __init__(self, module, name, node):
        self.module = module
        self.name = name
        self.node = node
        self.base_names = []
        for b in node.bases:
            if isinstance(b, ast.Name):
                self.base_names.append(b.id)
            elif isinstance(b, ast.Attribute):
                self.base_names.append(b.attr)
        self.methods = {}
        self.attrs = {}  # class-level assignments: name -> ast expr

    @property
    def fq(self):
        return "%s:%s" % (self.module, self.name)

    def __repr__(self):
        return "<class %s>" % self.fq


class ModuleInfo:
    def __init__(self, name, path, tree, source):
        self.name = name
        self.path = path
        self.tree = tree
        self.source = source
        self.functions = {}
        self.classes = {}
        self.imports = {}  # local name -> ("module", dotted) | ("from", module, name, level)
        self.consts = {}  # module-level simple assignments: name -> ast expr


class _LoopToComp(ast.NodeTransformer):
    """`name = []` immediately followed by `for t in it: [if c: ...] name.append(elt)` is read as
    `name = [elt for t in it if c ...]` - the same list, and the form every rule is written for.  Applied only when the
    loop does nothing else, `name` is not mentioned inside the loop apart from the append, and the loop target is not
    read after the loop (a comprehension's target does not leak)."""

    def _rewrite(self, stmts, fn):
        out = []
        i = 0
        while i < len(stmts):
            a = stmts[i]
            b = stmts[i + 1] if i + 1 < len(stmts) else None
            comp = self._match(a, b, stmts[i + 2:], fn) if b is not None else None
            if comp is not None:
                out.append(ast.copy_location(ast.Assign([ast.Name(a.targets[0].id, ast.Store())], comp), a))
                ast.fix_missing_locations(out[-1])
                i += 2
            else:
                out.append(a)
                i += 1
        return out

    def _match(self, a, b, after, fn):
        if not (isinstance(a, ast.Assign) and len(a.targets) == 1 and isinstance(a.targets[0], ast.Name) and isinstance(a.value, ast.List) and not a.value.elts):
            return None
        if not (isinstance(b, ast.For) and not b.orelse and len(b.body) == 1):
            return None
        name = a.targets[0].id
        conds = []
        s = b.body[0]
        while isinstance(s, ast.If) and not s.orelse and len(s.body) == 1:
            conds.append(s.test)
            s = s.body[0]
        if not (isinstance(s, ast.Expr) and isinstance(s.value, ast.Call) and isinstance(s.value.func, ast.Attribute) and s.value.func.attr == "append"
                and isinstance(s.value.func.value, ast.Name) and s.value.func.value.id == name and len(s.value.args) == 1 and not s.value.keywords):
            return None
        elt = s.value.args[0]
        mentions = [n for part in [elt, b.iter] + conds for n in ast.walk(part) if isinstance(n, ast.Name) and n.id == name]
        if mentions:
            return None
        tnames = {n.id for n in ast.walk(b.target) if isinstance(n, ast.Name)}
        for st in after:
            # a later read of the loop target would see the leaked value - unless that statement binds the name itself
            # first (another loop or comprehension over the same name)
            rebound = {n.id for x in ast.walk(st) if isinstance(x, (ast.For, ast.comprehension)) for n in ast.walk(x.target) if isinstance(n, ast.Name)}
            rebound |= {x.name for x in ast.walk(st) if isinstance(x, ast.FunctionDef)}
            for n in ast.walk(st):
                if isinstance(n, ast.Name) and n.id in tnames and isinstance(n.ctx, ast.Load) and n.id not in rebound:
                    return None
        comp = ast.ListComp(elt, [ast.comprehension(b.target, b.iter, conds, 0)])
        return ast.copy_location(comp, b)

    def generic_visit(self, node):
        super().generic_visit(node)
        for field in ("body", "orelse", "finalbody"):
            v = getattr(node, field, None)
            if isinstance(v, list) and v and isinstance(v[0], ast.stmt):
                setattr(node, field, self._rewrite(v, node))
        return node


def desugar(tree):
    return _LoopToComp().visit(tree)


class Program:
    def __init__(self, repo=None):
        self.repo = repo or core.REPO
        self.src = os.path.join(self.repo, "src", "catii")
        self.modules = {}
        for fn in sorted(os.listdir(self.src)):
            if fn.endswith(".py"):
                name = fn[:-3]
                path = os.path.join(self.src, fn)
                with open(path) as f:
                    source = f.read()
                tree = desugar(ast.parse(source, filename=path))
                self._load(name, path, tree, source)
        self._load_pyx()

    # ------------------------------------------------------------------
    def _load(self, name, path, tree, source):
        m = ModuleInfo(name, path, tree, source)
        for node in tree.body:
            if isinstance(node, ast.FunctionDef):
                m.functions[node.name] = FuncInfo(name, node.name, node)
            elif isinstance(node, ast.ClassDef):
                c = ClassInfo(name, node.name, node)
                for sub in node.body:
                    if isinstance(sub, ast.FunctionDef):
                        c.methods[sub.name] = FuncInfo(name, "%s.%s" % (node.name, sub.name), sub, c)
                    elif isinstance(sub, ast.Assign):
                        for t in sub.targets:
                            if isinstance(t, ast.Name):
                                c.attrs[t.id] = sub.value
                m.classes[node.name] = c
            elif isinstance(node, ast.Import):
                for a in node.names:
                    local = a.asname or a.name.split(".")[0]
                    m.imports[local] = ("module", a.name if a.asname else a.name.split(".")[0])
            elif isinstance(node, ast.ImportFrom):
                for a in node.names:
                    m.imports[a.asname or a.name] = ("from", node.module or "", a.name, node.level)
            elif isinstance(node, ast.Assign):
                for t in node.targets:
                    if isinstance(t, ast.Name):
                        m.consts[t.id] = node.value
        self.modules[name] = m
        return m

    def _load_pyx(self):
        """Pure-Python top-level defs of set_operations.pyx are parsed with `ast`;
        the cdef-typed kernels are registered as opaque functions (analysed by cyfront)."""
        path = os.path.join(self.src, "set_operations.pyx")
        if not os.path.exists(path):
            return
        with open(path) as f:
            lines = f.read().split("\n")
        blocks = []  # (start, end) of top-level def blocks including decorators
        i = 0
        n = len(lines)
        while i < n:
            if re.match(r"^(def|@)", lines[i]):
                start = i
                while not lines[i].startswith("def "):
                    i += 1
                i += 1
                while i < n and (lines[i].startswith((" ", "\t")) or not lines[i].strip()):
                    i += 1
                blocks.append((start, i))
            else:
                i += 1
        m = ModuleInfo("set_operations", path, None, "\n".join(lines))
        m.imports["numpy"] = ("module", "numpy")
        for s, e in blocks:
            text = "\n".join(lines[s:e])
            mname = re.search(r"^def\s+(\w+)", text, re.M).group(1)
            try:
                tree = ast.parse("\n" * s + text)  # keep real line numbers
                node = tree.body[0]
                if any(_deco_name(d) in ("boundscheck", "wraparound") for d in node.decorator_list):
                    raise SyntaxError("kernel")
                m.functions[mname] = FuncInfo("set_operations", mname, node)
            except SyntaxError:
                fi = FuncInfo("set_operations", mname, None)
                fi.opaque = True
                fi.is_generator = False
                m.functions[mname] = fi
        self.modules["set_operations"] = m

    # ------------------------------------------------------------------
    def module(self, name):
        return self.modules[name]

    def func(self, module, qualname):
        m = self.modules[module]
        if "." in qualname:
            c, meth = qualname.split(".", 1)
            return m.classes[c].methods[meth]
        return m.functions[qualname]

    def cls(self, module, name):
        return self.modules[module].classes[name]

    def find_class(self, name):
        for m in self.modules.values():
            if name in m.classes:
                return m.classes[name]
        return None

    def all_functions(self):
        for m in self.modules.values():
            for f in m.functions.values():
                yield f
            for c in m.classes.values():
                for f in c.methods.values():
                    yield f

    def all_classes(self):
        for m in self.modules.values():
            for c in m.classes.values():
                yield c

    def mro(self, cls):
        """Repo classes in the MRO (single inheritance everywhere in this repo)."""
        out = [cls]
        for b in cls.base_names:
            bc = self.modules[cls.module].classes.get(b) or self.find_class(b)
            if bc is not None:
                out.extend(self.mro(bc))
        return out

    def external_bases(self, cls):
        out = []
        for c in self.mro(cls):
            for b in c.base_names:
                if self.find_class(b) is None:
                    out.append(b)
        return out

    def lookup_method(self, cls, name, after=None):
        """FuncInfo of cls.name through the MRO (starting after class `after` for super())."""
        mro = self.mro(cls)
        if after is not None and after in mro:
            mro = mro[mro.index(after) + 1 :]
        for c in mro:
            if name in c.methods:
                return c.methods[name]
        return None

    def lookup_class_attr(self, cls, name):
        for c in self.mro(cls):
            if name in c.attrs:
                return c, c.attrs[name]
        return None, None

    def subclasses(self, cls, strict=False):
        out = []
        for c in self.all_classes():
            if cls in self.mro(c) and (c is not cls or not strict):
                out.append(c)
        return out

    def overriders(self, cls, name):
        """All implementations a call on a receiver of static type `cls` may reach."""
        seen = []
        for c in self.subclasses(cls):
            f = self.lookup_method(c, name)
            if f is not None and f not in seen:
                seen.append(f)
        concrete = [f for f in seen if not is_abstract(f)]
        return concrete or seen

    def resolve_import(self, modname, local):
        """What a module-level name bound by an import refers to."""
        m = self.modules[modname]
        imp = m.imports.get(local)
        if imp is None:
            return None
        if imp[0] == "module":
            return ("ext", imp[1])
        _, frm, name, level = imp
        if level >= 1:
            if frm == "":
                # from . import ffuncs
                if name in self.modules:
                    return ("module", name)
                return ("ext", "catii." + name)
            if frm in self.modules:
                tm = self.modules[frm]
                if name in tm.functions:
                    return ("func", tm.functions[name])
                if name in tm.classes:
                    return ("class", tm.classes[name])
                if name in tm.consts:
                    return ("const", frm, name)
            return ("ext", "catii.%s.%s" % (frm, name))
        return ("ext", "%s.%s" % (frm, name))


def is_abstract(fi):
    """Body is (docstring +) `raise NotImplementedError`."""
    body = [b for b in fi.node.body if not (isinstance(b, ast.Expr) and isinstance(b.value, ast.Constant))]
    if len(body) != 1 or not isinstance(body[0], ast.Raise):
        return False
    exc = body[0].exc
    if isinstance(exc, ast.Call):
        exc = exc.func
    return isinstance(exc, ast.Name) and exc.id == "NotImplementedError"


def loc(fi, node=None):
    """Human-readable location: module:qualname@line (the @line part is never used as a key)."""
    if node is not None and hasattr(node, "lineno"):
        return "%s@%d" % (fi.fq, node.lineno)
    return fi.fq


def norm_src(node):
    """Normalised source text of a node (ast.unparse: independent of layout/comments)."""
    try:
        return ast.unparse(node)
    except Exception:
        return type(node).__name__
