"""Type hints for receivers the walker cannot infer (documented protocol of catii).
Part of the trusted base: each line is a fact stated in the repo's docstrings."""

PARAM_TYPES = {
    # (qualname or '*.method', parameter) -> 'Class' | '[Class]'
    ("ccube.__init__", "dims"): "[iindex]",
    ("ccube.calculate", "funcs"): "[ffunc]",
    ("xcube.calculate", "funcs"): "[xfunc]",
    ("ccube._walk", "dims"): "[iindex]",
    ("iindex.append", "other"): "iindex",
    ("column_stack", "iindexes"): "[iindex]",
    ("iindex.common_common", "iindexes"): "[iindex]",
    ("*.get_initial_regions", "cube"): None,  # filled per module below
    ("*.reduce", "cube"): None,
}

FIELD_TYPES = {
    ("ccube", "dims"): "[iindex]",
}


def param_types_for(module):
    d = dict(PARAM_TYPES)
    cube = "ccube" if module == "ffuncs" else "xcube" if module == "xfuncs" else None
    for k in list(d):
        if d[k] is None:
            if cube:
                d[k] = cube
            else:
                del d[k]
    return d
