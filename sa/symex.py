"""Symbolic walker over structured Python code (engines P and F of DESIGN section 3).

It executes a function abstractly, ONCE, with:
  * an environment  name -> term  (sa.terms), joined at merges with guarded phis;
  * a guard stack (conditions known to hold), extended permanently when a branch
    ends abruptly (`if c: continue` guards the rest of the block with `not c`);
  * a loop stack (loop bodies are entered once, loop variables are symbolic);
  * calls to repo-internal functions inlined (bounded depth, no recursion),
    closures, bound methods, constructors, properties and virtual dispatch
    (all overriders) resolved through pyfront and a small table of type hints;
and it emits EVENTS (call, store_sub, store_attr, aug_name, del_sub, return, raise,
yield, with) each tagged with guards / loops / try-context / inline stack.

No code of the analysed program is ever run; no solver is involved.  Conditions are
folded only when they are constant or when a rule-supplied ORACLE (configuration
partial evaluation, DESIGN 3.4) decides them.
"""
import ast

from . import terms as tm
from .terms import T, const, NONE, phi, attr as mkattr, sub as mksub, call as mkcall, ext, unknown

BUILTINS = {
    "len", "max", "min", "sum", "range", "zip", "enumerate", "isinstance", "tuple", "list",
    "dict", "set", "sorted", "reversed", "type", "int", "float", "bool", "str", "bytes",
    "hasattr", "getattr", "setattr", "any", "all", "print", "repr", "iter", "next", "map",
    "filter", "abs", "super", "staticmethod", "classmethod", "property", "object", "id",
    "TypeError", "ValueError", "RuntimeError", "AttributeError", "KeyError", "IndexError",
    "NotImplementedError", "AssertionError", "Exception", "BaseException", "RuntimeWarning",
    "OverflowError", "StopIteration", "KeyboardInterrupt", "divmod", "round", "slice", "open",
    "frozenset", "callable", "vars", "dir", "hash", "chr", "ord", "format", "issubclass",
}

LIST_MUTATORS = {"append", "extend", "insert"}
STATEFUL_METHODS = {"read", "readline", "readinto", "tell", "pop", "popitem", "recv", "__next__"}
STATEFUL_FUNCS = {"time.time", "time.perf_counter", "builtins.next", "builtins.id", "builtins.input",
                  # array constructors: two calls with equal arguments are two different buffers
                  "numpy.zeros", "numpy.ones", "numpy.empty", "numpy.full", "numpy.zeros_like", "numpy.ones_like",
                  "numpy.empty_like", "numpy.full_like"}


class Event:
    __slots__ = ("kind", "fi", "node", "guards", "loops", "trys", "stack", "seq", "d")

    def __init__(self, kind, fi, node, guards, loops, trys, stack, seq, d):
        self.kind = kind
        self.fi = fi
        self.node = node
        self.guards = guards
        self.loops = loops
        self.trys = trys
        self.stack = stack
        self.seq = seq
        self.d = d

    def __getitem__(self, k):
        return self.d.get(k)

    def get(self, k, default=None):
        return self.d.get(k, default)

    @property
    def line(self):
        return getattr(self.node, "lineno", 0)

    def where(self):
        return "%s@%d" % (self.fi.fq, self.line)

    def src(self):
        try:
            return ast.unparse(self.node)
        except Exception:
            return self.kind

    def __repr__(self):
        return "<%s %s %s>" % (self.kind, self.where(), {k: v for k, v in self.d.items() if k != "resolved"})


class Closure:
    def __init__(self, node, fi, env, self_term, cls, module, defining_stack):
        self.node = node  # FunctionDef or Lambda
        self.fi = fi  # pseudo FuncInfo
        self.env = env
        self.self_term = self_term
        self.cls = cls
        self.module = module
        self.defining_stack = defining_stack
        self.guards = ()


class Frame:
    def __init__(self, fi, module, cls, self_term, closure_env, stack, depth):
        self.fi = fi
        self.module = module
        self.cls = cls
        self.self_term = self_term
        self.closure_env = closure_env or {}
        self.env = {}
        self.guards = ()
        self.loops = ()
        self.trys = ()
        self.stack = stack
        self.depth = depth
        self.returns = []
        self.yields = []
        self.break_envs = []  # stack of lists
        self.cont_envs = []


class PseudoFunc:
    """FuncInfo look-alike for nested defs / lambdas."""

    def __init__(self, parent, node, name):
        self.module = parent.module
        self.qualname = "%s.<%s>" % (parent.qualname, name)
        self.node = node
        self.cls = parent.cls
        self.is_static = False
        self.is_classmethod = False
        self.is_property = False
        self.opaque = False
        self.parent = parent
        self.is_generator = (not isinstance(node, ast.Lambda)) and any(
            isinstance(n, (ast.Yield, ast.YieldFrom)) for n in _own_nodes(node)
        )

    @property
    def name(self):
        return self.qualname.split(".")[-1]

    @property
    def fq(self):
        return "%s:%s" % (self.module, self.qualname)

    def params(self):
        a = self.node.args
        return [x.arg for x in a.posonlyargs + a.args]

    def __repr__(self):
        return "<func %s>" % self.fq


def _own_nodes(fn):
    stack = list(fn.body) if isinstance(fn.body, list) else [fn.body]
    while stack:
        n = stack.pop()
        yield n
        for c in ast.iter_child_nodes(n):
            if isinstance(c, (ast.FunctionDef, ast.AsyncFunctionDef, ast.Lambda, ast.ClassDef)):
                continue
            stack.append(c)


def assigned_names(stmts):
    out = set()

    def tgt(t):
        if isinstance(t, ast.Name):
            out.add(t.id)
        elif isinstance(t, (ast.Tuple, ast.List)):
            for e in t.elts:
                tgt(e)
        elif isinstance(t, ast.Starred):
            tgt(t.value)

    stack = list(stmts)
    while stack:
        n = stack.pop()
        if isinstance(n, (ast.FunctionDef, ast.AsyncFunctionDef, ast.ClassDef)):
            out.add(n.name)
            continue
        if isinstance(n, ast.Lambda):
            continue
        if isinstance(n, ast.Assign):
            for t in n.targets:
                tgt(t)
        elif isinstance(n, (ast.AugAssign, ast.AnnAssign)):
            tgt(n.target)
        elif isinstance(n, (ast.For, ast.AsyncFor)):
            tgt(n.target)
        elif isinstance(n, (ast.With, ast.AsyncWith)):
            for it in n.items:
                if it.optional_vars is not None:
                    tgt(it.optional_vars)
        elif isinstance(n, ast.ExceptHandler) and n.name:
            out.add(n.name)
        elif isinstance(n, ast.NamedExpr):
            tgt(n.target)
        stack.extend(ast.iter_child_nodes(n))
    return out


class Interp:
    def __init__(self, program, param_types=None, field_types=None, oracle=None, max_depth=6,
                 inline=True, no_inline=()):
        self.prog = program
        self.param_types = param_types or {}
        self.field_types = field_types or {}
        self.oracle = oracle
        self.max_depth = max_depth
        self.do_inline = inline
        self.no_inline = set(no_inline)
        self.events = []
        self.heap = {}  # alloc term -> {"elts": [...], "items": [...]}
        self.loopinfo = {}
        self.tryinfo = {}
        self.closures = {}
        self.backedge = {}  # (name, lid) -> term
        self.alloc_class = {}  # alloc term -> ClassInfo
        self.alloc_site = {}  # alloc term -> (fi, node)
        self._n = 0
        self._const_cache = {}
        self.unresolved_calls = []
        self.depth_cuts = []

    # ------------------------------------------------------------------ ids
    def fresh(self, prefix):
        self._n += 1
        return "%s%d" % (prefix, self._n)

    def emit(self, fr, kind, node, **d):
        ev = Event(kind, fr.fi, node, fr.guards, fr.loops, fr.trys, fr.stack, len(self.events), d)
        self.events.append(ev)
        return ev

    def alloc(self, fr, kind, node, cls=None):
        site = "%s@%s#%d" % (fr.fi.qualname, getattr(node, "lineno", 0), len(self.alloc_site))
        t = T("alloc", kind, site)
        t.node = node
        self.heap[t] = {"elts": [], "items": [], "elts_at": [], "items_at": []}
        self.alloc_site[t] = (fr.fi, node, fr.stack)
        if cls is not None:
            self.alloc_class[t] = cls
        return t

    # ------------------------------------------------------------- running
    def run(self, fi, args=None, self_term=None, kwargs=None, fields=None):
        """Analyse `fi` as a root: parameters are symbolic unless given in args.
        `fields` pre-binds attributes of self: {attr: term}."""
        cls = fi.cls
        self.root_fi = fi
        fr = Frame(fi, fi.module, cls, None, None, (), 0)
        names = fi.params()
        a = fi.node.args
        args = dict(args or {})
        first = True
        for n in names:
            if first and cls is not None and not fi.is_static:
                first = False
                if fi.is_classmethod:
                    fr.env[n] = args.get(n, T("class", cls.fq))
                    fr.cls_term = fr.env[n]
                else:
                    fr.env[n] = self_term if self_term is not None else args.get(n, tm.param(n))
                    fr.self_term = fr.env[n]
                continue
            first = False
            fr.env[n] = args.get(n, tm.param(n))
        if a.vararg:
            fr.env[a.vararg.arg] = args.get(a.vararg.arg, tm.param("*" + a.vararg.arg))
        if a.kwarg:
            fr.env[a.kwarg.arg] = args.get(a.kwarg.arg, tm.param("**" + a.kwarg.arg))
        for k in a.kwonlyargs:
            fr.env[k.arg] = args.get(k.arg, tm.param(k.arg))
        if fields and fr.self_term is not None:
            for k, v in fields.items():
                fr.env[("f", fr.self_term, k)] = v
        self.exec_block(fr, fi.node.body)
        return fr

    def fields_of(self, fr, obj=None):
        """{attr: term} bound on obj (default: the frame's self) at the end of a run."""
        obj = obj if obj is not None else fr.self_term
        return {k[2]: v for k, v in fr.env.items() if isinstance(k, tuple) and k[0] == "f" and k[1] == obj}

    def call_closure(self, fr, clo_term, args):
        """Run a closure value (e.g. the _fill function returned by fill_func) with symbolic arguments."""
        out = []
        for a in tm.alts(clo_term):
            if a.op == "closure":
                clo = self.closures[a.args[0]]
                self.emit(fr, "call", clo.node, f=a, args=tuple(args), kwargs=(), recv=None, name=clo.fi.fq, method=None, resolved=[clo.fi], via="closure", result=None)
                out.append(self.inline(fr, clo.fi, list(args), {}, clo.node, None, clo))
        return out

    def result_of(self, fr):
        if fr.fi.is_generator:
            return T("gen", phi([v for v, _ in fr.yields]) if fr.yields else unknown("no-yield"))
        if not fr.returns:
            return NONE
        return _merge_returns(fr.returns)

    # ---------------------------------------------------------- statements
    def exec_block(self, fr, stmts):
        for s in stmts:
            if not self.exec_stmt(fr, s):
                return False
        return True

    def exec_stmt(self, fr, s):
        m = getattr(self, "st_" + type(s).__name__, None)
        if m is None:
            self.emit(fr, "unsupported", s, what=type(s).__name__)
            return True
        return m(fr, s)

    def st_Pass(self, fr, s):
        return True

    def st_Expr(self, fr, s):
        self.eval(fr, s.value)
        return True

    def st_Global(self, fr, s):
        return True

    st_Nonlocal = st_Global

    def st_Import(self, fr, s):
        for a in s.names:
            local = a.asname or a.name.split(".")[0]
            fr.env[local] = ext(a.name if a.asname else a.name.split(".")[0])
        return True

    def st_ImportFrom(self, fr, s):
        for a in s.names:
            local = a.asname or a.name
            if s.level >= 1 and (s.module or "") == "" and a.name in self.prog.modules:
                fr.env[local] = T("module", a.name)
            elif s.level >= 1 and s.module in self.prog.modules:
                fr.env[local] = self.module_name(s.module, a.name)
            else:
                fr.env[local] = ext("%s.%s" % (s.module, a.name))
        return True

    def st_Assert(self, fr, s):
        c = self.eval(fr, s.test)
        self.emit(fr, "assert", s, test=c)
        fr.guards = fr.guards + ((c, True),)
        return True

    def st_Assign(self, fr, s):
        v = self.eval(fr, s.value)
        for t in s.targets:
            self.bind(fr, t, v, s)
        return True

    def st_AnnAssign(self, fr, s):
        if s.value is not None:
            self.bind(fr, s.target, self.eval(fr, s.value), s)
        return True

    def st_AugAssign(self, fr, s):
        rhs = self.eval(fr, s.value)
        op = _opname(s.op)
        t = s.target
        if isinstance(t, ast.Name):
            old = self.lookup(fr, t.id, t)
            new = self.binop(op, old, rhs)
            self.emit(fr, "aug_name", s, name=t.id, old=old, rhs=rhs, op=op, new=new)
            fr.env[t.id] = new
        elif isinstance(t, ast.Attribute):
            base = self.eval(fr, t.value)
            old = self.load_attr(fr, base, t.attr, t)
            new = self.binop(op, old, rhs)
            self.emit(fr, "store_attr", s, base=base, attr=t.attr, value=new, aug=op, old=old, rhs=rhs)
            fr.env[("f", base, t.attr)] = new
        elif isinstance(t, ast.Subscript):
            base = self.eval(fr, t.value)
            idx = self.eval_index(fr, t.slice)
            old = mksub(base, idx)
            new = self.binop(op, old, rhs)
            self.emit(fr, "store_sub", s, base=base, index=idx, value=new, aug=op, rhs=rhs)
            self.heap_store(base, idx, new, fr)
        return True

    def st_Delete(self, fr, s):
        for t in s.targets:
            if isinstance(t, ast.Subscript):
                base = self.eval(fr, t.value)
                idx = self.eval_index(fr, t.slice)
                self.emit(fr, "del_sub", s, base=base, index=idx)
            elif isinstance(t, ast.Attribute):
                base = self.eval(fr, t.value)
                self.emit(fr, "del_attr", s, base=base, attr=t.attr)
            elif isinstance(t, ast.Name):
                fr.env.pop(t.id, None)
        return True

    def st_Return(self, fr, s):
        v = self.eval(fr, s.value) if s.value is not None else NONE
        fr.returns.append((v, fr.guards))
        self.emit(fr, "return", s, value=v)
        return False

    def st_Raise(self, fr, s):
        v = self.eval(fr, s.exc) if s.exc is not None else T("reraise")
        self.emit(fr, "raise", s, exc=v)
        return False

    def st_Break(self, fr, s):
        self.emit(fr, "break", s)
        if fr.break_envs:
            fr.break_envs[-1].append(dict(fr.env))
        return False

    def st_Continue(self, fr, s):
        self.emit(fr, "continue", s)
        if fr.cont_envs:
            fr.cont_envs[-1].append(dict(fr.env))
        return False

    def st_FunctionDef(self, fr, s):
        pf = PseudoFunc(fr.fi, s, s.name)
        cid = self.fresh("c")
        # a nested function that REBINDS variables of this frame (`nonlocal x`): the snapshot model below does not follow
        # such writes, so from here on those variables are unknown - in this frame and inside the closure
        rebound = [n for st in ast.walk(s) if isinstance(st, ast.Nonlocal) for n in st.names]
        for n in rebound:
            if n in fr.env:
                fr.env[n] = unknown("nonlocal:" + n)
        self.closures[cid] = Closure(s, pf, dict(fr.env), fr.self_term, fr.cls, fr.module, fr.stack)
        self.closures[cid].guards = fr.guards
        # closures see later rebinding of captured names only through this snapshot plus
        # the enclosing closure chain
        self.closures[cid].outer = fr.closure_env
        t = T("closure", cid)
        t.node = s
        fr.env[s.name] = t
        return True

    def st_ClassDef(self, fr, s):
        fr.env[s.name] = unknown("local-class")
        return True

    def st_If(self, fr, s):
        c = self.eval(fr, s.test)
        body, orelse = s.body, s.orelse
        # `if not c: A else: B` is `if c: B else: A`: guards, joins and phi terms never carry a leading `not`
        while c.op == "not":
            c = c.args[0]
            body, orelse = orelse, body
        tv = self.truth(c, fr)
        if tv is True:
            return self.exec_block(fr, body)
        if tv is False:
            return self.exec_block(fr, orelse)
        env0, g0 = fr.env, fr.guards
        fr.env, fr.guards = dict(env0), g0 + ((c, True),)
        live_t = self.exec_block(fr, body)
        env_t = fr.env
        fr.env, fr.guards = dict(env0), g0 + ((c, False),)
        live_f = self.exec_block(fr, orelse)
        env_f = fr.env
        if live_t and live_f:
            fr.env, fr.guards = self.join(env_t, env_f, c), g0
        elif live_t:
            fr.env, fr.guards = env_t, g0 + ((c, True),)
        elif live_f:
            fr.env, fr.guards = env_f, g0 + ((c, False),)
        else:
            fr.env, fr.guards = env0, g0
            return False
        return True

    def join(self, a, b, c=None):
        out = {}
        for k in set(a) | set(b):
            va, vb = a.get(k), b.get(k)
            if va is None:
                out[k] = vb
            elif vb is None:
                out[k] = va
            elif va == vb:
                out[k] = va
            elif c is not None:
                out[k] = T("ifexp", c, va, vb)
            else:
                out[k] = phi([va, vb])
        return out

    def join_many(self, envs):
        if not envs:
            return {}
        out = dict(envs[0])
        for e in envs[1:]:
            out = self.join(out, e)
        return out

    def _loop(self, fr, s, lid, head):
        """Common part of for/while. `head(fr)` binds targets / evaluates the test and
        returns False when the loop can never be entered."""
        g0, l0 = fr.guards, fr.loops
        assigned = assigned_names(s.body)
        pre = dict(fr.env)
        for n in assigned:
            if n in pre:
                fr.env[n] = phi([pre[n], T("loopvar", n, lid)])
        fr.loops = l0 + (lid,)
        fr.break_envs.append([])
        fr.cont_envs.append([])
        entered = head(fr)
        live = self.exec_block(fr, s.body) if entered else False
        ends = fr.cont_envs.pop()
        if live:
            ends.append(fr.env)
        breaks = fr.break_envs.pop()
        end_env = self.join_many(ends) if ends else {}
        for n in assigned:
            if n in end_env:
                self.backedge[(n, lid)] = end_env[n]
        fr.guards, fr.loops = g0, l0
        # normal exit: zero iterations, or after some iteration
        after = dict(pre)
        for n in assigned:
            vals = [pre.get(n), end_env.get(n)]
            vals = [v for v in vals if v is not None]
            if vals:
                after[n] = phi(vals)
        for k, v in end_env.items():
            if isinstance(k, tuple) and pre.get(k) != v:
                after[k] = phi([x for x in (pre.get(k), v) if x is not None])
        return after, breaks

    def st_For(self, fr, s):
        it = self.eval(fr, s.iter)
        lid = self.fresh("L")
        self.loopinfo[lid] = {"kind": "for", "iter": it, "node": s, "fi": fr.fi}
        elem = self.element_of(it, lid)

        def head(fr):
            self.bind(fr, s.target, elem, s)
            return True

        after, breaks = self._loop(fr, s, lid, head)
        fr.env = after
        live = True
        if s.orelse:
            live = self.exec_block(fr, s.orelse)
        envs = ([fr.env] if live else []) + breaks
        if not envs:
            return False
        fr.env = self.join_many(envs)
        return True

    def st_While(self, fr, s):
        lid = self.fresh("L")
        const_true = isinstance(s.test, ast.Constant) and bool(s.test.value)
        self.loopinfo[lid] = {"kind": "while", "test": None, "node": s, "fi": fr.fi}

        def head(fr):
            c = self.eval(fr, s.test)
            self.loopinfo[lid]["test"] = c
            if not const_true:
                fr.guards = fr.guards + ((c, True),)
            return True

        after, breaks = self._loop(fr, s, lid, head)
        envs = list(breaks)
        if not const_true:
            fr.env = after
            live = True
            if s.orelse:
                live = self.exec_block(fr, s.orelse)
            if live:
                envs.append(fr.env)
        if not envs:
            return False
        fr.env = self.join_many(envs)
        return True

    def st_With(self, fr, s):
        for item in s.items:
            ctx = self.eval(fr, item.context_expr)
            var = T("enter", ctx)
            if ctx.op == "call" and tm.dotted(ctx.args[0]) == "contextlib.closing" and ctx.args[1]:
                var = ctx.args[1][0]
            elif ctx.op == "call" and _self_entering(ctx):
                var = ctx  # pools and executors return themselves from __enter__
            self.emit(fr, "with", s, ctx=ctx, var=var)
            if item.optional_vars is not None:
                self.bind(fr, item.optional_vars, var, s)
        wid = self.fresh("W")
        self.tryinfo[wid] = {"kind": "with", "node": s, "ctx": [self.events[-1]["ctx"]]}
        t0 = fr.trys
        fr.trys = t0 + (wid,)
        live = self.exec_block(fr, s.body)
        fr.trys = t0
        return live

    def st_Try(self, fr, s):
        tid = self.fresh("T")
        handlers = []
        for h in s.handlers:
            ty = self.eval(fr, h.type) if h.type is not None else T("anyexc")
            last = h.body[-1] if h.body else None
            handlers.append({"type": ty, "node": h, "reraises": _always_raises(h.body)})
        self.tryinfo[tid] = {"kind": "try", "node": s, "handlers": handlers, "fi": fr.fi}
        env0, g0, t0 = dict(fr.env), fr.guards, fr.trys
        fr.trys = t0 + (tid,)
        live_b = self.exec_block(fr, s.body)
        fr.trys = t0
        env_b = fr.env
        outs = []
        if live_b:
            fr.guards = g0
            if s.orelse:
                if self.exec_block(fr, s.orelse):
                    outs.append(fr.env)
            else:
                outs.append(env_b)
        for h, hi in zip(s.handlers, handlers):
            fr.env = self.join(env0, env_b)
            fr.guards = g0 + ((T("exc", tid, hi["type"]), True),)
            if h.name:
                fr.env[h.name] = T("excval", tid)
            if self.exec_block(fr, h.body):
                outs.append(fr.env)
        fr.guards = g0
        if not outs:
            if s.finalbody:
                fr.env = self.join(env0, env_b)
                self.exec_block(fr, s.finalbody)
            return False
        fr.env = self.join_many(outs)
        if s.finalbody:
            return self.exec_block(fr, s.finalbody)
        return True

    # ----------------------------------------------------------- binding
    def bind(self, fr, target, value, stmt):
        if isinstance(target, ast.Name):
            fr.env[target.id] = value
        elif isinstance(target, (ast.Tuple, ast.List)):
            n = len(target.elts)
            parts = self.destructure(value, n)
            for t, p in zip(target.elts, parts):
                if isinstance(t, ast.Starred):
                    self.bind(fr, t.value, unknown("starred-target"), stmt)
                else:
                    self.bind(fr, t, p, stmt)
        elif isinstance(target, ast.Attribute):
            base = self.eval(fr, target.value)
            self.emit(fr, "store_attr", stmt, base=base, attr=target.attr, value=value, aug=None)
            fr.env[("f", base, target.attr)] = value
        elif isinstance(target, ast.Subscript):
            base = self.eval(fr, target.value)
            idx = self.eval_index(fr, target.slice)
            self.emit(fr, "store_sub", stmt, base=base, index=idx, value=value, aug=None)
            self.heap_store(base, idx, value, fr)
        elif isinstance(target, ast.Starred):
            self.bind(fr, target.value, unknown("starred-target"), stmt)

    def destructure(self, value, n):
        if value.op in ("tuple", "list") and len(value.args) == n:
            return list(value.args)
        if value.op == "iter":
            x, lid = value.args[0], value.args[1]
            if x.op == "call":
                nm = tm.callee_name(x)
                if nm == "builtins.enumerate" and n == 2 and x.args[1]:
                    y = x.args[1][0]
                    start = x.args[1][1] if len(x.args[1]) > 1 else tm.kwarg(x, "start", const(0))
                    return [T("enumidx", y, lid, start), self.element_of(y, lid)]
                if nm == "builtins.zip" and len(x.args[1]) == n:
                    return [self.element_of(y, lid) for y in x.args[1]]
                if nm == ".items" and n == 2 and not x.args[1]:
                    d = x.args[0].args[0]
                    return [T("dkey", d, lid), T("dval", d, lid)]
            if x.op == "gen":
                inner = x.args[0]
                outs = [self.destructure(a, n) for a in tm.alts(inner)]
                return [phi([o[i] for o in outs]) for i in range(n)]
        if value.op == "ifexp":
            a = self.destructure(value.args[1], n)
            b = self.destructure(value.args[2], n)
            return [x if x == y else T("ifexp", value.args[0], x, y) for x, y in zip(a, b)]
        if value.op == "phi":
            outs = [self.destructure(a, n) for a in value.args]
            return [phi([o[i] for o in outs]) for i in range(n)]
        return [T("unpack", value, i, n) for i in range(n)]

    def element_of(self, it, lid):
        """Term for `one element obtained by iterating it` in loop lid."""
        if it.op == "gen":
            return it.args[0]
        if it.op == "call":
            nm = tm.callee_name(it)
            if nm in ("builtins.reversed", "builtins.sorted", "builtins.list", "builtins.tuple", "builtins.iter") and it.args[1]:
                inner = it.args[1][0]
                if inner.op in ("tuple", "list", "alloc", "gen", "comp"):
                    return self.element_of(inner, lid)
        return T("iter", it, lid)

    def heap_store(self, base, idx, value, fr=None):
        at = (len(self.events), fr.loops if fr is not None else ())
        for b in tm.alts(base):
            if b in self.heap:
                self.heap[b]["items"].append((idx, value))
                self.heap[b]["items_at"].append(at)

    def elements_of(self, t, seen=None):
        """Possible elements of a container term (for callee resolution)."""
        seen = seen or set()
        out = []
        for a in tm.alts(t):
            if a in seen:
                continue
            seen.add(a)
            if a.op in ("tuple", "list", "set"):
                out.extend(a.args)
            elif a.op == "alloc" and a in self.heap:
                h = self.heap[a]
                out.extend(h["elts"])
                out.extend(v for _, v in h["items"])
            elif a.op == "comp":
                out.append(a.args[1])
            elif a.op == "gen":
                out.extend(tm.alts(a.args[0]))
            elif a.op == "call" and tm.callee_name(a) in ("builtins.list", "builtins.tuple", "builtins.reversed", "builtins.sorted") and a.args[1]:
                out.extend(self.elements_of(a.args[1][0], seen))
            elif a.op == "sub" and a.args[1].op == "slice":
                out.extend(self.elements_of(a.args[0], seen))
            elif a.op == "loopvar":
                be = self.backedge.get((a.args[0], a.args[1]))
                if be is not None:
                    out.extend(self.elements_of(be, seen))
        return out

    # -------------------------------------------------------- expressions
    def eval(self, fr, e):
        m = getattr(self, "ex_" + type(e).__name__, None)
        if m is None:
            return unknown("expr:" + type(e).__name__)
        t = m(fr, e)
        if t.node is None:
            t.node = e
        return t

    def eval_index(self, fr, e):
        return self.eval(fr, e)

    def ex_Constant(self, fr, e):
        return const(e.value)

    def ex_Name(self, fr, e):
        return self.lookup(fr, e.id, e)

    def lookup(self, fr, name, node=None):
        if name in fr.env:
            return fr.env[name]
        ce = fr.closure_env
        while ce:
            if name in ce:
                return ce[name]
            ce = ce.get("__outer__")
        return self.module_name(fr.module, name)

    def module_name(self, modname, name):
        m = self.prog.modules.get(modname)
        if m is not None:
            if name in m.functions:
                return T("func", m.functions[name].fq)
            if name in m.classes:
                return T("class", m.classes[name].fq)
            if name in m.imports:
                r = self.prog.resolve_import(modname, name)
                if r[0] == "ext":
                    return ext(r[1])
                if r[0] == "module":
                    return T("module", r[1])
                if r[0] == "func":
                    return T("func", r[1].fq)
                if r[0] == "class":
                    return T("class", r[1].fq)
                if r[0] == "const":
                    return self.module_const(r[1], r[2])
            if name in m.consts:
                return self.module_const(modname, name)
        if name in BUILTINS:
            return ext("builtins." + name)
        return T("global", modname, name)

    def module_const(self, modname, name):
        key = (modname, name)
        if key not in self._const_cache:
            self._const_cache[key] = T("global", modname, name)  # recursion guard
            m = self.prog.modules[modname]
            expr = m.consts[name]
            if isinstance(expr, (ast.Dict, ast.List, ast.Set)):
                # module-level mutable: keep identity, do not expand
                self._const_cache[key] = T("global", modname, name)
            else:
                from .pyfront import FuncInfo

                class _M:  # minimal pseudo function for a module-level frame
                    pass

                pf = _M()
                pf.module = modname
                pf.qualname = "<module>"
                pf.cls = None
                pf.fq = "%s:<module>" % modname
                pf.is_generator = False
                fr = Frame(pf, modname, None, None, None, (), 0)
                n0 = len(self.events)
                v = self.eval(fr, expr)
                del self.events[n0:]
                self._const_cache[key] = v
        return self._const_cache[key]

    def ex_Attribute(self, fr, e):
        base = self.eval(fr, e.value)
        return self.load_attr(fr, base, e.attr, e)

    def load_attr(self, fr, base, name, node=None):
        k = ("f", base, name)
        if k in fr.env:
            return fr.env[k]
        if base.op == "ext":
            return ext(base.args[0] + "." + name)
        if base.op == "module":
            return self.module_name(base.args[0], name)
        if base.op == "class":
            ci = self.class_by_fq(base.args[0])
            f = self.prog.lookup_method(ci, name)
            if f is not None:
                return T("func", f.fq)
            c, expr = self.prog.lookup_class_attr(ci, name)
            if expr is not None and isinstance(expr, ast.Constant):
                return const(expr.value)
            return T("attr", base, name)
        if base.op == "super":
            return T("attr", base, name)
        # property of a repo class?
        ty = self.type_of(fr, base)
        if ty is not None and ty[0] == "inst":
            f = self.prog.lookup_method(ty[1], name)
            if f is not None and f.is_property:
                ev = self.emit(fr, "call", node, f=T("func", f.fq), args=(), kwargs=(), recv=base,
                               name=f.fq, resolved=[f], via="property", result=None)
                res = self.inline(fr, f, [base], {}, node, base)
                if res is None:
                    res = T("attr", base, name)
                ev.d["result"] = res
                return res
        if base.op == "alloc" and ("f", base, "__class__") not in fr.env and name == "__class__":
            ci = self.alloc_class.get(base)
            if ci is not None:
                return T("class", ci.fq)
        return T("attr", base, name)

    def class_by_fq(self, fq):
        mod, name = fq.split(":")
        return self.prog.modules[mod].classes[name]

    def func_by_fq(self, fq):
        mod, qn = fq.split(":")
        return self.prog.func(mod, qn)

    def ex_Subscript(self, fr, e):
        base = self.eval(fr, e.value)
        idx = self.eval_index(fr, e.slice)
        return self.subscript(base, idx)

    def subscript(self, base, idx):
        if base.op in ("tuple", "list") and idx.op == "const" and isinstance(idx.args[1], int) and not isinstance(idx.args[1], bool):
            i = idx.args[1]
            if -len(base.args) <= i < len(base.args):
                return base.args[i]
        if base.op == "tuple" and idx.op == "slice" and all(x.op == "const" for x in idx.args):
            lo, hi, st = (x.args[1] for x in idx.args)
            return T("tuple", *base.args[slice(lo, hi, st)])
        return mksub(base, idx)

    def ex_Slice(self, fr, e):
        f = lambda x: self.eval(fr, x) if x is not None else NONE
        return T("slice", f(e.lower), f(e.upper), f(e.step))

    def ex_Tuple(self, fr, e):
        if any(isinstance(x, ast.Starred) for x in e.elts):
            parts = []
            for x in e.elts:
                if isinstance(x, ast.Starred):
                    v = self.eval(fr, x.value)
                    if v.op in ("tuple", "list"):
                        parts.extend(v.args)
                    else:
                        parts.append(T("starred", v))
                else:
                    parts.append(self.eval(fr, x))
            return T("tuple", *parts)
        return T("tuple", *[self.eval(fr, x) for x in e.elts])

    def ex_List(self, fr, e):
        elts = [self.eval(fr, x.value if isinstance(x, ast.Starred) else x) for x in e.elts]
        a = self.alloc(fr, "list", e)
        self.heap[a]["elts"].extend(elts)
        self.heap[a]["elts_at"].extend([(len(self.events), fr.loops)] * len(elts))
        self.heap[a]["literal"] = tuple(elts)
        return a

    def ex_Set(self, fr, e):
        elts = [self.eval(fr, x) for x in e.elts]
        a = self.alloc(fr, "set", e)
        self.heap[a]["elts"].extend(elts)
        self.heap[a]["elts_at"].extend([(len(self.events), fr.loops)] * len(elts))
        self.heap[a]["literal"] = tuple(elts)
        return a

    def ex_Dict(self, fr, e):
        a = self.alloc(fr, "dict", e)
        items = []
        for k, v in zip(e.keys, e.values):
            kv = self.eval(fr, k) if k is not None else T("starstar")
            vv = self.eval(fr, v)
            items.append((kv, vv))
        self.heap[a]["items"].extend(items)
        self.heap[a]["items_at"].extend([(len(self.events), fr.loops)] * len(items))
        self.heap[a]["literal"] = tuple(items)
        return a

    def ex_JoinedStr(self, fr, e):
        return unknown("str")

    def ex_FormattedValue(self, fr, e):
        return unknown("str")

    def ex_Starred(self, fr, e):
        return T("starred", self.eval(fr, e.value))

    def ex_NamedExpr(self, fr, e):
        v = self.eval(fr, e.value)
        self.bind(fr, e.target, v, e)
        return v

    def ex_Yield(self, fr, e):
        v = self.eval(fr, e.value) if e.value is not None else NONE
        fr.yields.append((v, fr.guards))
        self.emit(fr, "yield", e, value=v)
        return unknown("sent")

    def ex_YieldFrom(self, fr, e):
        v = self.eval(fr, e.value)
        el = self.element_of(v, self.fresh("L"))
        fr.yields.append((el, fr.guards))
        self.emit(fr, "yield", e, value=el)
        return unknown("sent")

    def ex_Lambda(self, fr, e):
        pf = PseudoFunc(fr.fi, e, "lambda@%d" % e.lineno)
        cid = self.fresh("c")
        self.closures[cid] = Closure(e, pf, dict(fr.env), fr.self_term, fr.cls, fr.module, fr.stack)
        self.closures[cid].guards = fr.guards
        self.closures[cid].outer = fr.closure_env
        return T("closure", cid)

    def ex_IfExp(self, fr, e):
        c = self.eval(fr, e.test)
        body, orelse = e.body, e.orelse
        while c.op == "not":
            c = c.args[0]
            body, orelse = orelse, body
        tv = self.truth(c)
        if tv is True:
            return self.eval(fr, body)
        if tv is False:
            return self.eval(fr, orelse)
        g0 = fr.guards
        fr.guards = g0 + ((c, True),)
        a = self.eval(fr, body)
        fr.guards = g0 + ((c, False),)
        b = self.eval(fr, orelse)
        fr.guards = g0
        return T("ifexp", c, a, b)

    def ex_BoolOp(self, fr, e):
        op = "and" if isinstance(e.op, ast.And) else "or"
        vals = []
        g0 = fr.guards
        for v in e.values:
            t = self.eval(fr, v)
            tv = self.truth(t)
            if op == "and" and tv is False:
                fr.guards = g0
                return t if not vals else T("bool", op, *(vals + [t]))
            if op == "or" and tv is True:
                fr.guards = g0
                return t if not vals else T("bool", op, *(vals + [t]))
            if tv is None or True:
                vals.append(t)
            # short-circuit: later operands are evaluated under the earlier ones
            fr.guards = fr.guards + ((t, op == "and"),)
        fr.guards = g0
        if len(vals) == 1:
            return vals[0]
        return T("bool", op, *vals)

    def ex_UnaryOp(self, fr, e):
        v = self.eval(fr, e.operand)
        if isinstance(e.op, ast.Not):
            tv = self.truth(v)
            if tv is not None:
                return const(not tv)
            return T("not", v)
        op = {ast.USub: "-", ast.UAdd: "+", ast.Invert: "~"}[type(e.op)]
        if v.op == "const" and isinstance(v.args[1], (int, float)) and not isinstance(v.args[1], bool) and op in "+-":
            return const(-v.args[1] if op == "-" else v.args[1])
        return T("unop", op, v)

    def ex_BinOp(self, fr, e):
        return self.binop(_opname(e.op), self.eval(fr, e.left), self.eval(fr, e.right))

    def binop(self, op, l, r):
        if l.op == "const" and r.op == "const":
            a, b = l.args[1], r.args[1]
            if isinstance(a, int) and isinstance(b, int) and not isinstance(a, bool) and not isinstance(b, bool):
                try:
                    if op == "+":
                        return const(a + b)
                    if op == "-":
                        return const(a - b)
                    if op == "*":
                        return const(a * b)
                    if op == "**" and 0 <= b <= 128:
                        return const(a ** b)
                    if op == "<<" and 0 <= b <= 128:
                        return const(a << b)
                    if op == "//" and b:
                        return const(a // b)
                except Exception:
                    pass
        if op == "+" and l.op == "tuple" and r.op == "tuple":
            return T("tuple", *(l.args + r.args))
        return T("binop", op, l, r)

    def ex_Compare(self, fr, e):
        left = self.eval(fr, e.left)
        parts = []
        for op, comp in zip(e.ops, e.comparators):
            right = self.eval(fr, comp)
            nm = _cmpname(op)
            # canonical orientation: a literal goes to the right (`1 < len(x)` is `len(x) > 1`), so that the rules do not depend on it
            if left.op == "const" and right.op != "const" and nm in _CMP_FLIP:
                parts.append(T("cmp", _CMP_FLIP[nm], right, left))
            else:
                parts.append(T("cmp", nm, left, right))
            left = right
        if len(parts) == 1:
            c = parts[0]
            # `len(x) > 0` / `len(x) != 0` / `len(x) >= 1` is the truth value of len(x); `len(x) == 0` / `< 1` / `<= 0` its negation
            if c.args[1].op == "call" and tm.callee_name(c.args[1]) == "builtins.len" and c.args[2].op == "const" and type(c.args[2].args[1]) is int:
                k = c.args[2].args[1]
                if (c.args[0], k) in ((">", 0), ("!=", 0), (">=", 1)):
                    return c.args[1]
                if (c.args[0], k) in (("==", 0), ("<", 1), ("<=", 0)):
                    return T("not", c.args[1])
            return c
        return T("bool", "and", *parts)

    def _comp(self, fr, e, kind, elt_fn):
        env0, g0, l0 = fr.env, fr.guards, fr.loops
        fr.env = dict(env0)
        lids = []
        for gen in e.generators:
            it = self.eval(fr, gen.iter)
            lid = self.fresh("L")
            conds = []
            self.loopinfo[lid] = {"kind": "comp", "iter": it, "node": e, "fi": fr.fi, "conds": conds}
            lids.append(lid)
            fr.loops = fr.loops + (lid,)
            self.bind(fr, gen.target, self.element_of(it, lid), e)
            for c in gen.ifs:
                ct = self.eval(fr, c)
                conds.append(ct)
                fr.guards = fr.guards + ((ct, True),)
        elt = elt_fn(fr)
        fr.env, fr.guards, fr.loops = env0, g0, l0
        t = T("comp", kind, elt, tuple(lids))
        return t

    def ex_ListComp(self, fr, e):
        return self._comp(fr, e, "list", lambda fr: self.eval(fr, e.elt))

    def ex_SetComp(self, fr, e):
        return self._comp(fr, e, "set", lambda fr: self.eval(fr, e.elt))

    def ex_GeneratorExp(self, fr, e):
        return self._comp(fr, e, "gen", lambda fr: self.eval(fr, e.elt))

    def ex_DictComp(self, fr, e):
        return self._comp(fr, e, "dict", lambda fr: T("tuple", self.eval(fr, e.key), self.eval(fr, e.value)))

    # -------------------------------------------------------------- truth
    def truth(self, t, fr=None):
        """True/False when the condition is decided (constants, a guard already in force,
        or the oracle), else None."""
        if fr is not None and fr.guards and not tm.contains(t, lambda x: x.op == "alloc" and x.args[0] in ("list", "set")):
            for c, pol in fr.guards:
                if c == t:
                    return pol
                # `x is None` decided by a guard on `x is not None` (and vice versa)
                if t.op == "cmp" and c.op == "cmp" and {t.args[0], c.args[0]} == {"is", "is not"} and t.args[1:] == c.args[1:]:
                    return not pol
        return self._truth(t)

    def _truth(self, t):
        if t.op == "const":
            try:
                return bool(t.args[1])
            except Exception:
                return None
        if t.op == "not":
            v = self._truth(t.args[0])
            return None if v is None else (not v)
        if t.op == "bool":
            vals = [self._truth(x) for x in t.args[1:]]
            if t.args[0] == "and":
                if any(v is False for v in vals):
                    return False
                if all(v is True for v in vals):
                    return True
            else:
                if any(v is True for v in vals):
                    return True
                if all(v is False for v in vals):
                    return False
            return None
        if t.op in ("tuple",):
            return len(t.args) > 0
        if t.op in ("closure", "func", "class"):
            return True
        if t.op == "cmp":
            op, a, b = t.args
            if a.op == "const" and b.op == "const":
                x, y = a.args[1], b.args[1]
                try:
                    if op == "==":
                        return x == y
                    if op == "!=":
                        return x != y
                    if op == "is":
                        return x is y
                    if op == "is not":
                        return x is not y
                    if op == "<":
                        return x < y
                    if op == "<=":
                        return x <= y
                    if op == ">":
                        return x > y
                    if op == ">=":
                        return x >= y
                except Exception:
                    return None
            if op in ("is", "is not"):
                # a NumPy dtype instance is never a builtin type object
                for x, y in ((a, b), (b, a)):
                    if x.op == "attr" and x.args[1] == "dtype" and y.op == "ext" and y.args[0] in ("builtins.float", "builtins.int", "builtins.bool", "builtins.str", "builtins.object"):
                        return op == "is not"
            if op in ("is", "is not") and (b == NONE or a == NONE):
                other = a if b == NONE else b
                if other.op in ("alloc", "tuple", "list", "closure", "func", "class", "comp", "dict", "binop", "unop"):
                    return op == "is not"
                if other.op == "call":
                    nm = tm.callee_name(other) or ""
                    if (nm.startswith("numpy.") and nm not in ("numpy.ndarray.__new__",)) or nm in (".astype", ".copy", ".nonzero", ".tolist", ".reshape", ".ravel", ".sum", ".cumsum", ".argsort", ".clip"):
                        return op == "is not"  # NumPy constructors / array methods never return None
        if t.op == "call" and tm.callee_name(t) == "builtins.isinstance" and len(t.args[1]) == 2:
            x, k = t.args[1]
            if x.op == "tuple" and tm.dotted(k) == "builtins.tuple":
                return True
        if self.oracle is not None:
            try:
                return self.oracle(t)
            except Exception:
                return None
        return None

    # --------------------------------------------------------------- types
    def type_of(self, fr, t, depth=0):
        """('inst', ClassInfo, exact) | ('list', ClassInfo) | None"""
        if depth > 6 or t is None:
            return None
        if t.op == "alloc":
            ci = self.alloc_class.get(t)
            if ci is not None:
                return ("inst", ci, True)
            els = self.heap.get(t, {}).get("elts", [])
            tys = [self.type_of(fr, x, depth + 1) for x in els]
            if tys and all(y is not None and y[0] == "inst" for y in tys) and len({y[1] for y in tys}) == 1:
                return ("list", tys[0][1])
            return None
        if t.op == "param":
            root = getattr(self, "root_fi", None)
            if root is not None:
                if root.cls is not None and not root.is_static and root.params() and t.args[0] == root.params()[0]:
                    if root.is_classmethod:
                        return None
                    return ("inst", root.cls, False)
                return self.param_hint(root, t.args[0])
            return None
        if t.op in ("phi", "ifexp"):
            tys = [self.type_of(fr, a, depth + 1) for a in tm.alts(t) if a != NONE]
            tys = [y for y in tys]
            if tys and all(y is not None for y in tys) and len({(y[0], y[1]) for y in tys}) == 1:
                y = tys[0]
                if y[0] == "inst":
                    return ("inst", y[1], all(z[2] for z in tys))
                return y
            return None
        if t.op in ("iter", "dval"):
            ty = self.type_of(fr, t.args[0], depth + 1)
            if ty is not None and ty[0] == "list":
                return ("inst", ty[1], False)
            return None
        if t.op == "sub":
            ty = self.type_of(fr, t.args[0], depth + 1)
            if ty is not None and ty[0] == "list":
                if t.args[1].op == "slice":
                    return ty
                return ("inst", ty[1], False)
            return None
        if t.op == "attr":
            bt = self.type_of(fr, t.args[0], depth + 1)
            if bt is not None and bt[0] == "inst":
                for c in self.prog.mro(bt[1]):
                    h = self.field_types.get((c.name, t.args[1]))
                    if h is not None:
                        return self._hint(h)
            return None
        if t.op == "comp":
            ty = self.type_of(fr, t.args[1], depth + 1)
            if ty is not None and ty[0] == "inst" and t.args[0] in ("list", "gen"):
                return ("list", ty[1])
            return None
        if t.op == "call":
            nm = tm.callee_name(t)
            if nm in ("builtins.list", "builtins.tuple", "builtins.reversed") and t.args[1]:
                return self.type_of(fr, t.args[1][0], depth + 1)
            return None
        if t.op == "loopvar":
            be = self.backedge.get((t.args[0], t.args[1]))
            if be is not None and be != t:
                return self.type_of(fr, be, depth + 1)
        return None

    def _hint(self, h):
        if h.startswith("["):
            ci = self.prog.find_class(h[1:-1])
            return ("list", ci) if ci else None
        ci = self.prog.find_class(h)
        return ("inst", ci, False) if ci else None

    def param_hint(self, fi, name):
        q = fi.qualname
        for key in ((q, name), ("*." + q.split(".")[-1], name)):
            h = self.param_types.get(key)
            if h is not None:
                return self._hint(h)
        return None

    # --------------------------------------------------------------- calls
    def ex_Call(self, fr, e):
        recv = None
        fname = None
        if isinstance(e.func, ast.Attribute):
            recv = self.eval(fr, e.func.value)
            fname = e.func.attr
            f = self.load_attr(fr, recv, fname, e.func)
        else:
            f = self.eval(fr, e.func)
        args = []
        for a in e.args:
            if isinstance(a, ast.Starred):
                v = self.eval(fr, a.value)
                if v.op in ("tuple", "list"):
                    args.extend(v.args)
                else:
                    args.append(T("starred", v))
            else:
                args.append(self.eval(fr, a))
        kwargs = []
        for k in e.keywords:
            kwargs.append((k.arg if k.arg is not None else "**", self.eval(fr, k.value)))
        return self.do_call(fr, e, f, recv, fname, args, kwargs)

    def do_call(self, fr, node, f, recv, fname, args, kwargs, pre=()):
        # calling a functools.partial(g, a, b) object: g(a, b, *args).  The event keeps the arguments written at the call
        # site in `args` and what the partial pre-binds in `pre` (so a task's argument is args[0] however it is dispatched)
        if f.op == "call" and tm.callee_name(f) == "functools.partial" and f.args[1] and not f.args[2] and recv is None:
            inner = f.args[1][0]
            pre = tuple(f.args[1][1:]) + tuple(pre)
            if inner.op == "attr":
                return self.do_call(fr, node, inner, inner.args[0], inner.args[1], args, kwargs, pre)
            return self.do_call(fr, node, inner, None, None, args, kwargs, pre)
        # super()
        if f.op == "ext" and f.args[0] == "builtins.super" and not args:
            return T("super", fr.self_term if fr.self_term is not None else unknown("self"), fr.cls.fq if fr.cls else "?")
        targets = self.resolve(fr, f, recv, fname)
        if not targets and f.op == "attr" and f.args[0].op == "super":
            # method of an external base class (dict): a call on self, bypassing repo overrides
            f = T("attr", f.args[0].args[0], f.args[1])
            recv = f.args[0]
        name = tm.callee_name(mkcall(f))
        ev = self.emit(fr, "call", node, f=f, args=tuple(args), kwargs=tuple(kwargs), recv=recv,
                       name=name, method=fname, resolved=[t[0] for t in targets], via=None, result=None, pre=tuple(pre))
        result = None
        if pre:
            args = list(pre) + list(args)
        # heap effects of list mutators on known allocations
        if recv is not None and fname in LIST_MUTATORS and args:
            for b in tm.alts(recv):
                if b in self.heap:
                    self.heap[b]["elts"].append(args[-1])
                    self.heap[b]["elts_at"].append((len(self.events), fr.loops))
        if targets:
            results = []
            for fi, self_t, kind, clo in targets:
                if kind == "construct":
                    results.append(self.construct(fr, fi, clo, args, kwargs, node))
                else:
                    r = self.inline(fr, fi, ([self_t] if self_t is not None else []) + list(args), dict(kwargs), node, self_t, clo)
                    if r is None:
                        results = None
                        break
                    results.append(r)
            if results:
                result = phi(results)
        if result is None:
            if fname in STATEFUL_METHODS or tm.dotted(f) in STATEFUL_FUNCS:
                # two calls with equal arguments are different values: make the term unique
                result = mkcall(f, args, tuple(kwargs) + (("#", const(len(self.events))),))
            else:
                result = mkcall(f, args, kwargs)
            if not targets and f.op not in ("ext",):
                self.unresolved_calls.append(ev)
            # higher-order externals that call back into repo code
            self.callbacks(fr, node, f, recv, fname, args, kwargs)
        ev.d["result"] = result
        return result

    def callbacks(self, fr, node, f, recv, fname, args, kwargs):
        nm = tm.dotted(f)
        cb = None
        cbargs = None
        via = None
        if fname in ("map", "imap", "imap_unordered", "map_async", "starmap", "apply_async", "apply", "submit") and recv is not None and args:
            cb, via = args[0], "pool." + fname
            if fname in ("map", "imap", "imap_unordered", "map_async") and len(args) > 1:
                cbargs = [self.element_of(args[1], self.fresh("L"))]
            else:
                cbargs = [unknown("task-arg")]
        elif nm == "builtins.map" and len(args) >= 2:
            cb, via = args[0], "map"
            cbargs = [self.element_of(a, self.fresh("L")) for a in args[1:]]
        elif nm == "numpy.apply_along_axis" and len(args) >= 3:
            cb, via = args[0], "apply_along_axis"
            cbargs = [T("slice1d", args[2])]
        elif nm == "functools.reduce" and len(args) >= 2:
            cb, via = args[0], "reduce"
            el = self.element_of(args[1], self.fresh("L"))
            cbargs = [unknown("acc"), el]
        if cb is None:
            return
        # functools.partial(g, a, b): the callable is g, with a, b in front of the arguments the dispatcher supplies
        pre = []
        while cb.op == "call" and tm.callee_name(cb) == "functools.partial" and cb.args[1] and not cb.args[2]:
            pre = list(cb.args[1][1:]) + pre
            cb = cb.args[1][0]
        targets = self.resolve(fr, cb, None, None)
        if not targets and cb.op == "attr":
            # a bound method value (self._task): resolve the method on the receiver
            targets = self.resolve(fr, cb, cb.args[0], cb.args[1])
        for fi, self_t, kind, clo in targets:
            # the event lists the arguments the DISPATCHER supplies (args[0] is the task argument); what a partial pre-binds
            # is recorded separately
            ev = self.emit(fr, "call", node, f=cb, args=tuple(cbargs), kwargs=(), recv=None, name=fi.fq,
                           method=None, resolved=[fi], via=via, result=None, pre=tuple(pre))
            r = self.inline(fr, fi, ([self_t] if self_t is not None else []) + pre + list(cbargs), {}, node, self_t, clo)
            ev.d["result"] = r

    def resolve(self, fr, f, recv, fname):
        """-> list of (FuncInfo, self_term or None, kind, closure or class)"""
        out = []
        for a in tm.alts(f):
            self._resolve1(fr, a, recv, fname, out, 0)
        # de-duplicate
        seen = []
        res = []
        for x in out:
            k = (x[0], x[1], x[2])
            if k not in seen:
                seen.append(k)
                res.append(x)
        return res

    def _resolve1(self, fr, a, recv, fname, out, depth):
        if depth > 4:
            return
        if a.op == "func":
            fi = self.func_by_fq(a.args[0])
            self_t = None
            if fi.cls is not None and not fi.is_static and recv is not None and recv.op != "class":
                self_t = recv
            if fi.is_classmethod and recv is not None:
                self_t = recv if recv.op == "class" else T("class", fi.cls.fq)
            elif fi.is_classmethod:
                self_t = T("class", fi.cls.fq)
            out.append((fi, self_t, "call", None))
        elif a.op == "class":
            ci = self.class_by_fq(a.args[0])
            out.append((self.prog.lookup_method(ci, "__init__"), None, "construct", ci))
        elif a.op == "closure":
            clo = self.closures.get(a.args[0])
            if clo is None:
                return  # a closure created in another activation (e.g. a lambda the constructor stored in a field): opaque here
            out.append((clo.fi, None, "call", clo))
        elif a.op == "attr":
            base, name = a.args
            if base.op == "super":
                ci = self.class_by_fq(base.args[1]) if ":" in base.args[1] else None
                if ci is not None:
                    fi = self.prog.lookup_method(ci, name, after=ci)
                    if fi is not None:
                        out.append((fi, base.args[0], "call", None))
                return
            ty = self.type_of(fr, base)
            if name == "__class__":
                if ty is not None and ty[0] == "inst":
                    out.append((self.prog.lookup_method(ty[1], "__init__"), None, "construct", ty[1]))
                return
            if ty is not None and ty[0] == "inst":
                ci, exact = ty[1], ty[2]
                cands = [self.prog.lookup_method(ci, name)] if exact else self.prog.overriders(ci, name)
                cands = [c for c in cands if c is not None]
                if cands:
                    for fi in cands:
                        if fi.is_static:
                            out.append((fi, None, "call", None))
                        elif fi.is_classmethod:
                            out.append((fi, T("class", fi.cls.fq), "call", None))
                        else:
                            out.append((fi, base, "call", None))
                    return
                # callable class attribute (op = staticmethod(numpy.amax); pool_class = ...)
                for c in ([ci] if exact else self.prog.subclasses(ci)):
                    _, expr = self.prog.lookup_class_attr(c, name)
                    if expr is not None:
                        pass
        elif a.op in ("iter", "sub", "dval"):
            for el in self.elements_of(a.args[0]):
                for b in tm.alts(el):
                    self._resolve1(fr, b, None, None, out, depth + 1)
        elif a.op == "loopvar":
            be = self.backedge.get((a.args[0], a.args[1]))
            if be is not None:
                for b in tm.alts(be):
                    if b != a:
                        self._resolve1(fr, b, recv, fname, out, depth + 1)
        elif a.op == "bound":
            out.append((self.func_by_fq(a.args[1]), a.args[0], "call", None))

    def construct(self, fr, init_fi, ci, args, kwargs, node):
        obj = self.alloc(fr, "obj:" + ci.name, node, cls=ci)
        if init_fi is not None:
            r = self.inline(fr, init_fi, [obj] + list(args), dict(kwargs), node, obj, None, force_fields=True)
            if r is None:
                self.heap[obj]["ctor_args"] = (tuple(args), tuple(kwargs))
        else:
            self.heap[obj]["ctor_args"] = (tuple(args), tuple(kwargs))
        return obj

    def inline(self, fr, fi, args, kwargs, node, self_t=None, clo=None, force_fields=False):
        """Run fi's body with the given argument terms. Returns result term or None."""
        if fi is None or getattr(fi, "opaque", False) or fi.node is None:
            return None
        if not self.inline_enabled(fi):
            return None
        if fr.depth >= self.max_depth:
            self.depth_cuts.append((fr.fi, fi, node))
            return None
        if any(s[0] is fi for s in fr.stack) or fr.fi is fi:
            self.emit(fr, "recursion", node, callee=fi)
            return None
        a = fi.node.args
        names = [x.arg for x in a.posonlyargs + a.args]
        env = {}
        pos = list(args)
        # positional
        i = 0
        extra = []
        star_unknown = any(x.op == "starred" for x in pos)
        for v in pos:
            if i < len(names) and not star_unknown:
                env[names[i]] = v
                i += 1
            else:
                extra.append(v)
        if a.vararg:
            env[a.vararg.arg] = T("tuple", *extra) if not star_unknown else T("varargs", *extra)
        kw_extra = []
        for k, v in kwargs.items():
            if k in names or k in [x.arg for x in a.kwonlyargs]:
                env[k] = v
            else:
                kw_extra.append((k, v))
        if a.kwarg:
            env[a.kwarg.arg] = T("dict", *kw_extra)
        # defaults
        module = clo.module if clo is not None else fi.module
        nfr = Frame(fi, module, clo.cls if clo is not None else fi.cls, None, None,
                    fr.stack + ((fr.fi, node),), fr.depth + 1)
        if clo is not None:
            ce = dict(clo.env)
            if getattr(clo, "outer", None):
                ce["__outer__"] = clo.outer
            nfr.closure_env = ce
            nfr.self_term = clo.self_term
        defaults = a.defaults
        dnames = names[len(names) - len(defaults):] if defaults else []
        for n, d in zip(dnames, defaults):
            if n not in env:
                env[n] = self.eval(nfr, d)
        for k, d in zip(a.kwonlyargs, a.kw_defaults):
            if k.arg not in env and d is not None:
                env[k.arg] = self.eval(nfr, d)
        for n in names:
            if n not in env:
                env[n] = unknown("missing-arg:" + n)
        nfr.env.update(env)
        if self_t is not None and fi.cls is not None and not fi.is_static and names:
            nfr.self_term = env[names[0]]
            if fi.is_classmethod:
                nfr.cls_term = env[names[0]]
        nfr.guards, nfr.loops, nfr.trys = fr.guards, fr.loops, fr.trys
        if clo is not None and getattr(clo, "guards", None):
            # a closure object exists only on the path that created it: what runs inside it runs under those conditions too
            nfr.guards = fr.guards + tuple(g for g in clo.guards if g not in fr.guards)
        # visible object fields: share the caller's field bindings
        for k, v in fr.env.items():
            if isinstance(k, tuple):
                nfr.env[k] = v
        if isinstance(fi.node, ast.Lambda):
            v = self.eval(nfr, fi.node.body)
            nfr.returns.append((v, nfr.guards))
            self.emit(nfr, "return", fi.node.body, value=v)
        else:
            if self.exec_block(nfr, fi.node.body) and nfr.returns:
                # control can fall off the end of a function that also has explicit returns: an implicit `return None`
                nfr.returns.append((NONE, nfr.guards))
        # propagate field bindings back (strong updates made by the callee)
        for k, v in nfr.env.items():
            if isinstance(k, tuple):
                fr.env[k] = v
        return self.result_of(nfr)

    def inline_enabled(self, fi):
        if not self.do_inline:
            return False
        if fi.fq in self.no_inline or fi.qualname in self.no_inline:
            return False
        return True


def _merge_returns(returns):
    """The value of a call with several `return`s: a decision tree of ifexp terms over the guards that separate them
    (`if c: return a` / `return b` is `a if c else b`, exactly what join() builds for a variable assigned in both
    branches), a plain phi when the guards do not form such a tree."""
    def build(rs, depth):
        if len(rs) == 1:
            return rs[0][0]
        if any(len(g) <= depth for _, g in rs):
            return None
        c = rs[0][1][depth][0]
        if any(g[depth][0] != c for _, g in rs):
            return None
        yes = [r for r in rs if r[1][depth][1] is True]
        no = [r for r in rs if r[1][depth][1] is False]
        if len(yes) + len(no) != len(rs):
            return None
        if not yes or not no:
            return build(rs, depth + 1)
        a, b = build(yes, 0 + depth + 1), build(no, depth + 1)
        if a is None or b is None:
            return None
        return a if a == b else T("ifexp", c, a, b)
    vals = [v for v, _ in returns]
    if len(returns) > 1 and len(set(vals)) > 1:
        t = build(list(returns), 0)
        if t is not None:
            return t
    return phi(vals)


def _always_raises(body):
    if not body:
        return False
    last = body[-1]
    if isinstance(last, ast.Raise):
        return True
    if isinstance(last, ast.If) and last.orelse:
        return _always_raises(last.body) and _always_raises(last.orelse)
    return False


def _opname(op):
    return {
        ast.Add: "+", ast.Sub: "-", ast.Mult: "*", ast.Div: "/", ast.FloorDiv: "//", ast.Mod: "%",
        ast.Pow: "**", ast.LShift: "<<", ast.RShift: ">>", ast.BitOr: "|", ast.BitAnd: "&",
        ast.BitXor: "^", ast.MatMult: "@",
    }[type(op)]


def _cmpname(op):
    return {
        ast.Eq: "==", ast.NotEq: "!=", ast.Lt: "<", ast.LtE: "<=", ast.Gt: ">", ast.GtE: ">=",
        ast.Is: "is", ast.IsNot: "is not", ast.In: "in", ast.NotIn: "not in",
    }[type(op)]


# ---------------------------------------------------------------------------
# helpers for rules


def guards_imply(guards, pred):
    """Some guard in the stack satisfies pred(term, polarity)."""
    return any(pred(c, pol) for c, pol in guards)


def _self_entering(ctx):
    """A constructor call of a worker pool / executor (whose __enter__ returns the object itself): multiprocessing.pool.*,
    concurrent.futures.*Executor, or a class held in an attribute named pool_class / executor_class."""
    nm = tm.callee_name(ctx) or ""
    if nm.startswith(("multiprocessing.pool.", "multiprocessing.Pool", "concurrent.futures.")) or nm.split(".")[-1] in ("ThreadPool", "Pool", "ThreadPoolExecutor", "ProcessPoolExecutor"):
        return True
    f = ctx.args[0]
    return f.op == "attr" and f.args[1] in ("pool_class", "executor_class")


_CMP_FLIP = {"<": ">", ">": "<", "<=": ">=", ">=": "<=", "==": "==", "!=": "!=", "is": "is", "is not": "is not"}


def flat_guards(guards):
    """Split and/or by polarity: (a and b, True) -> a True, b True; (a or b, False) -> both False;
    (not a, p) -> (a, not p)."""
    out = []
    stack = list(guards)
    while stack:
        c, pol = stack.pop()
        if c.op == "not":
            stack.append((c.args[0], not pol))
        elif c.op == "bool" and ((c.args[0] == "and" and pol) or (c.args[0] == "or" and not pol)):
            for x in c.args[1:]:
                stack.append((x, pol))
        else:
            out.append((c, pol))
    return out
