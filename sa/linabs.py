"""Engine L (DESIGN 3.5): linear-template invariants over Cython's typed tree.

For a def compiled with boundscheck=False, every typed-memoryview index `a[i]` yields
the obligations  0 <= i  (wraparound=False)  and  i <= len(a)-1.  The abstract state is a
disjunction (trace partitions) of conjunctions of linear inequalities over the C integer
locals and symbolic lengths; loop invariants are found Houdini-style from a small
template pool; entailment is Fourier-Motzkin (sa/fm.py).  An obligation the invariants
cannot discharge is VIOLATED only if the bounded exact mode (<= 2 loop iterations, no
weakening) finds a concrete integer model reaching the access out of bounds; otherwise
it is UNDECIDED.  Nothing is executed.
"""
import itertools

from .cyfront import tname, tstr, children, walk
from .fm import feasible, entails, project, norm, key as ckey, model, cstr

INT_TYPES = ("int", "long", "Py_ssize_t", "short", "unsigned int", "unsigned long", "size_t", "long long", "const int", "const long")


class Unknown(Exception):
    pass


class Lin:
    """linear expression: dict var->coef plus constant under key 1"""

    def __init__(self, d=None):
        self.d = dict(d or {})

    @staticmethod
    def const(k):
        return Lin({1: k})

    @staticmethod
    def var(v):
        return Lin({v: 1})

    def __add__(self, o):
        d = dict(self.d)
        for k, v in o.d.items():
            d[k] = d.get(k, 0) + v
        return Lin(d)

    def __neg__(self):
        return Lin({k: -v for k, v in self.d.items()})

    def __sub__(self, o):
        return self + (-o)

    def scale(self, c):
        return Lin({k: v * c for k, v in self.d.items()})

    def is_const(self):
        return all(k == 1 or v == 0 for k, v in self.d.items())

    def le(self, o):
        e = self - o
        k = -e.d.get(1, 0)
        return ({v: a for v, a in e.d.items() if v != 1 and a != 0}, k)

    def __repr__(self):
        parts = []
        for v, a in self.d.items():
            if a == 0:
                continue
            if v == 1:
                parts.append(str(a))
            elif a == 1:
                parts.append(str(v))
            else:
                parts.append("%s*%s" % (a, v))
        return " + ".join(parts).replace("+ -", "- ") or "0"


class St(list):
    """A conjunction of constraints plus the branch trace that led to it."""

    trace = ()
    tainted = False

    @staticmethod
    def of(cons, parent=None, label=None):
        x = St(cons)
        tr = getattr(parent, "trace", ())
        x.trace = tr + ((label,) if label else ())
        x.tainted = getattr(parent, "tainted", False)
        return x


class Site:
    def __init__(self, func, line, col, base, idx, kind, desc):
        self.func, self.line, self.col, self.base, self.idx, self.kind, self.desc = func, line, col, base, idx, kind, desc
        self.ok = True
        self.reached = False
        self.fail_state = None
        self.witness = None
        self.note = ""

    def key(self):
        return (self.func, self.line, self.col, self.base, self.kind)


_RUNS = {}


class Analyzer:
    def __init__(self, cyfunc, cex=False, unroll=2):
        self.f = cyfunc
        self.cex = cex
        self.unroll = unroll
        self.sites = {}
        self.order = []
        self.record = True
        self.pylen = {}
        self.loops = []
        self.nonaffine = []
        self.trace = []  # branch trace (cex mode)
        # ---- content-aware extension (kernels that index with values read from integer arrays)
        self.elem = {}  # memoryview name -> [lo Lin|None, hi Lin|None]: bounds holding for EVERY element
        self.elem0 = {}  # memoryview name -> (exact value of element 0, array version): valid until the array is written
        self.content_vars = set()  # scalars whose current value was read from an array
        self.pyfacts = {}  # Python variable -> {"len": Lin|None, "lo": Lin|None, "hi": Lin|None, "tag": ...}
        self.pending = []  # constraints on freshly introduced read symbols, attached by split/assign
        self.nread = 0
        self.ver = {}  # name -> version (scalars and arrays), for aliases
        self.alias = {}  # scalar -> (array, index repr, versions)
        self.cont = []  # stack of continue-state collectors
        self.content_reads = 0
        self.weakened = set()  # (array, 'lo'|'hi') that an element write could not be shown to preserve
        self.lemmas = []  # lemma instances used in the prelude (reported)
        self._opaque_cond = False
        self._wrapping_alloc = set()

    # ---------------- expressions
    def is_counter_type(self, t):
        s = str(t)
        return s in INT_TYPES

    def lin(self, n):
        k = tname(n)
        if k == "IntNode":
            return Lin.const(int(n.value))
        if k == "NameNode":
            if not self.is_counter_type(n.type):
                raise Unknown("data variable %s of type %s" % (n.name, n.type))
            return Lin.var(n.name)
        if k in ("AddNode", "SubNode"):
            a, b = self.lin(n.operand1), self.lin(n.operand2)
            return a + b if k == "AddNode" else a - b
        if k == "MulNode":
            a, b = self.lin(n.operand1), self.lin(n.operand2)
            if a.is_const():
                return b.scale(a.d.get(1, 0))
            if b.is_const():
                return a.scale(b.d.get(1, 0))
            raise Unknown("non-linear product")
        if k == "UnaryMinusNode":
            return -self.lin(n.operand)
        if k == "MemoryViewIndexNode" and self.is_counter_type(n.type) and tname(n.base) == "NameNode" and len(n.indices) == 1:
            # a value read from an integer array: a fresh symbol bounded by the array's element facts
            base = n.base.name
            self.nread += 1
            self.content_reads += 1
            r = "rd%d_%s" % (self.nread, base)
            lo, hi = self.elem.get(base, [None, None])
            x = Lin.var(r)
            if lo is not None and (base, "lo") not in self.weakened:
                self.pending.append(lo.le(x))
            if hi is not None and (base, "hi") not in self.weakened:
                self.pending.append(x.le(hi))
            try:
                ix = self.lin(n.indices[0])
                self._last_read = (r, base, repr(ix), self._versions(n.indices[0], base))
            except Unknown:
                self._last_read = None
            return x
        if k == "SimpleCallNode" and tname(n.function) == "NameNode" and n.function.name == "len":
            args = n.args if getattr(n, "args", None) is not None else n.arg_tuple.args
            a = args[0]
            while tname(a) in ("CoerceToPyTypeNode", "CoerceToTempNode", "CloneNode", "NoneCheckNode"):
                a = a.arg
            if tname(a) == "NameNode":
                if tstr(a.type).endswith("[:]"):
                    return Lin.var("len_" + a.name)
                f = self.pyfacts.get(a.name)
                if f is not None and f.get("len") is not None:
                    return f["len"]
            raise Unknown("len() of an untracked object")
        if k == "IndexNode" and tname(n.base) == "AttributeNode" and n.base.attribute == "shape":
            ix = n.index
            if tname(ix) == "IntNode" and int(ix.value) == 0 and tname(n.base.obj) == "NameNode":
                return Lin.var("len_" + n.base.obj.name)
            raise Unknown("shape[k], k != 0")
        if k in ("CoerceToTempNode", "CoerceToPyTypeNode", "CoerceFromPyTypeNode", "TypecastNode", "ProxyNode", "CloneNode",
                 "BoolBinopResultNode", "CoerceIntToBytesNode", "NoneCheckNode"):
            return self.lin(n.arg)
        if k == "TypecastNode":
            return self.lin(n.operand)
        if k == "ResultRefNode":
            return self.lin(n.expression)
        if k == "EvalWithTempExprNode":
            return self.lin(n.subexpression)
        raise Unknown(k)

    def cond_cases(self, n):
        """(true_dnf, false_dnf); a dnf is a list of constraint lists; data tests -> ([[]], [[]])."""
        if n is None:
            return ([[]], [])  # Cython folds `while 1` into a condition-less loop
        k = tname(n)
        if k in ("CoerceToTempNode", "ProxyNode", "BoolBinopResultNode", "CoerceToBooleanNode", "CloneNode", "TypecastNode"):
            return self.cond_cases(n.arg if hasattr(n, "arg") else n.operand)
        if k == "IntNode":
            return ([[]], []) if int(n.value) else ([], [[]])
        if k == "BoolNode":
            return ([[]], []) if n.value else ([], [[]])
        if k == "NotNode":
            t, f = self.cond_cases(n.operand)
            return f, t
        if k == "BoolBinopNode":
            t1, f1 = self.cond_cases(n.operand1)
            t2, f2 = self.cond_cases(n.operand2)
            if n.operator == "and":
                return ([a + b for a in t1 for b in t2], f1 + [a + b for a in t1 for b in f2])
            return (t1 + [a + b for a in f1 for b in t2], [a + b for a in f1 for b in f2])
        if k == "PrimaryCmpNode":
            if getattr(n, "cascade", None) is not None:
                return ([[]], [[]])
            try:
                a, b = self.lin(n.operand1), self.lin(n.operand2)
            except Unknown:
                # a comparison of two ELEMENT values is a free data test (either outcome is possible for some input); any
                # other comparison the linear domain cannot read (a Python object's shape, `is None`, ...) constrains the
                # sizes in a way that is lost here: a counterexample found below it is not believed
                if not (self._elem_typed(n.operand1) and self._elem_typed(n.operand2)):
                    self._opaque_cond = True
                return ([[]], [[]])
            one = Lin.const(1)
            op = n.operator
            if op == "<":
                return ([[(a + one).le(b)]], [[b.le(a)]])
            if op == "<=":
                return ([[a.le(b)]], [[(b + one).le(a)]])
            if op == ">":
                return ([[(b + one).le(a)]], [[a.le(b)]])
            if op == ">=":
                return ([[b.le(a)]], [[(a + one).le(b)]])
            if op == "==":
                return ([[a.le(b), b.le(a)]], [[(a + one).le(b)], [(b + one).le(a)]])
            if op == "!=":
                return ([[(a + one).le(b)], [(b + one).le(a)]], [[a.le(b), b.le(a)]])
        if k == "NameNode" and self.is_counter_type(n.type):
            x = Lin.var(n.name)
            zero, one = Lin.const(0), Lin.const(1)
            return ([[(x + one).le(zero)], [one.le(x)]], [[x.le(zero), zero.le(x)]])
        self._opaque_cond = True
        return ([[]], [[]])

    def _elem_typed(self, e):
        while tname(e) in ("CoerceToTempNode", "CloneNode", "TypecastNode", "CoerceToPyTypeNode", "CoerceFromPyTypeNode") and (hasattr(e, "arg") or hasattr(e, "operand")):
            e = e.arg if hasattr(e, "arg") else e.operand
        t = str(getattr(e, "type", "")).replace("const ", "")
        return t in ("uint32", "uint32_t", "unsigned int", "uint64", "uint64_t", "unsigned long", "uint16", "uint8") and tname(e) in ("NameNode", "MemoryViewIndexNode")

    # ---------------- obligations
    def mv_nodes(self, n, acc):
        if n is None:
            return acc
        if tname(n) == "MemoryViewIndexNode":
            acc.append(n)
        for c in children(n):
            self.mv_nodes(c, acc)
        return acc

    def site(self, mv, base, kind, desc, idx):
        s = Site(self.f.name, mv.pos[1], mv.pos[2], base, idx, kind, desc)
        k = s.key()
        if k not in self.sites:
            self.sites[k] = s
            self.order.append(k)
            s.data_write = bool(getattr(self, "_writing", False)) and not self.is_counter_type(mv.type)
        return self.sites[k]

    def check_expr(self, n, states):
        for mv in self.mv_nodes(n, []):
            base = mv.base.name if tname(mv.base) == "NameNode" else None
            if base is None or len(mv.indices) != 1:
                self.nonaffine.append((mv.pos[1], "memoryview base/indices shape"))
                continue
            idx = mv.indices[0]
            try:
                i = self.lin(idx)
            except Unknown as e:
                self.nonaffine.append((mv.pos[1], "%s[<index depends on %s>]" % (base, e)))
                continue
            L = Lin.var("len_" + base)
            lower = Lin.const(0).le(i) if not self.f.wraparound else (-L).le(i)
            upper = (i + Lin.const(1)).le(L)
            for kind, desc, c in (("lower", "%s >= %s" % (i, "0" if not self.f.wraparound else "-len(%s)" % base), lower),
                                  ("upper", "%s <= len(%s)-1" % (i, base), upper)):
                s = self.site(mv, base, kind, "%s[%s]: %s" % (base, i, desc), repr(i))
                if self.record:
                    if states:
                        s.reached = True
                    if self.cex:
                        neg = ({v: -a for v, a in c[0].items()}, -c[1] - 1)
                        for st in states:
                            if getattr(st, "tainted", False):
                                continue  # reached through a decision on array contents that could go either way
                            if s.witness is None and feasible(list(st) + [neg]):
                                m = model(list(st) + [neg])
                                if m is not None:
                                    s.witness = {"model": m, "trace": list(getattr(st, "trace", ()))}
                                    s.ok = False
                    else:
                        bad = [st for st in states if not entails(st, c)]
                        if bad:
                            s.ok = False
                            if s.fail_state is None:
                                s.fail_state = bad[0]
                # assume the obligation for the continuation (avoid cascades)
                new = []
                for st in states:
                    st2 = St.of(list(st) + [c], st)
                    if feasible(st2):
                        new.append(st2)
                states[:] = new

    # ---------------- statements
    def assign(self, states, var, e):
        out = []
        extra = self.take_pending()
        self._bump(var)
        for st0 in states:
            st = list(st0) + extra
            if var in e.d:
                c = e.d.get(1, 0)
                if not (e.d.get(var) == 1 and all(k in (var, 1) or v == 0 for k, v in e.d.items())):
                    new = list(project(st, var))  # x := f(x, ...) not of the form x + c: havoc
                else:
                    new = []
                    for coefs, k in st:
                        a = coefs.get(var, 0)
                        new.append((dict(coefs), k + a * c))
            else:
                new = list(project(st, var))
                x = Lin.var(var)
                new += [x.le(e), e.le(x)]
            out.append(St.of(new, st0))
        return out

    def havoc(self, states, var):
        out = []
        self._bump(var)
        for st in states:
            out.append(St.of(project(st, var), st))
        return out

    def _versions(self, idx_node, base):
        names = [x.name for x in walk(idx_node) if tname(x) == "NameNode"]
        return tuple(sorted((nm, self.ver.get(nm, 0)) for nm in names + [base]))

    def _bump(self, name):
        self.ver[name] = self.ver.get(name, 0) + 1

    def attach(self, states):
        extra = self.take_pending()
        if not extra:
            return states
        return [St.of(list(st) + extra, st) for st in states]

    def take_pending(self):
        p, self.pending = self.pending, []
        return p

    def _is_content(self, c):
        return any(str(v).startswith("rd") or v in self.content_vars for v in c[0])

    def taint_split(self, states, tdnf, fdnf):
        """cex mode: mark states in which a decision on array CONTENTS could go either way; a witness
        is only believed on a path whose content-dependent decisions were all forced."""
        if not self.cex:
            return states
        content = any(self._is_content(c) for conj in list(tdnf) + list(fdnf) for c in conj)
        if not content:
            return states
        out = []
        for st in states:
            t_ok = any(feasible(list(st) + list(c)) for c in tdnf)
            f_ok = any(feasible(list(st) + list(c)) for c in fdnf)
            st2 = St.of(list(st), st)
            st2.tainted = getattr(st, "tainted", False) or (t_ok and f_ok)
            out.append(st2)
        return out

    def split(self, states, dnf, label):
        out = []
        extra = self.take_pending()
        for st in states:
            for c in dnf:
                st2 = St.of(list(st) + list(c) + extra, st, label)
                if feasible(st2):
                    out.append(st2)
        return out

    def exec(self, n, states):
        """-> (fallthrough states, break states). Returns drop the state after checking."""
        k = tname(n)
        if not states:
            return [], []
        if k == "StatListNode":
            brk = []
            for st in n.stats:
                states, b = self.exec(st, states)
                brk += b
            return states, brk
        if k in ("GILStatNode", "CompilerDirectivesNode"):
            return self.exec(n.body, states)
        if k in ("PassStatNode", "CVarDefNode", "GlobalNode", "CImportStatNode"):
            return states, []
        if k == "ExprStatNode":
            self.check_expr(n.expr, states)
            return states, []
        if k == "ReturnStatNode":
            self.check_expr(n.value, states)
            return [], []
        if k == "RaiseStatNode":
            return [], []
        if k == "BreakStatNode":
            return [], states
        if k == "ContinueStatNode":
            if not self.cont:
                raise Unknown("continue outside a supported loop at line %d" % n.pos[1])
            self.cont[-1].extend(states)
            return [], []
        if k == "ForInStatNode":
            return self.for_range(n, states), []
        if k == "SingleAssignmentNode":
            return self.exec_assign(n, states), []
        if k == "CascadedAssignmentNode":
            raise Unknown("cascaded assignment L%d" % n.pos[1])
        if k == "InPlaceAssignmentNode":
            lhs = n.lhs
            self.check_expr(n.rhs, states)
            if tname(lhs) == "NameNode" and self.is_counter_type(lhs.type):
                try:
                    d = self.lin(n.rhs)
                except Unknown:
                    return self.havoc(states, lhs.name), []
                if n.operator == "+":
                    e = Lin.var(lhs.name) + d
                elif n.operator == "-":
                    e = Lin.var(lhs.name) - d
                else:
                    return self.havoc(states, lhs.name), []
                return self.assign(states, lhs.name, e), []
            if tname(lhs) == "MemoryViewIndexNode":
                self.check_expr(lhs, states)
                self.element_write(lhs, n.operator, n.rhs, states)
            return states, []
        if k == "IfStatNode":
            out, brk = [], []
            cur = states
            for cl in n.if_clauses:
                self.check_cond(cl.condition, cur)
                self._opaque_cond = False
                tdnf, fdnf = self.cond_cases(cl.condition)
                cur = self.attach(cur)  # facts about values read in the condition hold on both branches
                cur = self.taint_split(cur, tdnf, fdnf)
                if self.cex and self._opaque_cond:
                    tainted = []
                    for st in cur:
                        st2 = St.of(list(st), st)
                        st2.tainted = True
                        tainted.append(st2)
                    cur = tainted
                lab = "L%d:T" % cl.pos[1]
                tst = self.split(cur, tdnf, lab)
                o, b = self.exec(cl.body, tst)
                out += o
                brk += b
                cur = self.split(cur, fdnf, "L%d:F" % cl.pos[1])
            if n.else_clause is not None:
                o, b = self.exec(n.else_clause, cur)
                out += o
                brk += b
            else:
                out += cur
            return out, brk
        if k == "WhileStatNode":
            return self.loop(n, states), []
        raise Unknown("statement %s at line %d" % (k, n.pos[1]))

    def check_cond(self, n, states):
        """check_expr with short-circuit evaluation: the right operand of `a and b` is only reached when a holds."""
        m = n
        while tname(m) in ("CoerceToTempNode", "ProxyNode", "BoolBinopResultNode", "CoerceToBooleanNode", "CloneNode") and hasattr(m, "arg"):
            m = m.arg
        if tname(m) == "BoolBinopNode":
            self.check_cond(m.operand1, states)
            t1, f1 = self.cond_cases(m.operand1)
            sub = self.split(self.attach(list(states)), t1 if m.operator == "and" else f1, None)
            self.check_cond(m.operand2, sub)
            return
        self.check_expr(n, states)

    def element_write(self, lhs, op, rhs, states):
        """A[i] (op)= e on an integer array with element facts: keep a bound only if the new value respects it."""
        if tname(lhs.base) != "NameNode" or not self.is_counter_type(lhs.type):
            return
        base = lhs.base.name
        if base not in self.elem:
            self._bump(base)
            return
        lo, hi = self.elem[base]
        try:
            d = self.lin(rhs)
            self.take_pending()
        except Unknown:
            d = None
        newval = None
        if d is not None:
            if op is None:
                newval = d
            elif op in ("+", "-"):
                # the old element: a scalar that still aliases A[i], else a fresh read
                old = None
                try:
                    ixr = repr(self.lin(lhs.indices[0]))
                except Unknown:
                    ixr = None
                cur = self._versions(lhs.indices[0], base)
                for v, (arr, ir, vers, vv) in self.alias.items():
                    if arr == base and ir == ixr and vers == cur and self.ver.get(v, 0) == vv:
                        old = Lin.var(v)
                        break
                if old is not None:
                    newval = old + d if op == "+" else old - d
        for which, bound in (("lo", lo), ("hi", hi)):
            if bound is None or (base, which) in self.weakened:
                continue
            ok = newval is not None and bool(states) and all(entails(st, bound.le(newval) if which == "lo" else newval.le(bound)) for st in states)
            if not ok and states:
                self.weakened.add((base, which))
        self._bump(base)

    def for_range(self, n, entry_states):
        """for i in range(stop) / range(start, stop) over C integers, with `continue`."""
        tgt = n.target
        it = n.iterator
        seq = it.sequence if hasattr(it, "sequence") else None
        while seq is not None and tname(seq) in ("CoerceToTempNode", "CloneNode", "NoneCheckNode"):
            seq = seq.arg
        if tname(tgt) != "NameNode" or not self.is_counter_type(tgt.type) or seq is None or tname(seq) != "SimpleCallNode" \
                or tname(seq.function) != "NameNode" or seq.function.name != "range" or n.else_clause is not None:
            raise Unknown("statement ForInStatNode (not `for <C int> in range(...)`) at line %d" % n.pos[1])
        args = seq.args if getattr(seq, "args", None) is not None else seq.arg_tuple.args
        if len(args) not in (1, 2):
            raise Unknown("range() with a step at line %d" % n.pos[1])
        start = Lin.const(0) if len(args) == 1 else self.lin(args[0])
        stop = self.lin(args[-1])
        i = tgt.name
        mod = self.modified(n.body) | {i}
        if any(v in mod for v in stop.d if v != 1):
            raise Unknown("range() bound modified inside the loop at line %d" % n.pos[1])
        one = Lin.const(1)
        X = Lin.var(i)
        in_dnf = [[(X + one).le(stop)]]
        out_dnf = [[stop.le(X)]]

        def body_once(head):
            self.cont.append([])
            fall, brk = self.exec(n.body, head)
            fall = fall + self.cont.pop()
            nxt = self.assign(fall, i, X + one) if fall else []
            return nxt, brk

        states = self.assign(entry_states, i, start)
        if self.cex:
            exits = []
            cur = states
            for itn in range(self.unroll):
                exits += self.havoc(self.split(cur, out_dnf, None), i)
                head = self.split(cur, in_dnf, "L%d:iter%d" % (n.pos[1], itn + 1))
                cur, brk = body_once(head)
                exits += brk
            return exits
        exits = []
        for entry in states:
            for v in mod:
                self._bump(v)
            for arr in self.written_arrays(n.body):
                self._bump(arr)
            vars_ = sorted(set(v for c in entry for v in c[0]))
            cands = {}

            def add(c):
                c = norm(c)
                cands[(ckey(c), c[1])] = c

            for c in entry:
                add(c)
            modl = sorted(v for v in mod)
            lens = [v for v in vars_ if v not in mod and not v.startswith("rd")]
            M = [Lin.var(v) for v in modl]
            Ls = [Lin.var(v) for v in lens]
            for x in M:
                for kk in (-1, 0, 1):
                    add(Lin.const(kk).le(x))
                for l in Ls:
                    for kk in (-1, 0):
                        add((x - l).le(Lin.const(kk)))
            for x, y in itertools.permutations(M, 2):
                for kk in (-1, 0, 1):
                    add((x - y).le(Lin.const(kk)))
            add(start.le(X))
            add(X.le(stop)) if entails(entry, start.le(stop)) else None
            inv = [c for c in cands.values() if entails(entry, c)]
            saved = self.record
            self.record = False
            rounds = 0
            while True:
                rounds += 1
                head = [St.of(inv + c) for c in in_dnf]
                out, brk = body_once([h for h in head if feasible(h)])
                new = [c for c in inv if all(entails(st, c) for st in out)]
                if len(new) == len(inv):
                    break
                inv = new
            self.record = saved
            self.loops.append({"line": n.pos[1], "candidates": len(cands), "invariant_conjuncts": len(inv), "rounds": rounds, "kind": "for-range"})
            head = [St.of(inv + c) for c in in_dnf]
            out, brk = body_once([h for h in head if feasible(h)])  # recording pass
            done = [x for x in (St.of(inv + c) for c in out_dnf) if feasible(x)]
            exits += brk + self.havoc(done, i)
        return exits

    def written_arrays(self, n):
        out = set()
        for x in walk(n):
            if tname(x) in ("SingleAssignmentNode", "InPlaceAssignmentNode") and tname(x.lhs) == "MemoryViewIndexNode" and tname(x.lhs.base) == "NameNode":
                out.add(x.lhs.base.name)
        return out

    def exec_assign(self, n, states):
        self.check_expr(n.rhs, states)
        lhs = n.lhs
        lk = tname(lhs)
        if lk == "MemoryViewIndexNode":
            self._writing = True
            self.check_expr(lhs, states)
            self._writing = False
            # A[i] = A[i] + e  /  A[i] = e + A[i]  /  A[i] = A[i] - e  is the in-place form
            r = n.rhs
            while tname(r) in ("CoerceToTempNode", "CloneNode", "TypecastNode") and (hasattr(r, "arg") or hasattr(r, "operand")):
                r = r.arg if hasattr(r, "arg") else r.operand
            if tname(r) in ("AddNode", "SubNode"):
                def same_cell(x):
                    while tname(x) in ("CoerceToTempNode", "CloneNode", "TypecastNode") and (hasattr(x, "arg") or hasattr(x, "operand")):
                        x = x.arg if hasattr(x, "arg") else x.operand
                    if tname(x) != "MemoryViewIndexNode" or tname(x.base) != "NameNode" or tname(lhs.base) != "NameNode" or x.base.name != lhs.base.name or len(x.indices) != len(lhs.indices):
                        return False
                    try:
                        return all(repr(self.lin(a)) == repr(self.lin(b)) for a, b in zip(x.indices, lhs.indices))
                    except Unknown:
                        return False
                if same_cell(r.operand1):
                    self.element_write(lhs, "+" if tname(r) == "AddNode" else "-", r.operand2, states)
                    return states
                if tname(r) == "AddNode" and same_cell(r.operand2):
                    self.element_write(lhs, "+", r.operand1, states)
                    return states
            self.element_write(lhs, None, n.rhs, states)
            return states
        if lk != "NameNode":
            # e.g. result[:left_len] = left_array : ordinary (checked) Python indexing
            return states
        t = tstr(lhs.type)
        if self.is_counter_type(lhs.type):
            self._last_read = None
            cases = self.cond_expr_cases(n.rhs)
            out = []
            for cons, e in cases:
                sts = self.split(states, [cons], None)
                if e is None:
                    out += self.havoc(sts, lhs.name)
                else:
                    out += self.assign(sts, lhs.name, e)
            r = n.rhs
            while tname(r) in ("CoerceToTempNode", "CloneNode", "TypecastNode") and hasattr(r, "arg"):
                r = r.arg
            self.alias.pop(lhs.name, None)
            self.content_vars.discard(lhs.name)
            if tname(r) == "MemoryViewIndexNode" and self._last_read is not None:
                rsym, base, ixr, vers = self._last_read
                self.alias[lhs.name] = (base, ixr, vers, self.ver.get(lhs.name, 0))
                self.content_vars.add(lhs.name)
                e0 = self.elem0.get(base)
                if e0 is not None and e0[1] == self.ver.get(base, 0):
                    try:
                        ix = self.lin(r.indices[0])
                        pinned = []
                        for st in out:
                            if entails(st, ix.le(Lin.const(0))) and entails(st, Lin.const(0).le(ix)):
                                x = Lin.var(lhs.name)
                                pinned.append(St.of(list(st) + [x.le(e0[0]), e0[0].le(x)], st))
                            else:
                                pinned.append(st)
                        out = pinned
                    except Unknown:
                        pass
            return out
        if t.endswith("[:]"):
            src = n.rhs
            while tname(src) in ("CoerceToMemViewSliceNode", "CoerceToTempNode", "CloneNode"):
                src = src.arg
            self._bump(lhs.name)
            if tname(src) == "NameNode" and src.name in self.pyfacts and self.pyfacts[src.name].get("len") is not None:
                f = self.pyfacts[src.name]
                if self.is_counter_type(getattr(lhs.type, "dtype", None)) or str(lhs.type).startswith(("long[", "int[", "Py_ssize_t[")):
                    self.elem[lhs.name] = [f.get("lo"), f.get("hi")]
                    if f.get("first") is not None:
                        self.elem0[lhs.name] = (f["first"], self.ver.get(lhs.name, 0))
                return self.assign(states, "len_" + lhs.name, f["len"])
            if tname(src) == "NameNode" and ("pylen_" + src.name) in self.pylen:
                return self.assign(states, "len_" + lhs.name, self.pylen["pylen_" + src.name])
            sts = self.havoc(states, "len_" + lhs.name)
            # a length is never negative
            nn = Lin.const(0).le(Lin.var("len_" + lhs.name))
            out = []
            for st in sts:
                st2 = St.of(list(st) + [nn], st)
                if self.cex and not (tname(src) == "NameNode" and src.name in self._wrapping_alloc):
                    # the length of a buffer obtained from an object this engine cannot size (a helper's return value, a
                    # cached workspace) is NOT a free input: a "counterexample" that picks it is not a witness
                    st2.tainted = True
                out.append(st2)
            return out
        if t in ("Python object", "list object"):
            facts = None
            try:
                facts = self.py_expr(n.rhs, states)
            except Unknown:
                facts = None
            if facts is not None and (facts.get("len") is not None or facts.get("tag") is not None):
                self.pyfacts[lhs.name] = facts
                cons = facts.pop("cons", [])
                if cons:
                    states = [St.of(list(st) + cons, st) for st in states]
                if facts.get("len") is not None and tname(n.rhs) not in ("GeneralCallNode",):
                    return states
            else:
                self.pyfacts.pop(lhs.name, None)
        if t == "Python object":
            r = n.rhs
            while tname(r) in ("CoerceToTempNode", "CloneNode"):
                r = r.arg
            if tname(r) in ("GeneralCallNode", "SimpleCallNode") and tname(r.function) == "AttributeNode" and r.function.attribute in ("empty", "zeros", "ones"):
                if tname(r) == "GeneralCallNode":
                    args = r.positional_args.args
                else:
                    args = r.args if getattr(r, "args", None) is not None else r.arg_tuple.args
                if args:
                    try:
                        e = self.lin(args[0])
                        snap = "snap_" + lhs.name
                        self.pylen["pylen_" + lhs.name] = Lin.var(snap)
                        return self.assign(states, snap, e)
                    except Unknown:
                        # the size is not linear in the counters.  When it is computed from ELEMENT VALUES in a fixed-width
                        # unsigned C type with a `+ constant` (highest - lowest + 1), it wraps: with 0 and the type's maximum
                        # both present the sum is 0, and by choice of contents it takes any value - so the length of this
                        # buffer really is free, and a counterexample that picks it is a witness (see the taint below)
                        if self._size_wraps(args[0]):
                            self._wrapping_alloc.add(lhs.name)
            self.pylen.pop("pylen_" + lhs.name, None)
            return states
        return states  # data variable

    def _size_wraps(self, node):
        for x in walk(node):
            if tname(x) in ("AddNode", "SubNode"):
                names = [y for y in walk(x) if tname(y) == "NameNode" and getattr(y, "type", None) is not None]
                data_unsigned = [y for y in names if not self.is_counter_type(y.type) and str(y.type).replace("const ", "") in ("uint32", "uint64", "unsigned int", "unsigned long", "uint32_t", "uint64_t", "uint16", "uint8")]
                plus = [y for y in walk(x) if tname(y) == "IntNode" and int(y.value) > 0]
                if data_unsigned and plus and tname(x) == "AddNode":
                    return True
        return False

    # ---------------- Python-level prelude: lengths and element bounds of arrays built with NumPy
    def _np_call(self, r):
        """(function name, positional args) of numpy.<fn>(...) / len(...), else None"""
        if tname(r) not in ("GeneralCallNode", "SimpleCallNode"):
            return None
        fn = r.function
        if tname(r) == "GeneralCallNode":
            args = r.positional_args.args
        else:
            args = r.args if getattr(r, "args", None) is not None else r.arg_tuple.args
        if tname(fn) == "AttributeNode" and tname(fn.obj) == "NameNode" and fn.obj.name in ("numpy", "np"):
            return fn.attribute, list(args)
        if tname(fn) == "AttributeNode":
            return "." + fn.attribute, [fn.obj] + list(args)
        return None

    def py_expr(self, r, states):
        """Facts about a Python-level array/list expression: {"len": Lin|None, "lo": Lin|None, "hi": Lin|None,
        "tag": provenance, "cons": constraints to add}.  Unknown forms give {}."""
        while tname(r) in ("CoerceToTempNode", "CloneNode", "CoerceToPyTypeNode", "NoneCheckNode"):
            r = r.arg
        k = tname(r)
        zero = Lin.const(0)
        if k == "NameNode":
            f = self.pyfacts.get(r.name)
            return dict(f, name=r.name) if f else {"name": r.name}
        if k == "ListNode":
            if all(tname(a) == "IntNode" for a in r.args):
                vals = [int(a.value) for a in r.args]
                return {"len": Lin.const(len(vals)), "lo": Lin.const(min(vals)) if vals else None, "hi": Lin.const(max(vals)) if vals else None, "tag": ("ints", tuple(vals))}
            return {"items": [self.py_expr(a, states) for a in r.args], "tag": ("list",)}
        if k == "ComprehensionNode":
            loop = r.loop
            seq = loop.iterator.sequence
            while tname(seq) in ("NoneCheckNode", "CoerceToTempNode"):
                seq = seq.arg
            if tname(loop) != "ForInStatNode" or tname(seq) != "NameNode" or tname(loop.target) != "NameNode":
                return {}
            X, v = seq.name, loop.target.name
            xlen = (self.pyfacts.get(X) or {}).get("len")
            body = loop.body
            if tname(body) == "StatListNode" and len(body.stats) == 1:
                body = body.stats[0]
            if tname(body) == "ComprehensionAppendNode":
                e = body.expr
                while tname(e) in ("CoerceToPyTypeNode", "CoerceToTempNode"):
                    e = e.arg
                out = {"len": xlen, "tag": ("map", X)}
                x_nonempty = bool((self.pyfacts.get(X) or {}).get("nonempty_elems"))
                if xlen is None:
                    sym = "pylen_" + X
                    out["len"] = Lin.var(sym)
                    out["cons"] = [zero.le(Lin.var(sym))]
                # [a.shape[0] for a in X]: the lengths of the arrays in X
                if tname(e) == "IndexNode" and tname(e.base) == "AttributeNode" and e.base.attribute == "shape" and tname(e.base.obj) == "NameNode" and e.base.obj.name == v \
                        and tname(e.index) == "IntNode" and int(e.index.value) == 0:
                    out.update(lo=Lin.const(1) if x_nonempty else zero, tag=("lengths_of", X))
                return out
            if tname(body) == "IfStatNode" and len(body.if_clauses) == 1 and body.else_clause is None:
                sym = "pylen_%s_L%d" % (X, r.pos[1])
                L = Lin.var(sym)
                cons = [zero.le(L)]
                if xlen is not None:
                    cons.append(L.le(xlen))
                out = {"len": L, "cons": cons, "tag": ("filter", X)}
                c = body.if_clauses[0].condition
                while tname(c) in ("CoerceToTempNode", "CoerceToBooleanNode", "CloneNode") and hasattr(c, "arg"):
                    c = c.arg
                if tname(c) == "SimpleCallNode" and tname(c.function) == "NameNode" and c.function.name == "len":
                    ca = c.args if getattr(c, "args", None) is not None else c.arg_tuple.args
                    a0 = ca[0]
                    while tname(a0) in ("CoerceToPyTypeNode", "CoerceToTempNode"):
                        a0 = a0.arg
                    app = body.if_clauses[0].body
                    if tname(app) == "StatListNode" and len(app.stats) == 1:
                        app = app.stats[0]
                    if tname(a0) == "NameNode" and a0.name == v and tname(app) == "ComprehensionAppendNode" and tname(app.expr) == "NameNode" and app.expr.name == v:
                        out["nonempty_elems"] = True  # [a for a in X if len(a)]
                return out
            return {}
        if k == "SliceIndexNode":
            b = self.py_expr(r.base, states)
            start, stop = r.start, r.stop
            if not b or b.get("len") is None:
                return {}
            if (start is None or tname(start) == "NoneNode") and stop is not None and tname(stop) == "IntNode" and int(stop.value) == -1:
                if states and all(entails(st, Lin.const(1).le(b["len"])) for st in states):
                    return {"len": b["len"] - Lin.const(1), "lo": b.get("lo"), "hi": b.get("hi"), "tag": ("droplast", b.get("tag"), b.get("name"))}
            return {}
        if k == "AddNode":
            a, b = self.py_expr(r.operand1, states), self.py_expr(r.operand2, states)
            if not a or not b:
                return {}
            for x, y in ((a, b), (b, a)):
                tg = x.get("tag")
                if tg and tg[0] == "excl_cumsum" and y.get("name") == tg[1]:
                    # concatenate([[0], cumsum(L)[:-1]]) + L == cumsum(L), element by element
                    L = self.pyfacts.get(tg[1]) or {}
                    self.lemmas.append("exclusive prefix sums of %s + %s = inclusive prefix sums of %s" % (tg[1], tg[1], tg[1]))
                    return {"len": x.get("len"), "lo": L.get("lo"), "hi": x.get("hi"), "tag": ("incl_cumsum", tg[1])}
            if a.get("len") is not None and b.get("len") is not None and states and all(entails(st, a["len"].le(b["len"])) and entails(st, b["len"].le(a["len"])) for st in states):
                lo = a["lo"] + b["lo"] if a.get("lo") is not None and b.get("lo") is not None else None
                hi = a["hi"] + b["hi"] if a.get("hi") is not None and b.get("hi") is not None else None
                return {"len": a["len"], "lo": lo, "hi": hi, "tag": ("sum",)}
            return {}
        call = self._np_call(r)
        if call is None:
            return {}
        fn, args = call
        if fn in ("empty", "zeros", "ones") and args:
            try:
                return {"len": self.lin(args[0]), "tag": (fn,)}
            except Unknown:
                return {}
        if fn in ("array", "asarray") and args:
            return dict(self.py_expr(args[0], states), name=None)
        if fn == "cumsum" and args:
            a = self.py_expr(args[0], states)
            if not a or a.get("len") is None:
                return {}
            out = {"len": a["len"], "tag": ("cumsum", a.get("name"))}
            if a.get("lo") is not None and states and all(entails(st, zero.le(a["lo"])) for st in states):
                out["lo"] = a["lo"]
                tg = a.get("tag")
                if tg and tg[0] == "lengths_of":
                    # sum of the lengths of the arrays in X = length of their concatenation
                    out["hi"] = Lin.var("sumlen_" + tg[1])
                    self.lemmas.append("every prefix sum of the (non-negative) lengths of %s is at most len(concatenate(%s))" % (tg[1], tg[1]))
            return out
        if fn == "concatenate" and args:
            a = self.py_expr(args[0], states)
            if a.get("name") and not a.get("items"):
                X = a["name"]
                S = Lin.var("sumlen_" + X)
                cons = [zero.le(S)]
                fx = self.pyfacts.get(X) or {}
                if fx.get("nonempty_elems") and fx.get("len") is not None:
                    cons.append(fx["len"].le(S))  # every array contributes at least one element
                return {"len": S, "cons": cons, "tag": ("concat", X)}
            items = a.get("items")
            if items and all(i.get("len") is not None for i in items):
                total = items[0]["len"]
                for i in items[1:]:
                    total = total + i["len"]
                out = {"len": total, "tag": ("concat-items",)}
                for which in ("lo", "hi"):
                    cands = [i.get(which) for i in items]
                    if all(c is not None for c in cands) and states:
                        for c in cands:
                            if all(all(entails(st, c.le(o) if which == "lo" else o.le(c)) for st in states) for o in cands):
                                out[which] = c
                                break
                if items[0].get("tag") and items[0]["tag"][0] == "ints" and items[0]["tag"][1]:
                    out["first"] = Lin.const(items[0]["tag"][1][0])
                # [[0], cumsum(L)[:-1]]: the exclusive prefix sums of L
                if len(items) == 2 and items[0].get("tag") == ("ints", (0,)) and items[1].get("tag") and items[1]["tag"][0] == "droplast" \
                        and items[1]["tag"][1] and items[1]["tag"][1][0] == "cumsum" and items[1]["tag"][1][1]:
                    out["tag"] = ("excl_cumsum", items[1]["tag"][1][1])
                return out
        return {}

    def cond_expr_cases(self, rhs):
        r = rhs
        while tname(r) in ("EvalWithTempExprNode",):
            r = r.subexpression
        while tname(r) in ("CoerceToTempNode", "TypecastNode", "CloneNode") and hasattr(r, "arg"):
            r = r.arg
        if tname(r) == "CondExprNode":
            tdnf, fdnf = self.cond_cases(r.test if hasattr(r, "test") else r.condition)
            res = []
            for c in tdnf:
                res.append((c, self.try_lin(r.true_val)))
            for c in fdnf:
                res.append((c, self.try_lin(r.false_val)))
            return res
        return [([], self.try_lin(rhs))]

    def try_lin(self, n):
        try:
            return self.lin(n)
        except Unknown:
            return None

    def modified(self, n):
        out = set()
        for x in walk(n):
            if tname(x) in ("SingleAssignmentNode", "InPlaceAssignmentNode") and tname(x.lhs) == "NameNode" and self.is_counter_type(x.lhs.type):
                out.add(x.lhs.name)
        return out

    def loop(self, n, entry_states):
        if self.cex:
            exits = []
            cur = entry_states
            for it in range(self.unroll):
                if n.condition is not None:
                    self.check_expr(n.condition, cur)
                tdnf, fdnf = self.cond_cases(n.condition)
                exits += self.split(cur, fdnf, None)
                head = self.split(cur, tdnf, "L%d:iter%d" % (n.pos[1], it + 1))
                cur, brk = self.exec(n.body, head)
                exits += brk
            return exits  # paths needing more iterations are cut (bounded mode)
        exits = []
        for entry in entry_states:  # trace partitioning per entry disjunct
            for v in self.modified(n.body):
                self._bump(v)
            for arr in self.written_arrays(n.body):
                self._bump(arr)
            vars_ = sorted(set(v for c in entry for v in c[0] if not str(v).startswith("rd")))
            entry = St.of([c for c in entry if not any(str(v).startswith("rd") for v in c[0])], entry)
            cands = {}

            def add(c):
                c = norm(c)
                cands[(ckey(c), c[1])] = c

            for c in entry:
                add(c)
            mod = sorted(self.modified(n.body))
            lens = [v for v in vars_ if v not in mod]
            M = [Lin.var(v) for v in mod]
            Ls = [Lin.var(v) for v in lens]
            for x in M:
                for kk in (0, 1):
                    add(Lin.const(kk).le(x))
                for l in Ls:
                    for kk in (-1, 0):
                        add((x - l).le(Lin.const(kk)))
            for x, y in itertools.permutations(M, 2):
                for kk in (-1, 0, 1):
                    add((x - y).le(Lin.const(kk)))
            for x in M:
                for y, z in itertools.combinations(M, 2):
                    if x is y or x is z:
                        continue
                    for kk in (-1, 0):
                        add((x - y - z).le(Lin.const(kk)))
            inv = [c for c in cands.values() if entails(entry, c)]
            saved = self.record
            self.record = False
            rounds = 0
            while True:
                rounds += 1
                tdnf, fdnf = self.cond_cases(n.condition)
                head = [St.of(inv + c) for c in tdnf]
                out, brk = self.exec(n.body, [h for h in head if feasible(h)])
                new = [c for c in inv if all(entails(st, c) for st in out)]
                if len(new) == len(inv):
                    break
                inv = new
            self.record = saved
            self.loops.append({"line": n.pos[1], "candidates": len(cands), "invariant_conjuncts": len(inv), "rounds": rounds})
            tdnf, fdnf = self.cond_cases(n.condition)
            head = [St.of(inv + c) for c in tdnf]
            if n.condition is not None:
                self.check_expr(n.condition, [St.of(inv)])
            out, brk = self.exec(n.body, [h for h in head if feasible(h)])  # recording pass
            exits += brk + [x for x in (St.of(inv + c) for c in fdnf) if feasible(x)]
        return exits

    # ---------------- driver
    def run(self):
        # one analysis per (function node, mode): the checks of several rules ask for the same result
        key = (id(self.f.node), self.cex, self.unroll)
        hit = _RUNS.get(key)
        if hit is not None:
            if isinstance(hit, Exception):
                raise hit
            return hit
        try:
            out = self._run()
        except Unknown as e:
            _RUNS[key] = e
            raise
        _RUNS[key] = out
        return out

    def _run(self):
        init = []
        for arg in self.f.node.args:
            if tstr(arg.type).endswith("[:]"):
                init.append(Lin.const(0).le(Lin.var("len_" + arg.name)))
        st0 = St.of(list(init))
        self.exec(self.f.node.body, [st0])
        return self


def count_sites(cyfunc):
    n = 0
    for x in walk(cyfunc.node.body):
        if tname(x) == "MemoryViewIndexNode":
            n += 1
    return n


def analyse_function(cyfunc):
    """-> dict(status='ok'|'unsupported', sites=[Site], loops=[...], nonaffine=[...], reason=...)"""
    res = {"name": cyfunc.name, "boundscheck": cyfunc.boundscheck, "wraparound": cyfunc.wraparound,
           "mv_sites": count_sites(cyfunc), "sites": [], "loops": [], "nonaffine": [], "status": "ok", "reason": ""}
    if cyfunc.boundscheck:
        return res
    try:
        a = Analyzer(cyfunc).run()
    except Unknown as e:
        res["status"] = "unsupported"
        res["reason"] = str(e)
        return res
    res["loops"] = a.loops
    res["nonaffine"] = a.nonaffine
    res["lemmas"] = sorted(set(a.lemmas))
    res["element_facts"] = {k: [repr(v[0]) if v[0] is not None else None, repr(v[1]) if v[1] is not None else None] for k, v in a.elem.items()}
    res["weakened"] = sorted(a.weakened)
    failing = [k for k in a.order if not a.sites[k].ok]
    if failing:
        try:
            b = Analyzer(cyfunc, cex=True).run()
        except Unknown as e:
            b = None
        for k in failing:
            s = a.sites[k]
            if b is not None and k in b.sites and b.sites[k].witness is not None:
                s.witness = b.sites[k].witness
    res["sites"] = [a.sites[k] for k in a.order]
    return res
