"""Engine L (DESIGN 3.5): linear-template invariants over Cython's typed tree.

For a def compiled with boundscheck=False, every typed-memoryview index `a[i]` yields
the obligations  0 <= i  (wraparound=False)  and  i <= len(a)-1.  The abstract state is a
disjunction (trace partitions) of conjunctions of linear inequalities over the C integer
locals and symbolic lengths; loop invariants are found Houdini-style from a small
template pool; entailment is Fourier-Motzkin (sa/fm.py).  An obligation the invariants
cannot discharge is VIOLATED only if the bounded exact mode (<= 2 loop iterations, no
weakening) finds a concrete integer model reaching the access out of bounds; otherwise
it is UNDECIDED.  Nothing is executed.
"""
import itertools

from .cyfront import tname, children, walk
from .fm import feasible, entails, project, norm, key as ckey, model, cstr

INT_TYPES = ("int", "long", "Py_ssize_t", "short", "unsigned int", "unsigned long", "size_t", "long long", "const int", "const long")


class Unknown(Exception):
    pass


class Lin:
    """linear expression: dict var->coef plus constant under key 1"""

    def __init__(self, d=None):
        self.d = dict(d or {})

    @staticmethod
    def const(k):
        return Lin({1: k})

    @staticmethod
    def var(v):
        return Lin({v: 1})

    def __add__(self, o):
        d = dict(self.d)
        for k, v in o.d.items():
            d[k] = d.get(k, 0) + v
        return Lin(d)

    def __neg__(self):
        return Lin({k: -v for k, v in self.d.items()})

    def __sub__(self, o):
        return self + (-o)

    def scale(self, c):
        return Lin({k: v * c for k, v in self.d.items()})

    def is_const(self):
        return all(k == 1 or v == 0 for k, v in self.d.items())

    def le(self, o):
        e = self - o
        k = -e.d.get(1, 0)
        return ({v: a for v, a in e.d.items() if v != 1 and a != 0}, k)

    def __repr__(self):
        parts = []
        for v, a in self.d.items():
            if a == 0:
                continue
            if v == 1:
                parts.append(str(a))
            elif a == 1:
                parts.append(str(v))
            else:
                parts.append("%s*%s" % (a, v))
        return " + ".join(parts).replace("+ -", "- ") or "0"


class St(list):
    """A conjunction of constraints plus the branch trace that led to it."""

    trace = ()

    @staticmethod
    def of(cons, parent=None, label=None):
        x = St(cons)
        tr = getattr(parent, "trace", ())
        x.trace = tr + ((label,) if label else ())
        return x


class Site:
    def __init__(self, func, line, col, base, idx, kind, desc):
        self.func, self.line, self.col, self.base, self.idx, self.kind, self.desc = func, line, col, base, idx, kind, desc
        self.ok = True
        self.reached = False
        self.fail_state = None
        self.witness = None
        self.note = ""

    def key(self):
        return (self.func, self.line, self.col, self.base, self.kind)


class Analyzer:
    def __init__(self, cyfunc, cex=False, unroll=2):
        self.f = cyfunc
        self.cex = cex
        self.unroll = unroll
        self.sites = {}
        self.order = []
        self.record = True
        self.pylen = {}
        self.loops = []
        self.nonaffine = []
        self.trace = []  # branch trace (cex mode)

    # ---------------- expressions
    def is_counter_type(self, t):
        s = str(t)
        return s in INT_TYPES

    def lin(self, n):
        k = tname(n)
        if k == "IntNode":
            return Lin.const(int(n.value))
        if k == "NameNode":
            if not self.is_counter_type(n.type):
                raise Unknown("data variable %s of type %s" % (n.name, n.type))
            return Lin.var(n.name)
        if k in ("AddNode", "SubNode"):
            a, b = self.lin(n.operand1), self.lin(n.operand2)
            return a + b if k == "AddNode" else a - b
        if k == "MulNode":
            a, b = self.lin(n.operand1), self.lin(n.operand2)
            if a.is_const():
                return b.scale(a.d.get(1, 0))
            if b.is_const():
                return a.scale(b.d.get(1, 0))
            raise Unknown("non-linear product")
        if k == "UnaryMinusNode":
            return -self.lin(n.operand)
        if k == "IndexNode" and tname(n.base) == "AttributeNode" and n.base.attribute == "shape":
            ix = n.index
            if tname(ix) == "IntNode" and int(ix.value) == 0 and tname(n.base.obj) == "NameNode":
                return Lin.var("len_" + n.base.obj.name)
            raise Unknown("shape[k], k != 0")
        if k in ("CoerceToTempNode", "CoerceToPyTypeNode", "CoerceFromPyTypeNode", "TypecastNode", "ProxyNode", "CloneNode",
                 "BoolBinopResultNode", "CoerceIntToBytesNode", "NoneCheckNode"):
            return self.lin(n.arg)
        if k == "TypecastNode":
            return self.lin(n.operand)
        if k == "ResultRefNode":
            return self.lin(n.expression)
        if k == "EvalWithTempExprNode":
            return self.lin(n.subexpression)
        raise Unknown(k)

    def cond_cases(self, n):
        """(true_dnf, false_dnf); a dnf is a list of constraint lists; data tests -> ([[]], [[]])."""
        if n is None:
            return ([[]], [])  # Cython folds `while 1` into a condition-less loop
        k = tname(n)
        if k in ("CoerceToTempNode", "ProxyNode", "BoolBinopResultNode", "CoerceToBooleanNode", "CloneNode", "TypecastNode"):
            return self.cond_cases(n.arg if hasattr(n, "arg") else n.operand)
        if k == "IntNode":
            return ([[]], []) if int(n.value) else ([], [[]])
        if k == "BoolNode":
            return ([[]], []) if n.value else ([], [[]])
        if k == "NotNode":
            t, f = self.cond_cases(n.operand)
            return f, t
        if k == "BoolBinopNode":
            t1, f1 = self.cond_cases(n.operand1)
            t2, f2 = self.cond_cases(n.operand2)
            if n.operator == "and":
                return ([a + b for a in t1 for b in t2], f1 + [a + b for a in t1 for b in f2])
            return (t1 + [a + b for a in f1 for b in t2], [a + b for a in f1 for b in f2])
        if k == "PrimaryCmpNode":
            if getattr(n, "cascade", None) is not None:
                return ([[]], [[]])
            try:
                a, b = self.lin(n.operand1), self.lin(n.operand2)
            except Unknown:
                return ([[]], [[]])
            one = Lin.const(1)
            op = n.operator
            if op == "<":
                return ([[(a + one).le(b)]], [[b.le(a)]])
            if op == "<=":
                return ([[a.le(b)]], [[(b + one).le(a)]])
            if op == ">":
                return ([[(b + one).le(a)]], [[a.le(b)]])
            if op == ">=":
                return ([[b.le(a)]], [[(a + one).le(b)]])
            if op == "==":
                return ([[a.le(b), b.le(a)]], [[(a + one).le(b)], [(b + one).le(a)]])
            if op == "!=":
                return ([[(a + one).le(b)], [(b + one).le(a)]], [[a.le(b), b.le(a)]])
        if k == "NameNode" and self.is_counter_type(n.type):
            x = Lin.var(n.name)
            zero, one = Lin.const(0), Lin.const(1)
            return ([[(x + one).le(zero)], [one.le(x)]], [[x.le(zero), zero.le(x)]])
        return ([[]], [[]])

    # ---------------- obligations
    def mv_nodes(self, n, acc):
        if n is None:
            return acc
        if tname(n) == "MemoryViewIndexNode":
            acc.append(n)
        for c in children(n):
            self.mv_nodes(c, acc)
        return acc

    def site(self, mv, base, kind, desc, idx):
        s = Site(self.f.name, mv.pos[1], mv.pos[2], base, idx, kind, desc)
        k = s.key()
        if k not in self.sites:
            self.sites[k] = s
            self.order.append(k)
        return self.sites[k]

    def check_expr(self, n, states):
        for mv in self.mv_nodes(n, []):
            base = mv.base.name if tname(mv.base) == "NameNode" else None
            if base is None or len(mv.indices) != 1:
                self.nonaffine.append((mv.pos[1], "memoryview base/indices shape"))
                continue
            idx = mv.indices[0]
            try:
                i = self.lin(idx)
            except Unknown as e:
                self.nonaffine.append((mv.pos[1], "%s[<index depends on %s>]" % (base, e)))
                continue
            L = Lin.var("len_" + base)
            lower = Lin.const(0).le(i) if not self.f.wraparound else (-L).le(i)
            upper = (i + Lin.const(1)).le(L)
            for kind, desc, c in (("lower", "%s >= %s" % (i, "0" if not self.f.wraparound else "-len(%s)" % base), lower),
                                  ("upper", "%s <= len(%s)-1" % (i, base), upper)):
                s = self.site(mv, base, kind, "%s[%s]: %s" % (base, i, desc), repr(i))
                if self.record:
                    if states:
                        s.reached = True
                    if self.cex:
                        neg = ({v: -a for v, a in c[0].items()}, -c[1] - 1)
                        for st in states:
                            if s.witness is None and feasible(list(st) + [neg]):
                                m = model(list(st) + [neg])
                                if m is not None:
                                    s.witness = {"model": m, "trace": list(getattr(st, "trace", ()))}
                                    s.ok = False
                    else:
                        bad = [st for st in states if not entails(st, c)]
                        if bad:
                            s.ok = False
                            if s.fail_state is None:
                                s.fail_state = bad[0]
                # assume the obligation for the continuation (avoid cascades)
                new = []
                for st in states:
                    st2 = St.of(list(st) + [c], st)
                    if feasible(st2):
                        new.append(st2)
                states[:] = new

    # ---------------- statements
    def assign(self, states, var, e):
        out = []
        for st in states:
            if var in e.d:
                c = e.d.get(1, 0)
                if not (e.d.get(var) == 1 and all(k in (var, 1) or v == 0 for k, v in e.d.items())):
                    new = list(project(st, var))  # x := f(x, ...) not of the form x + c: havoc
                else:
                    new = []
                    for coefs, k in st:
                        a = coefs.get(var, 0)
                        new.append((dict(coefs), k + a * c))
            else:
                new = list(project(st, var))
                x = Lin.var(var)
                new += [x.le(e), e.le(x)]
            out.append(St.of(new, st))
        return out

    def havoc(self, states, var):
        out = []
        for st in states:
            out.append(St.of(project(st, var), st))
        return out

    def split(self, states, dnf, label):
        out = []
        for st in states:
            for c in dnf:
                st2 = St.of(list(st) + list(c), st, label)
                if feasible(st2):
                    out.append(st2)
        return out

    def exec(self, n, states):
        """-> (fallthrough states, break states). Returns drop the state after checking."""
        k = tname(n)
        if not states:
            return [], []
        if k == "StatListNode":
            brk = []
            for st in n.stats:
                states, b = self.exec(st, states)
                brk += b
            return states, brk
        if k in ("GILStatNode", "CompilerDirectivesNode"):
            return self.exec(n.body, states)
        if k in ("PassStatNode", "CVarDefNode", "GlobalNode", "CImportStatNode"):
            return states, []
        if k == "ExprStatNode":
            self.check_expr(n.expr, states)
            return states, []
        if k == "ReturnStatNode":
            self.check_expr(n.value, states)
            return [], []
        if k == "RaiseStatNode":
            return [], []
        if k == "BreakStatNode":
            return [], states
        if k == "SingleAssignmentNode":
            return self.exec_assign(n, states), []
        if k == "CascadedAssignmentNode":
            raise Unknown("cascaded assignment L%d" % n.pos[1])
        if k == "InPlaceAssignmentNode":
            lhs = n.lhs
            self.check_expr(n.rhs, states)
            if tname(lhs) == "NameNode" and self.is_counter_type(lhs.type):
                try:
                    d = self.lin(n.rhs)
                except Unknown:
                    return self.havoc(states, lhs.name), []
                if n.operator == "+":
                    e = Lin.var(lhs.name) + d
                elif n.operator == "-":
                    e = Lin.var(lhs.name) - d
                else:
                    return self.havoc(states, lhs.name), []
                return self.assign(states, lhs.name, e), []
            if tname(lhs) == "MemoryViewIndexNode":
                self.check_expr(lhs, states)
            return states, []
        if k == "IfStatNode":
            out, brk = [], []
            cur = states
            for cl in n.if_clauses:
                self.check_expr(cl.condition, cur)
                tdnf, fdnf = self.cond_cases(cl.condition)
                lab = "L%d:T" % cl.pos[1]
                tst = self.split(cur, tdnf, lab)
                o, b = self.exec(cl.body, tst)
                out += o
                brk += b
                cur = self.split(cur, fdnf, "L%d:F" % cl.pos[1])
            if n.else_clause is not None:
                o, b = self.exec(n.else_clause, cur)
                out += o
                brk += b
            else:
                out += cur
            return out, brk
        if k == "WhileStatNode":
            return self.loop(n, states), []
        raise Unknown("statement %s at line %d" % (k, n.pos[1]))

    def exec_assign(self, n, states):
        self.check_expr(n.rhs, states)
        lhs = n.lhs
        lk = tname(lhs)
        if lk == "MemoryViewIndexNode":
            self.check_expr(lhs, states)
            return states
        if lk != "NameNode":
            # e.g. result[:left_len] = left_array : ordinary (checked) Python indexing
            return states
        t = str(lhs.type)
        if self.is_counter_type(lhs.type):
            cases = self.cond_expr_cases(n.rhs)
            out = []
            for cons, e in cases:
                sts = self.split(states, [cons], None)
                if e is None:
                    out += self.havoc(sts, lhs.name)
                else:
                    out += self.assign(sts, lhs.name, e)
            return out
        if t.endswith("[:]"):
            src = n.rhs
            while tname(src) in ("CoerceToMemViewSliceNode", "CoerceToTempNode", "CloneNode"):
                src = src.arg
            if tname(src) == "NameNode" and ("pylen_" + src.name) in self.pylen:
                return self.assign(states, "len_" + lhs.name, self.pylen["pylen_" + src.name])
            sts = self.havoc(states, "len_" + lhs.name)
            # a length is never negative
            nn = Lin.const(0).le(Lin.var("len_" + lhs.name))
            out = []
            for st in sts:
                out.append(St.of(list(st) + [nn], st))
            return out
        if t == "Python object":
            r = n.rhs
            while tname(r) in ("CoerceToTempNode", "CloneNode"):
                r = r.arg
            if tname(r) in ("GeneralCallNode", "SimpleCallNode") and tname(r.function) == "AttributeNode" and r.function.attribute in ("empty", "zeros", "ones"):
                if tname(r) == "GeneralCallNode":
                    args = r.positional_args.args
                else:
                    args = r.args if getattr(r, "args", None) is not None else r.arg_tuple.args
                if args:
                    try:
                        e = self.lin(args[0])
                        snap = "snap_" + lhs.name
                        self.pylen["pylen_" + lhs.name] = Lin.var(snap)
                        return self.assign(states, snap, e)
                    except Unknown:
                        pass
            self.pylen.pop("pylen_" + lhs.name, None)
            return states
        return states  # data variable

    def cond_expr_cases(self, rhs):
        r = rhs
        while tname(r) in ("EvalWithTempExprNode",):
            r = r.subexpression
        while tname(r) in ("CoerceToTempNode", "TypecastNode", "CloneNode") and hasattr(r, "arg"):
            r = r.arg
        if tname(r) == "CondExprNode":
            tdnf, fdnf = self.cond_cases(r.test if hasattr(r, "test") else r.condition)
            res = []
            for c in tdnf:
                res.append((c, self.try_lin(r.true_val)))
            for c in fdnf:
                res.append((c, self.try_lin(r.false_val)))
            return res
        return [([], self.try_lin(rhs))]

    def try_lin(self, n):
        try:
            return self.lin(n)
        except Unknown:
            return None

    def modified(self, n):
        out = set()
        for x in walk(n):
            if tname(x) in ("SingleAssignmentNode", "InPlaceAssignmentNode") and tname(x.lhs) == "NameNode" and self.is_counter_type(x.lhs.type):
                out.add(x.lhs.name)
        return out

    def loop(self, n, entry_states):
        if self.cex:
            exits = []
            cur = entry_states
            for it in range(self.unroll):
                if n.condition is not None:
                    self.check_expr(n.condition, cur)
                tdnf, fdnf = self.cond_cases(n.condition)
                exits += self.split(cur, fdnf, None)
                head = self.split(cur, tdnf, "L%d:iter%d" % (n.pos[1], it + 1))
                cur, brk = self.exec(n.body, head)
                exits += brk
            return exits  # paths needing more iterations are cut (bounded mode)
        exits = []
        for entry in entry_states:  # trace partitioning per entry disjunct
            vars_ = sorted(set(v for c in entry for v in c[0]))
            cands = {}

            def add(c):
                c = norm(c)
                cands[(ckey(c), c[1])] = c

            for c in entry:
                add(c)
            mod = sorted(self.modified(n.body))
            lens = [v for v in vars_ if v not in mod]
            M = [Lin.var(v) for v in mod]
            Ls = [Lin.var(v) for v in lens]
            for x in M:
                for kk in (0, 1):
                    add(Lin.const(kk).le(x))
                for l in Ls:
                    for kk in (-1, 0):
                        add((x - l).le(Lin.const(kk)))
            for x, y in itertools.permutations(M, 2):
                for kk in (-1, 0, 1):
                    add((x - y).le(Lin.const(kk)))
            for x in M:
                for y, z in itertools.combinations(M, 2):
                    if x is y or x is z:
                        continue
                    for kk in (-1, 0):
                        add((x - y - z).le(Lin.const(kk)))
            inv = [c for c in cands.values() if entails(entry, c)]
            saved = self.record
            self.record = False
            rounds = 0
            while True:
                rounds += 1
                tdnf, fdnf = self.cond_cases(n.condition)
                head = [St.of(inv + c) for c in tdnf]
                out, brk = self.exec(n.body, [h for h in head if feasible(h)])
                new = [c for c in inv if all(entails(st, c) for st in out)]
                if len(new) == len(inv):
                    break
                inv = new
            self.record = saved
            self.loops.append({"line": n.pos[1], "candidates": len(cands), "invariant_conjuncts": len(inv), "rounds": rounds})
            tdnf, fdnf = self.cond_cases(n.condition)
            head = [St.of(inv + c) for c in tdnf]
            if n.condition is not None:
                self.check_expr(n.condition, [St.of(inv)])
            out, brk = self.exec(n.body, [h for h in head if feasible(h)])  # recording pass
            exits += brk + [x for x in (St.of(inv + c) for c in fdnf) if feasible(x)]
        return exits

    # ---------------- driver
    def run(self):
        init = []
        for arg in self.f.node.args:
            if str(arg.type).endswith("[:]"):
                init.append(Lin.const(0).le(Lin.var("len_" + arg.name)))
        st0 = St.of(list(init))
        self.exec(self.f.node.body, [st0])
        return self


def count_sites(cyfunc):
    n = 0
    for x in walk(cyfunc.node.body):
        if tname(x) == "MemoryViewIndexNode":
            n += 1
    return n


def analyse_function(cyfunc):
    """-> dict(status='ok'|'unsupported', sites=[Site], loops=[...], nonaffine=[...], reason=...)"""
    res = {"name": cyfunc.name, "boundscheck": cyfunc.boundscheck, "wraparound": cyfunc.wraparound,
           "mv_sites": count_sites(cyfunc), "sites": [], "loops": [], "nonaffine": [], "status": "ok", "reason": ""}
    if cyfunc.boundscheck:
        return res
    try:
        a = Analyzer(cyfunc).run()
    except Unknown as e:
        res["status"] = "unsupported"
        res["reason"] = str(e)
        return res
    res["loops"] = a.loops
    res["nonaffine"] = a.nonaffine
    failing = [k for k in a.order if not a.sites[k].ok]
    if failing:
        try:
            b = Analyzer(cyfunc, cex=True).run()
        except Unknown as e:
            b = None
        for k in failing:
            s = a.sites[k]
            if b is not None and k in b.sites and b.sites[k].witness is not None:
                s.witness = b.sites[k].witness
    res["sites"] = [a.sites[k] for k in a.order]
    return res
