"""Decision-table analysis of the k-way merge loop (set_union_merge_many) over Cython's typed tree (C08).

The loop touches element VALUES only through a three-way comparison of an array head with the running minimum, array
POSITIONS only through `cursor vs limit`, and the found-marker only through comparisons with constants.  Each of its
parts therefore has a finite decision table, which is extracted by enumerating the paths of the (loop-free) bodies and
evaluating their guards on every combination of the atoms:

    E  cursor[A] vs limit[A]      lt (array A not exhausted) | eq (exhausted)
    F  marker == its reset value  T (nothing selected yet)   | F
    C  head(A) vs minimum         lt | eq | gt

The `while 1` body must normalise to the sequence
    RESET marker; SCAN (select the minimum head); EXIT when nothing was selected; EMIT minimum, count += 1;
    ADVANCE every array whose head equals the minimum
(EMIT and ADVANCE in either order).  Nothing is executed; statements outside this schema are reported UNDECIDED, a table
that differs from the required one in a decided cell is VIOLATED with the cell as witness.

Textbook argument the tables feed (trusted, stated in the evidence): with the marker reset before a SCAN whose table is
`update iff E=lt and (F or C=lt)` over ALL arrays, the SCAN ends with the marker at its reset value iff every array is
exhausted, and otherwise with the minimum of the heads; EMIT appends it; ADVANCE `iff E=lt and C=eq` moves every array
holding it (at least the selected one: progress), so - the inputs being strictly increasing - every later head is
larger and the output is strictly increasing and contains exactly the union."""
from .cyfront import tname, tstr, walk
from .kernels import unwrap, stmts


class Undecided(Exception):
    pass


FLIP = {"<": ">", ">": "<", "<=": ">=", ">=": "<=", "==": "==", "!=": "!="}
NEG = {"<": ">=", ">": "<=", "<=": ">", ">=": "<", "==": "!=", "!=": "=="}
WIDTH = {"uint32": 32, "const uint32": 32, "unsigned int": 32, "int": 31, "long": 63, "unsigned long": 64, "unsigned long long": 64, "uint64": 64, "long long": 63, "Py_ssize_t": 63, "size_t": 64,
         "uint64_t": 64, "int64_t": 63, "uint32_t": 32, "int32_t": 31, "short": 15, "unsigned short": 16, "char": 7, "unsigned char": 8, "bint": 1, "uint16": 16, "uint8": 8}


def cond_operand(n):
    while n is not None and tname(n) in ("CoerceToTempNode", "ProxyNode", "BoolBinopResultNode", "CoerceToBooleanNode", "CloneNode", "TypecastNode"):
        n = n.arg if hasattr(n, "arg") else n.operand
    return n


class Env:
    """Scalar locals of a body, substituted into later expressions."""

    def __init__(self, base=None):
        self.m = dict(base or {})

    def copy(self):
        return Env(self.m)


def expr(n, env):
    """Canonical tuple of a C-level expression with the body's scalar locals substituted."""
    n = unwrap(n)
    k = tname(n)
    if k == "NameNode":
        return env.m.get(n.name, ("var", n.name))
    if k == "IntNode":
        return ("int", int(n.value))
    if k == "BoolNode":
        return ("int", 1 if n.value else 0)
    if k == "MemoryViewIndexNode":
        idx = n.indices
        if len(idx) != 1 or tname(unwrap(n.base)) != "NameNode":
            raise Undecided("indexing %s" % k)
        return ("idx", unwrap(n.base).name, expr(idx[0], env))
    if k in ("AddNode", "SubNode"):
        a, b = expr(n.operand1, env), expr(n.operand2, env)
        return ("add" if k == "AddNode" else "sub", a, b)
    if k == "UnaryMinusNode":
        a = expr(n.operand, env)
        if a[0] == "int":
            return ("int", -a[1])
        return ("neg", a)
    raise Undecided("expression %s" % k)


def cond(n, env):
    """Boolean structure: ('lit', op, a, b) | ('not', c) | ('and'/'or', c1, c2) | ('const', bool)."""
    n = cond_operand(n)
    k = tname(n)
    if k == "BoolBinopNode":
        return (n.operator, cond(n.operand1, env), cond(n.operand2, env))
    if k == "NotNode":
        return ("not", cond(n.operand, env))
    if k == "PrimaryCmpNode":
        if getattr(n, "cascade", None) is not None:
            raise Undecided("chained comparison")
        a, b = expr(n.operand1, env), expr(n.operand2, env)
        if a[0] == "int" and b[0] != "int" and n.operator in FLIP:
            return ("lit", FLIP[n.operator], b, a)  # literal on the right
        return ("lit", n.operator, a, b)
    if k in ("IntNode", "BoolNode"):
        return ("const", bool(int(n.value)) if k == "IntNode" else bool(n.value))
    if k == "NameNode":
        return ("lit", "!=", expr(n, env), ("int", 0))
    raise Undecided("condition %s" % k)


class Path:
    def __init__(self, conds, effects, env, exit):
        self.conds, self.effects, self.env, self.exit = conds, effects, env, exit


def paths(ss, env, conds=(), effects=()):
    """All paths through a loop-free statement list: yields Path(conds, effects, env, exit in fall/continue/break)."""
    if not ss:
        yield Path(list(conds), list(effects), env, "fall")
        return
    s, rest = ss[0], ss[1:]
    k = tname(s)
    if k == "SingleAssignmentNode":
        lhs = unwrap(s.lhs)
        v = expr(s.rhs, env)
        if tname(lhs) == "NameNode":
            e2 = env.copy()
            e2.m[lhs.name] = v
            yield from paths(rest, e2, conds, tuple(effects) + ((("var", lhs.name), v, s.pos[1]),))
        elif tname(lhs) == "MemoryViewIndexNode":
            yield from paths(rest, env, conds, tuple(effects) + ((expr(lhs, env), v, s.pos[1]),))
        else:
            raise Undecided("assignment to %s" % tname(lhs))
        return
    if k == "InPlaceAssignmentNode":
        lhs = unwrap(s.lhs)
        if s.operator not in ("+", "-"):
            raise Undecided("in-place operator %s" % s.operator)
        cur = expr(lhs, env)
        v = ("add" if s.operator == "+" else "sub", cur, expr(s.rhs, env))
        if tname(lhs) == "NameNode":
            e2 = env.copy()
            e2.m[lhs.name] = v
            yield from paths(rest, e2, conds, tuple(effects) + ((("var", lhs.name), v, s.pos[1]),))
        elif tname(lhs) == "MemoryViewIndexNode":
            # the target's own name is not substituted: ('idx', P, A) stays the cell
            yield from paths(rest, env, conds, tuple(effects) + ((cur, v, s.pos[1]),))
        else:
            raise Undecided("in-place assignment to %s" % tname(lhs))
        return
    if k == "IfStatNode":
        neg = []
        for cl in s.if_clauses:
            c = cond(cl.condition, env)
            yield from _branch(stmts(cl.body), rest, env, tuple(conds) + tuple(neg) + ((c, True),), effects)
            neg.append((c, False))
        yield from _branch(stmts(s.else_clause) if s.else_clause is not None else [], rest, env, tuple(conds) + tuple(neg), effects)
        return
    if k == "ContinueStatNode":
        yield Path(list(conds), list(effects), env, "continue")
        return
    if k == "BreakStatNode":
        yield Path(list(conds), list(effects), env, "break")
        return
    raise Undecided("statement %s at line %d" % (k, s.pos[1]))


def _branch(body, rest, env, conds, effects):
    for p in paths(body, env, conds, effects):
        if p.exit == "fall":
            yield from paths(rest, p.env, tuple(p.conds), tuple(p.effects))
        else:
            yield p


class KWay:
    def __init__(self, cyfunc):
        self.f = cyfunc
        self.name = cyfunc.name
        self.obl = []  # (status, part, line, construct, detail, witness)
        loops = [x for x in walk(cyfunc.node.body) if tname(x) == "WhileStatNode"]
        if len(loops) != 1:
            raise Undecided("%d while loops" % len(loops))
        self.loop = loops[0]
        c = cond_operand(self.loop.condition) if self.loop.condition is not None else None
        if c is not None and not (tname(c) in ("IntNode", "BoolNode") and int(c.value)):
            raise Undecided("the merge loop has a condition of its own")
        self.body = stmts(self.loop.body)
        self.types = {}
        for x in walk(cyfunc.node):
            if tname(x) == "NameNode" and getattr(x, "type", None) is not None and x.name not in self.types:
                self.types[x.name] = tstr(x.type)

    # ------------------------------------------------------------------ helpers
    def add(self, status, part, line, construct, detail="", witness=None):
        self.obl.append((status, part, line, construct, detail, witness))

    def range_loop(self, s):
        """(loop variable, start expr, stop expr) of `for v in range(...)`; Undecided otherwise."""
        seq = unwrap(s.iterator.sequence) if tname(s) == "ForInStatNode" else None
        if seq is None or tname(seq) != "SimpleCallNode" or tname(seq.function) != "NameNode" or seq.function.name != "range" or tname(unwrap(s.target)) != "NameNode":
            raise Undecided("loop at line %d is not `for v in range(...)`" % s.pos[1])
        args = seq.args if getattr(seq, "args", None) is not None else seq.arg_tuple.args
        if len(args) == 1:
            return unwrap(s.target).name, ("int", 0), expr(args[0], Env())
        if len(args) == 2:
            return unwrap(s.target).name, expr(args[0], Env()), expr(args[1], Env())
        raise Undecided("range with a step")

    # ------------------------------------------------------------------ atoms
    def classify(self, lit, A, roles):
        """-> (atom, fn) with fn(value of atom) -> bool; atoms: 'E', 'F', 'C'."""
        _, op, a, b = lit
        P, LIM, V, M, mv, reset = roles["P"], roles["LIM"], roles["V"], roles.get("M"), roles.get("mv"), roles.get("reset")
        cur = ("idx", P, ("var", A))
        lim = ("idx", LIM, ("var", A))
        head = ("idx", V, cur)
        ev3 = {"<": lambda r: r == "lt", "<=": lambda r: r in ("lt", "eq"), ">": lambda r: r == "gt", ">=": lambda r: r in ("gt", "eq"), "==": lambda r: r == "eq", "!=": lambda r: r != "eq"}
        for x, y, o in ((a, b, op), (b, a, FLIP[op])):
            if x == cur and y == lim:
                return "E", ev3[o]
            if mv is not None and x == head and y == ("var", mv):
                return "C", ev3[o]
            if M is not None and x == ("var", M) and y[0] == "int":
                c = y[1]
                pyop = {"<": lambda u, v: u < v, "<=": lambda u, v: u <= v, ">": lambda u, v: u > v, ">=": lambda u, v: u >= v, "==": lambda u, v: u == v, "!=": lambda u, v: u != v}[o]
                t = pyop(reset, c)
                others = {pyop(v, c) for v in roles["marker_values"]}
                if len(others) != 1:
                    raise Undecided("marker test %s %s %d does not separate the reset value from the selected values" % (M, o, c))
                if t == others.pop():
                    raise Undecided("marker test %s %s %d is constant" % (M, o, c))
                return "F", (lambda r, t=t: t if r else not t)
        raise Undecided("condition outside the decision table: %s" % (lit,))

    def holds(self, c, val, A, roles):
        k = c[0]
        if k == "const":
            return c[1]
        if k == "not":
            return not self.holds(c[1], val, A, roles)
        if k == "and":
            return self.holds(c[1], val, A, roles) and self.holds(c[2], val, A, roles)
        if k == "or":
            return self.holds(c[1], val, A, roles) or self.holds(c[2], val, A, roles)
        atom, fn = self.classify(c, A, roles)
        return fn(val[atom])

    def table(self, body, A, roles, atoms):
        """{assignment of atoms -> (effects, exit)} over the loop-free body."""
        import itertools
        ps = list(paths(body, Env()))
        dom = {"E": ("lt", "eq"), "F": (True, False), "C": ("lt", "eq", "gt")}
        out = {}
        for combo in itertools.product(*[dom[a] for a in atoms]):
            val = dict(zip(atoms, combo))
            taken = []
            for p in ps:
                try:
                    if all(self.holds(c, val, A, roles) == pol for c, pol in p.conds):
                        taken.append(p)
                except KeyError as e:
                    raise Undecided("the body consults %s where the schema has no such atom" % e)
            if len(taken) != 1:
                raise Undecided("%d paths for %s" % (len(taken), val))
            out[combo] = taken[0]
        return out

    # ------------------------------------------------------------------ the schema
    def analyse(self):
        body = self.body
        fors = [s for s in body if tname(s) == "ForInStatNode"]
        if len(fors) not in (1, 2):
            raise Undecided("the loop body holds %d for-loops (schema: one scan, and one advance loop or an advance of the selected array)" % len(fors))
        scan = fors[0]
        adv = fors[1] if len(fors) == 2 else None
        i_scan = body.index(scan)
        # ---- roles from the scan loop: V[P[A]] is read, P[A] is compared with LIM[A]
        A1, lo1, hi1 = self.range_loop(scan)
        scan_body = stmts(scan.body)
        P = LIM = V = None

        def _find(t):
            nonlocal P, V
            if isinstance(t, tuple):
                if len(t) == 3 and t[0] == "idx" and isinstance(t[2], tuple) and len(t[2]) == 3 and t[2][0] == "idx" and t[2][2] == ("var", A1):
                    V, P = t[1], t[2][1]
                for x in t:
                    _find(x)
        for p in paths(scan_body, Env()):
            for c, pol in p.conds:
                _find(c)
            for tgt, v, line in p.effects:
                _find(v)
        if P is not None:
            for p in paths(scan_body, Env()):
                for c, pol in p.conds:
                    for lit in _lits(c):
                        for x, y in ((lit[2], lit[3]), (lit[3], lit[2])):
                            if x == ("idx", P, ("var", A1)) and y[0] == "idx" and y[2] == ("var", A1):
                                LIM = y[1]
        if P is None or LIM is None or V is None:
            raise Undecided("cannot find the cursor / limit / value buffers in the scan loop")
        if adv is not None:
            A2, lo2, hi2 = self.range_loop(adv)
            adv_body = stmts(adv.body)
            incs = [x for x in walk(adv.body) if tname(x) in ("InPlaceAssignmentNode", "SingleAssignmentNode") and tname(unwrap(x.lhs)) == "MemoryViewIndexNode"]
            if len(incs) != 1 or unwrap(unwrap(incs[0].lhs).base).name != P:
                raise Undecided("the advance loop does not hold exactly one store into the cursors")
        # ---- scan loop roles: carried scalars M (marker) and mv (minimum)
        assigned = {}
        for p in paths(scan_body, Env()):
            for tgt, v, line in p.effects:
                if tgt[0] == "var":
                    assigned.setdefault(tgt[1], set()).add(v)
        head = ("idx", V, ("idx", P, ("var", A1)))
        mv = [n for n, vs in assigned.items() if vs == {head} and _read_before_write(scan_body, n)]
        Ms = [n for n, vs in assigned.items() if n not in mv and _read_before_write(scan_body, n)]
        if not mv and len(Ms) == 1:
            self.add("VIOLATED", "scan", scan.pos[1], "the scan records the selected head as the running minimum", "no loop-carried scalar is assigned the head value %s[%s[%s]] in the scan: the minimum that is emitted and compared is never updated" % (V, P, A1),
                     {"inputs": "[[3], [1]] -> the stale initial value is emitted"})
            raise Undecided("scan loop: the running minimum is never assigned")
        if len(mv) == 1 and not Ms:
            self.add("VIOLATED", "scan", scan.pos[1], "the scan marks that a head was selected", "the found-marker is never set inside the scan: every round looks like `nothing selected` and the loop ends at once",
                     {"inputs": "[[1, 2]] -> []"})
            raise Undecided("scan loop: the marker is never set")
        if len(mv) != 1 or len(Ms) != 1:
            raise Undecided("scan loop: carried minimum %s, marker %s" % (mv, Ms))
        mv, M = mv[0], Ms[0]
        # ---- RESET
        resets = [(i, s) for i, s in enumerate(body) if tname(s) == "SingleAssignmentNode" and tname(unwrap(s.lhs)) == "NameNode" and unwrap(s.lhs).name == M]
        line0 = self.loop.pos[1]
        if not resets:
            self.add("VIOLATED", "reset", line0, "the found-marker %s is reset at the start of every round" % M, "%s is never reset inside the loop: after the first round it keeps the last selected array, `nothing selected yet` is never true again "
                     "and the running minimum is only replaced by SMALLER heads - the loop emits the first value forever (writing past the result buffer)" % M, {"inputs": "[[1, 2]]"})
            raise Undecided("no reset")
        if len(resets) != 1 or resets[0][0] > i_scan:
            raise Undecided("marker reset is not a single statement before the scan")
        rv = expr(resets[0][1].rhs, Env())
        if rv[0] != "int":
            raise Undecided("marker reset value is not a constant")
        reset = rv[1]
        mvals = set()
        for v in assigned[M]:
            if v == ("var", A1):
                mvals |= {0, 1, 5}
            elif v[0] == "int":
                mvals.add(v[1])
            else:
                raise Undecided("marker assigned %s" % (v,))
        self.add("PROVED" if reset not in mvals and not (("var", A1) in assigned[M] and reset >= 0) else "VIOLATED", "reset", resets[0][1].pos[1], "the found-marker %s is reset to a value no selection can produce" % M,
                 "reset value %d" % reset if reset not in mvals and not (("var", A1) in assigned[M] and reset >= 0) else "reset value %d is also the number of an array: selecting that array looks like `nothing selected`" % reset,
                 None if reset < 0 else {"inputs": "[[5], [7]] with the marker reset to %d" % reset})
        roles = {"P": P, "LIM": LIM, "V": V, "M": M, "mv": mv, "reset": reset, "marker_values": sorted(mvals - {reset}) or [0]}
        self.roles = roles
        # ---- loop ranges
        for nm, (A, lo, hi, s) in ((("scan", (A1, lo1, hi1, scan)), ("advance", (A2, lo2, hi2, adv))) if adv is not None else (("scan", (A1, lo1, hi1, scan)),)):
            self.range_ok = getattr(self, "range_ok", {})
            self.add("PROVED" if lo == ("int", 0) else "VIOLATED", "range", s.pos[1], "the %s loop starts at array 0" % nm, "range(%s, ...)" % (lo,),
                     None if lo == ("int", 0) else {"inputs": "[[1], [2]]: array 0 is never %s" % ("looked at" if nm == "scan" else "advanced")})
            self.range_ok[nm] = hi
        # ---- SCAN table
        t = self.table(scan_body, A1, roles, ("E", "F", "C"))
        for (E, F, C), p in sorted(t.items(), key=str):
            eff = {tgt: v for tgt, v, line in p.effects if tgt[0] == "var" and tgt[1] in (M, mv)}
            other = [tgt for tgt, v, line in p.effects if tgt[0] == "idx"]
            if other:
                raise Undecided("the scan loop stores into %s" % (other[0],))
            want = E == "lt" and (F or C == "lt")
            dontcare = E == "lt" and not F and C == "eq"
            upd_mv = eff.get(("var", mv)) == head
            upd_M = ("var", M) in eff and eff[("var", M)] != ("int", reset)
            cell = "array %s, %s, head %s minimum" % ("not exhausted" if E == "lt" else "exhausted", "nothing selected yet" if F else "something selected", {"lt": "<", "eq": "==", "gt": ">"}[C])
            if E == "eq" or (F and C != "lt"):
                # with F the minimum is undefined, with E=eq the head is: all three C-columns must agree
                pass
            if dontcare:
                ok = upd_mv == upd_M
            else:
                ok = (upd_mv and upd_M) if want else (not upd_mv and not upd_M)
            line = p.effects[0][2] if p.effects else scan.pos[1]
            self.add("PROVED" if ok else "VIOLATED", "scan", scan.pos[1], "scan table [%s]" % cell,
                     ("selects the head" if upd_mv else "keeps the selection") if ok else
                     "%s: minimum %s, marker %s; required: %s" % (cell, "replaced" if upd_mv else "kept", "set" if upd_M else "kept", "select this head" if want else "leave the selection alone"),
                     None if ok else {"inputs": _scan_witness(E, F, C)})
        # every C column must agree where the minimum / head is undefined
        for E in ("lt", "eq"):
            for F in (True, False):
                if E == "eq" or F:
                    sig = {(tuple(sorted((str(tg), str(v)) for tg, v, l in t[(E, F, C)].effects if tg[0] == "var" and tg[1] in (M, mv)))) for C in ("lt", "eq", "gt")}
                    if len(sig) != 1:
                        self.add("VIOLATED", "scan", scan.pos[1], "scan: no dependence on %s" % ("the head of an exhausted array" if E == "eq" else "the minimum of a round in which nothing is selected yet"),
                                 "the outcome differs with the comparison although one side is undefined there", {"inputs": "[[3], [1]]"})
        # ---- statements between scan and the end: EXIT, EMIT, ADVANCE
        mids = [s for i, s in enumerate(body) if i > i_scan and s is not adv]
        self._head, self._A1 = head, A1
        # EXIT: first statement after the scan
        if not mids or tname(mids[0]) != "IfStatNode":
            self.add("VIOLATED" if not any(tname(x) == "BreakStatNode" for x in walk(self.loop.body)) else "UNDECIDED", "exit", line0, "the loop ends when a scan selects nothing", "no `if <marker test>: break` directly after the scan",
                     {"inputs": "[[1]]: never terminates"} if not any(tname(x) == "BreakStatNode" for x in walk(self.loop.body)) else None)
            raise Undecided("exit test not found after the scan")
        ex = mids[0]
        if body.index(ex) != i_scan + 1:
            raise Undecided("statements between the scan and the exit test")
        ex_paths = list(paths([ex], Env()))
        for F in (True, False):
            taken = [p for p in ex_paths if all(self.holds(c, {"F": F}, A1, roles) == pol for c, pol in p.conds)]
            if len(taken) != 1 or taken[0].effects:
                raise Undecided("exit test is not a pure `if <marker test>: break`")
            br = taken[0].exit == "break"
            ok = br == F
            self.add("PROVED" if ok else "VIOLATED", "exit", ex.pos[1], "exit test [%s]" % ("nothing selected" if F else "a head was selected"), "leaves the loop" if br else "goes on",
                     None if ok else {"inputs": "[[1, 2]] -> %s" % ("[] (the loop stops although a value was selected)" if br else "never terminates / writes past the buffer (the loop goes on after all arrays are exhausted)")})
        if adv is None:
            return self.variant_b(mids[1:], roles, line0)
        # EMIT: the remaining straight-line statements (before or after the advance loop)
        rest = [s for s in mids[1:]]
        ps = list(paths(rest, Env()))
        if len(ps) != 1 or ps[0].conds or ps[0].exit != "fall":
            raise Undecided("emission is conditional")
        effs = ps[0].effects
        stores = [(tgt, v, l) for tgt, v, l in effs if tgt[0] == "idx"]
        scal = {tgt[1]: (v, l) for tgt, v, l in effs if tgt[0] == "var"}
        if M in scal or mv in scal:
            raise Undecided("marker / minimum reassigned after the scan")
        if len(stores) != 1:
            self.add("VIOLATED" if not stores else "UNDECIDED", "emit", line0, "one emission per round", "%d stores into a buffer per round" % len(stores), {"inputs": "[[1]] -> uninitialised memory"} if not stores else None)
            raise Undecided("emission")
        (tgt, v, l) = stores[0]
        OUT, idx = tgt[1], tgt[2]
        self.roles["OUT"] = OUT
        if idx[0] in ("add", "sub") and idx[1][0] == "var" and idx[2][0] == "int" and idx[2][1] != 0:
            self.add("VIOLATED", "emit", l, "the value is stored at the current output count", "the store uses the count %s %d: slot 0 is never written (or the slot before the buffer is)" % ("+" if idx[0] == "add" else "-", idx[2][1]),
                     {"inputs": "[[7]] -> [<uninitialised>]"})
            raise Undecided("emission index")
        if idx[0] != "var":
            raise Undecided("emission index %s" % (idx,))
        n = idx[1]
        self.roles["n"] = n
        self.add("PROVED" if v == ("var", mv) else "VIOLATED", "emit", l, "the emitted value is the selected minimum", "%s[%s] = %s" % (OUT, n, mv) if v == ("var", mv) else "the value stored is %s" % (v,),
                 None if v == ("var", mv) else {"inputs": "[[1], [2]]"})
        inc = scal.get(n)
        okinc = inc is not None and inc[0] == ("add", ("var", n), ("int", 1))
        # the store must use the count BEFORE the increment: with substitution the index shows as ('var', n) only then
        self.add("PROVED" if okinc else "VIOLATED", "emit", inc[1] if inc else l, "the output count grows by exactly one per emission", "%s += 1 after the store" % n if okinc else
                 ("%s is not incremented: every round overwrites slot 0 and the empty prefix is returned" % n if inc is None else "%s becomes %s" % (n, inc[0])),
                 None if okinc else {"inputs": "[[1, 2]] -> %s" % ("[]" if inc is None else "[1, <uninitialised>, 2, ...] or a shorter prefix")})
        extra = [k for k in scal if k != n]
        if extra:
            raise Undecided("other scalars assigned in the round: %s" % extra)
        # ---- ADVANCE table
        roles2 = dict(roles, M=None)
        t2 = self.table(adv_body, A2, roles2, ("E", "C"))
        cur2 = ("idx", P, ("var", A2))
        for (E, C), p in sorted(t2.items(), key=str):
            st = [(tg, v) for tg, v, l in p.effects if tg[0] == "idx"]
            sc = [(tg, v) for tg, v, l in p.effects if tg[0] == "var" and tg[1] in (M, mv, n)]
            if sc:
                raise Undecided("the advance loop assigns %s" % (sc[0][0],))
            moved = [x for x in st if x[0] == cur2]
            if len(st) != len(moved):
                raise Undecided("the advance loop stores into %s" % (st[0][0],))
            want = E == "lt" and C == "eq"
            dontcare = E == "lt" and C == "lt"  # impossible after a correct scan: the minimum is <= every head
            by_one = len(moved) == 1 and moved[0][1] == ("add", cur2, ("int", 1))
            cell = "array %s, head %s minimum" % ("not exhausted" if E == "lt" else "exhausted", {"lt": "<", "eq": "==", "gt": ">"}[C])
            if dontcare:
                continue
            ok = by_one if want else not moved
            self.add("PROVED" if ok else "VIOLATED", "advance", adv.pos[1], "advance table [%s]" % cell, ("cursor + 1" if moved else "cursor kept") if ok else
                     ("the cursor %s; required: %s" % ("moves by %s" % (moved[0][1][2],) if moved else "is kept", "advance by exactly one" if want else "keep it")),
                     None if ok else {"inputs": _adv_witness(E, C, moved)})
        # ---- the scalars that cache element values can hold every element
        et = self.types.get(V, "")
        et = et[:-3] if et.endswith("[:]") else et
        ew = WIDTH.get(et.replace("const ", ""), None)
        for x in walk(self.loop.body):
            if tname(x) == "SingleAssignmentNode" and tname(unwrap(x.lhs)) == "NameNode":
                r = unwrap(x.rhs)
                src = None
                if tname(r) == "MemoryViewIndexNode" and tname(unwrap(r.base)) == "NameNode" and unwrap(r.base).name == V:
                    src = "an element of %s" % V
                elif tname(r) == "NameNode" and self.types.get(r.name, "").replace("const ", "") == et and x.lhs.name == mv:
                    src = r.name
                if src is None:
                    continue
                lt = str(unwrap(x.lhs).type)
                lw = WIDTH.get(lt.replace("const ", ""))
                if ew is None or lw is None:
                    self.add("UNDECIDED", "types", x.pos[1], "%s can hold every element" % unwrap(x.lhs).name, "C type %s / element type %s not in the width table" % (lt, et))
                else:
                    self.add("PROVED" if lw >= ew else "VIOLATED", "types", x.pos[1], "%s (%s) can hold every %s element" % (unwrap(x.lhs).name, lt, et), "%d value bits" % lw if lw >= ew else
                             "%s has %d value bits, the elements %d: large row ids wrap and compare as small (or negative) numbers" % (lt, lw, ew), None if lw >= ew else {"inputs": "[[1, 4294967295]]"})
        for E in ("eq",):
            sig = {tuple(str(x) for x in t2[(E, C)].effects) for C in ("lt", "eq", "gt")}
            if len(sig) != 1:
                self.add("VIOLATED", "advance", adv.pos[1], "advance: no dependence on the head of an exhausted array", "the outcome differs with a value read at the limit", {"inputs": "[[1], [1, 2]]"})
        return self

    # ------------------------------------------------------------------ variant B: advance the selected array only
    def variant_b(self, rest, roles, line0):
        """After scan and exit: `P[marker] += 1` every round, and the minimum is emitted unless it repeats the value
        emitted last.  Atoms: Z (nothing emitted yet: count == 0) and D (minimum vs last emitted: eq / ne).  Required:
        emit iff Z or D=ne; an emission stores OUT[count] = minimum, count += 1 and last = minimum."""
        P, M, mv = roles["P"], roles["M"], roles["mv"]
        ps = list(paths(rest, Env()))
        # names
        stores = {tgt for p in ps for tgt, v, l in p.effects if tgt[0] == "idx" and tgt[1] != P}
        if len({t[1] for t in stores}) != 1:
            raise Undecided("variant B: %d output buffers written" % len({t[1] for t in stores}))
        OUT = list(stores)[0][1]
        idxs = {t[2] for t in stores}
        if len(idxs) != 1 or list(idxs)[0][0] != "var":
            raise Undecided("variant B: emission index %s" % (idxs,))
        n = list(idxs)[0][1]
        self.roles["OUT"], self.roles["n"] = OUT, n
        lasts = {tgt[1] for p in ps for tgt, v, l in p.effects if tgt[0] == "var" and tgt[1] not in (n, M, mv) and v == ("var", mv)}
        if not lasts:
            # a scalar the minimum is compared with, although it is never assigned from it
            for p in ps:
                for c, pol in p.conds:
                    for lit in _lits(c):
                        for x, y in ((lit[2], lit[3]), (lit[3], lit[2])):
                            if x == ("var", mv) and y[0] == "var" and y[1] not in (n, M, mv):
                                lasts.add(y[1])
        if len(lasts) != 1:
            raise Undecided("variant B: cannot identify the `last emitted` scalar (%s)" % sorted(lasts))
        last = lasts.pop()

        def holds(c, Z, D):
            k = c[0]
            if k == "const":
                return c[1]
            if k == "not":
                return not holds(c[1], Z, D)
            if k == "and":
                return holds(c[1], Z, D) and holds(c[2], Z, D)
            if k == "or":
                return holds(c[1], Z, D) or holds(c[2], Z, D)
            _, op, a, b = c
            ev = {"==": lambda r: r == "eq", "!=": lambda r: r != "eq"}
            for x, y, o in ((a, b, op), (b, a, FLIP[op])):
                if x == ("var", mv) and y == ("var", last) and o in ev:
                    return ev[o](D)
                if x == ("var", n) and y[0] == "int":
                    pyop = {"<": lambda u, v: u < v, "<=": lambda u, v: u <= v, ">": lambda u, v: u > v, ">=": lambda u, v: u >= v, "==": lambda u, v: u == v, "!=": lambda u, v: u != v}[o]
                    t0 = pyop(0, y[1])
                    oth = {pyop(v, y[1]) for v in (1, 2, 9)}
                    if len(oth) != 1:
                        raise Undecided("count test %s %s %d" % (n, o, y[1]))
                    return t0 if Z else oth.pop()
            raise Undecided("variant B: condition outside the decision table: %s" % (c,))

        consults_Z = any(x == ("var", n) for p in ps for c, pol in p.conds for lit in _lits(c) for x in (lit[2], lit[3]))
        # a sentinel outside the element domain makes (Z, D=eq) impossible
        init_last = None
        for x in walk(self.f.node.body):
            if tname(x) == "SingleAssignmentNode" and tname(unwrap(x.lhs)) == "NameNode" and unwrap(x.lhs).name == last and x.pos[1] < self.loop.pos[1]:
                try:
                    init_last = expr(x.rhs, Env())
                except Undecided:
                    init_last = None
        lw = WIDTH.get(self.types.get(last, "").replace("const ", ""), 0)
        ew = WIDTH.get(self.types.get(mv, "").replace("const ", ""), 32)
        outside = init_last is not None and init_last[0] == "int" and init_last[1] < 0 and lw > ew
        for Z in (True, False):
            for D in ("eq", "ne"):
                taken = [p for p in ps if all(holds(c, Z, D) == pol for c, pol in p.conds)]
                if len(taken) != 1 or taken[0].exit != "fall":
                    raise Undecided("variant B: %d paths for Z=%s D=%s" % (len(taken), Z, D))
                p = taken[0]
                em = [(tgt, v, l) for tgt, v, l in p.effects if tgt[0] == "idx" and tgt[1] == OUT]
                sc = {tgt[1]: v for tgt, v, l in p.effects if tgt[0] == "var"}
                advs = [(tgt, v) for tgt, v, l in p.effects if tgt[0] == "idx" and tgt[1] == P]
                cell = "%s, minimum %s last emitted" % ("nothing emitted yet" if Z else "something emitted", "==" if D == "eq" else "!=")
                want = Z or D == "ne"
                if Z and D == "eq" and outside:
                    continue
                emitted = len(em) == 1 and em[0][0] == ("idx", OUT, ("var", n)) and em[0][1] == ("var", mv) and sc.get(n) == ("add", ("var", n), ("int", 1)) and sc.get(last) == ("var", mv)
                nothing = not em and n not in sc and last not in sc
                ok = emitted if want else nothing
                line = (em[0][2] if em else line0)
                wit = None
                if not ok:
                    if Z and D == "eq":
                        wit = {"inputs": "[[%s]] -> []: the first value equals the initial value of `%s`, which is a legal element" % (init_last[1] if init_last and init_last[0] == "int" else "c", last)}
                    elif want:
                        wit = {"inputs": "[[1, 2]]"}
                    else:
                        wit = {"inputs": "[[1], [1]] -> [1, 1]"}
                self.add("PROVED" if ok else "VIOLATED", "emit", line, "emission table [%s]" % cell, ("emits and records it" if want else "skips the repeat") if ok else
                         ("required: %s; found: %s" % ("store the minimum at the count, count += 1, remember it" if want else "no emission",
                                                       "no emission" if nothing else "%d store(s), count %s, last %s" % (len(em), sc.get(n), sc.get(last)))), wit)
                okadv = len(advs) == 1 and advs[0][0] == ("idx", P, ("var", M)) and advs[0][1] == ("add", ("idx", P, ("var", M)), ("int", 1))
                self.add("PROVED" if okadv else "VIOLATED", "advance", line0, "the selected array moves on by one every round [%s]" % cell, "cursor[marker] += 1" if okadv else "cursor updates: %s" % (advs,),
                         None if okadv else {"inputs": "[[1, 2]] -> never terminates, or values are skipped"})
        # element caches
        et = self.types.get(roles["V"], "")
        et = et[:-3] if et.endswith("[:]") else et
        ew = WIDTH.get(et.replace("const ", ""))
        for nm in (mv, last):
            lt = self.types.get(nm, "")
            lw2 = WIDTH.get(lt.replace("const ", ""))
            if ew is None or lw2 is None:
                self.add("UNDECIDED", "types", line0, "%s can hold every element" % nm, "C type %s not in the width table" % lt)
            else:
                self.add("PROVED" if lw2 >= ew else "VIOLATED", "types", line0, "%s (%s) can hold every %s element" % (nm, lt, et), "", None if lw2 >= ew else {"inputs": "[[1, 4294967295]]"})
        return self

    # ------------------------------------------------------------------ prelude / epilogue
    def prelude(self):
        """Initial count 0, the loop bounds are the number of arrays, and the function returns OUT[:count]."""
        f = self.f
        n, OUT = self.roles.get("n"), self.roles.get("OUT")
        top = stmts(f.node.body)
        where = f.node.pos[1]
        # initial count: the last assignment to n before the loop, outside it
        inloop = {id(x) for x in walk(self.loop)}
        inits = [x for x in walk(f.node.body) if tname(x) == "SingleAssignmentNode" and tname(unwrap(x.lhs)) == "NameNode" and unwrap(x.lhs).name == n and id(x) not in inloop]
        if len(inits) != 1:
            self.add("UNDECIDED", "count", where, "the output count starts at 0", "%d initialisations of %s" % (len(inits), n))
        else:
            try:
                v = expr(inits[0].rhs, Env())
            except Undecided:
                v = None
            self.add("PROVED" if v == ("int", 0) else ("VIOLATED" if v is not None and v[0] == "int" else "UNDECIDED"), "count", inits[0].pos[1], "the output count starts at 0", "%s = %s" % (n, v),
                     None if v == ("int", 0) or v is None or v[0] != "int" else {"inputs": "[[7]] -> [<uninitialised>, 7]"})
        # memoryview -> python array it views
        views = {}
        for x in walk(f.node.body):
            if tname(x) == "SingleAssignmentNode" and tname(unwrap(x.lhs)) == "NameNode" and tstr(unwrap(x.lhs).type).endswith("[:]"):
                src = x.rhs
                while tname(src) in ("CoerceToMemViewSliceNode", "CoerceToTempNode", "CloneNode"):
                    src = src.arg
                if tname(src) == "NameNode":
                    views[unwrap(x.lhs).name] = src.name
        self.views = views
        # returns
        rets = [x for x in walk(f.node.body) if tname(x) == "ReturnStatNode"]
        final = [r for r in rets if r.pos[1] > self.loop.pos[1]]
        if len(final) != 1:
            self.add("UNDECIDED", "return", where, "the function returns the filled prefix", "%d returns after the loop" % len(final))
        else:
            v = unwrap(final[0].value)
            ok = False
            detail = "returns %s" % tname(v)
            if tname(v) == "SliceIndexNode" and tname(unwrap(v.base)) == "NameNode":
                base = unwrap(v.base).name
                start = v.start
                stop = unwrap(v.stop) if v.stop is not None else None
                ok = base == views.get(OUT) and (start is None or tname(start) == "NoneNode" or (tname(unwrap(start)) == "IntNode" and int(unwrap(start).value) == 0)) and stop is not None and tname(stop) == "NameNode" and stop.name == n
                detail = "%s[%s:%s]" % (base, "" if start is None else "..", getattr(stop, "name", "?"))
                if not ok and base == views.get(OUT) and stop is not None and tname(stop) in ("NameNode", "IntNode", "AddNode", "SubNode"):
                    self.add("VIOLATED", "return", final[0].pos[1], "the function returns exactly the filled prefix %s[:%s]" % (views.get(OUT), n), detail, {"inputs": "[[1], [1]] -> a result with uninitialised or missing trailing elements"})
                    ok = None
            elif tname(v) == "NameNode" and v.name == views.get(OUT):
                self.add("VIOLATED", "return", final[0].pos[1], "the function returns exactly the filled prefix", "the whole buffer is returned: its tail is uninitialised whenever two arrays share a value", {"inputs": "[[1], [1]] -> [1, <uninitialised>]"})
                ok = None
            if ok is not None:
                self.add("PROVED" if ok else "UNDECIDED", "return", final[0].pos[1], "the function returns exactly the filled prefix %s[:%s]" % (views.get(OUT), n), detail)
        # loop bounds: both loops run to the number of arrays = len(<filtered list>)
        hi = {k: v for k, v in self.range_ok.items()}
        lens = {}
        for x in walk(f.node.body):
            if tname(x) == "SingleAssignmentNode" and tname(unwrap(x.lhs)) == "NameNode":
                r = unwrap(x.rhs)
                if tname(r) == "SimpleCallNode" and tname(r.function) == "NameNode" and r.function.name == "len":
                    a = r.args if getattr(r, "args", None) is not None else r.arg_tuple.args
                    a0 = unwrap(a[0])
                    if tname(a0) == "NameNode":
                        lens[unwrap(x.lhs).name] = a0.name
        self.lens = lens
        # ---- layout of the flat buffers, from engine L's prelude algebra (sa/linabs.py: py_expr)
        from . import linabs
        try:
            a = linabs.Analyzer(f).run()
            facts = a.pyfacts
        except Exception as e:  # noqa
            self.add("UNDECIDED", "layout", where, "layout of the concatenated buffer", "prelude not analysable: %s" % e)
            return self
        P, LIM, V = self.roles["P"], self.roles["LIM"], self.roles["V"]

        def tag(mv):
            return (facts.get(views.get(mv)) or {}).get("tag")
        X = None
        tv = tag(V)
        if tv and tv[0] == "concat":
            X = tv[1]
        fx = facts.get(X) or {}
        okx = X is not None and fx.get("tag") and fx["tag"][0] == "filter" and fx["tag"][1] in [getattr(a_, "name", None) for a_ in f.node.args]
        self.add("PROVED" if okx else "UNDECIDED", "layout", where, "the value buffer is the concatenation of the arrays kept from the argument", "%s = concatenate(%s), %s = the arrays of `%s` that pass the filter" % (views.get(V), X, X, fx["tag"][1]) if okx else "value buffer: %s" % (tv,))
        if okx:
            self.add("PROVED" if fx.get("nonempty_elems") else "UNDECIDED", "layout", where, "only empty arrays are dropped (the filter is `len(arr)`)", "" if fx.get("nonempty_elems") else "filter not recognised")
        for nm, hi in sorted(self.range_ok.items()):
            ok = hi[0] == "var" and lens.get(hi[1]) == X and X is not None
            if ok:
                self.add("PROVED", "range", where, "the %s loop runs over all %s arrays" % (nm, X), "range(len(%s))" % X)
            elif hi[0] in ("sub", "add") and hi[1][0] == "var" and lens.get(hi[1][1]) == X and hi[2][0] == "int" and (hi[2][1] if hi[0] == "sub" else -hi[2][1]) > 0:
                self.add("VIOLATED", "range", where, "the %s loop runs over all %s arrays" % (nm, X), "the loop stops %d short of the last array" % hi[2][1], {"inputs": "[[1], [2]] -> [1]" if nm == "scan" else "[[1], [1]] -> never terminates"})
            else:
                self.add("UNDECIDED", "range", where, "the %s loop runs over all %s arrays" % (nm, X), "upper bound %s" % (hi,))
        tp, tl = tag(P), tag(LIM)
        Lp = tp[1] if tp and tp[0] == "excl_cumsum" else None
        okL = Lp is not None and (facts.get(Lp) or {}).get("tag") == ("lengths_of", X)
        if tp and tp[0] in ("cumsum", "incl_cumsum", "lengths_of", "map"):
            self.add("VIOLATED", "layout", where, "cursor[a] starts at the offset of array a in the concatenation (exclusive prefix sum of the lengths)", "the start offsets are %s" % (tp,), {"inputs": "[[1], [2], [3, 4]]"})
        else:
            self.add("PROVED" if okL else "UNDECIDED", "layout", where, "cursor[a] starts at the offset of array a in the concatenation (exclusive prefix sum of the lengths)", "%s: %s" % (views.get(P), tp))
        okl = tl is not None and tl[0] == "incl_cumsum" and tl[1] == Lp and okL
        if tl and tl[0] in ("excl_cumsum", "lengths_of", "map") and not okl:
            self.add("VIOLATED", "layout", where, "limit[a] is the end of array a in the concatenation (inclusive prefix sum of the lengths)", "the limits are %s" % (tl,), {"inputs": "[[1], [2]]"})
        else:
            self.add("PROVED" if okl else "UNDECIDED", "layout", where, "limit[a] is the end of array a in the concatenation (inclusive prefix sum of the lengths)", "%s: %s" % (views.get(LIM), tl))
        # ---- the empty case: `if <no array left>: return <empty array>` before the concatenation
        K = [k for k, v in lens.items() if v == X]
        guard = None
        for s_ in top:
            if tname(s_) == "IfStatNode" and len(s_.if_clauses) == 1 and s_.pos[1] < self.loop.pos[1]:
                b = stmts(s_.if_clauses[0].body)
                if len(b) == 1 and tname(b[0]) == "ReturnStatNode":
                    guard = (s_, b[0])
                    break
        if guard is None:
            early = [x for x in walk(f.node.body) if tname(x) == "ReturnStatNode" and x.pos[1] < self.loop.pos[1]]
            if not early:
                self.add("VIOLATED", "empty", where, "no array left: the empty result is returned before concatenate", "there is no return before the merge loop: with no (non-empty) array numpy.concatenate([]) raises ValueError",
                         {"inputs": "[] or [[], []] -> ValueError: need at least one array to concatenate"})
            else:
                self.add("UNDECIDED", "empty", where, "no array left: the empty result is returned before concatenate", "guard not found")
            return self
        g, r = guard
        try:
            c = cond(g.if_clauses[0].condition, Env())
        except Undecided as e:
            c = None
        truth = None
        if c is not None and c[0] == "lit" and c[2][0] == "var" and c[2][1] in K and c[3][0] == "int":
            op, k0 = c[1], c[3][1]
            f_ = {"<": lambda u: u < k0, "<=": lambda u: u <= k0, ">": lambda u: u > k0, ">=": lambda u: u >= k0, "==": lambda u: u == k0, "!=": lambda u: u != k0}[op]
            truth = (f_(0), {f_(1), f_(2), f_(7)})
        elif c is not None and c[0] == "not" and c[1][0] == "lit" and c[1][1] == "!=" and c[1][2][0] == "var" and c[1][2][1] in K and c[1][3] == ("int", 0):
            truth = (True, {False})
        if truth is None:
            self.add("UNDECIDED", "empty", g.pos[1], "no array left: the empty result is returned before concatenate", "guard condition not recognised")
        else:
            ok = truth[0] is True and truth[1] == {False}
            self.add("PROVED" if ok else "VIOLATED", "empty", g.pos[1], "the early return is taken exactly when no array is left", "" if ok else
                     ("the early return is %s with no array and %s with some" % ("taken" if truth[0] else "not taken", "taken" if True in truth[1] else "not taken")),
                     None if ok else {"inputs": "[[1, 2]] -> []" if True in truth[1] else "[] -> ValueError from numpy.concatenate"})
        rv = unwrap(r.value) if r.value is not None else None
        size = None
        if rv is not None and tname(rv) in ("SimpleCallNode", "GeneralCallNode") and tname(rv.function) == "AttributeNode" and rv.function.attribute in ("empty", "zeros", "array"):
            args = rv.args if getattr(rv, "args", None) is not None else (rv.positional_args.args if tname(rv) == "GeneralCallNode" and hasattr(rv.positional_args, "args") else [])
            if args:
                a0 = unwrap(args[0])
                if tname(a0) == "IntNode":
                    size = int(a0.value)
                elif tname(a0) in ("ListNode", "TupleNode"):
                    size = len(a0.args)
        if size is None:
            self.add("UNDECIDED", "empty", r.pos[1], "the early return hands back an array of length 0", "returned expression not recognised")
        else:
            self.add("PROVED" if size == 0 else "VIOLATED", "empty", r.pos[1], "the early return hands back an array of length 0", "length %d" % size, None if size == 0 else {"inputs": "[] -> an array of %d uninitialised element(s)" % size})
        return self


def capacity_argument(cyfunc):
    """Ranking-function argument for the k-way merge's output write `OUT[count] = minimum` (the one access the linear
    domain of engine L cannot bound, because it is relational in the CONTENTS of the cursor array):

        Phi = sum over arrays a of (limit[a] - cursor[a])

    (1) layout [decided]: cursors / limits are the exclusive / inclusive prefix sums of the lengths of the arrays whose
        concatenation is the value buffer, so initially Phi = len(values), and cursor[a] <= limit[a];
    (2) advance table [decided]: a cursor moves only when it is below its limit, by exactly one: Phi >= 0 is kept;
    (3) scan + exit tables [decided]: when the round goes on, the marker names an array that is not exhausted and whose
        head IS the minimum, so that array's cursor moves in this round (advance table, row E=lt, C=eq; or variant B's
        unconditional `cursor[marker] += 1`): Phi decreases by at least one per round;
    (4) emit table [decided]: count grows by at most one per round, starts at 0.
    Hence count + Phi <= len(values) before every round; at the write Phi >= 1 (the selected array is not exhausted), so
    count <= len(values) - 1; and (5) the output buffer is numpy.empty(len(values)) [checked here].
    -> (True, text) when every ingredient is decided and proved on the current source, else (False, why)."""
    from . import linabs
    try:
        k = KWay(cyfunc)
        k.analyse()
        k.prelude()
    except Undecided as e:
        return False, "k-way schema not recognised: %s" % e
    bad = [o for o in k.obl if o[0] != "PROVED"]
    if bad:
        return False, "k-way obligation not proved: [%s] %s" % (bad[0][1], bad[0][3])
    need = {"reset", "scan", "exit", "emit", "advance", "count", "layout", "range"}
    have = {o[1] for o in k.obl}
    if need - have:
        return False, "k-way obligations missing: %s" % sorted(need - have)
    try:
        a = linabs.Analyzer(cyfunc).run()
    except Exception as e:  # noqa
        return False, "prelude not analysable: %s" % e
    out_py = k.views.get(k.roles["OUT"])
    f = a.pyfacts.get(out_py) or {}
    cap = repr(f.get("len")) if f.get("len") is not None else None
    want = "+1*len_%s" % k.roles["V"]
    if cap is None or cap.replace(" ", "") not in (want, "len_%s" % k.roles["V"], "1*len_%s" % k.roles["V"]):
        return False, "capacity of the output buffer is %s, not len(%s)" % (cap, k.roles["V"])
    return True, ("ranking function Phi = sum(limit[a] - cursor[a]): Phi = len(%s) initially (layout), every round that emits moves the selected, non-exhausted array on by one (scan / exit / advance tables), "
                  "so count + Phi <= len(%s) and Phi >= 1 at the write; the output buffer has len(%s) elements" % (k.roles["V"], k.roles["V"], k.roles["V"]))


def _lits(c):
    if c[0] == "lit":
        yield c
    elif c[0] in ("and", "or"):
        yield from _lits(c[1])
        yield from _lits(c[2])
    elif c[0] == "not":
        yield from _lits(c[1])


def _read_before_write(body, name):
    """`name` is read on some path of the body before that path assigns it (a loop-carried scalar)."""
    def reads(t):
        if isinstance(t, tuple):
            if t == ("var", name):
                return True
            return any(reads(x) for x in t)
        return False
    # an un-substituted ('var', name) can only appear if the path had not assigned the name yet
    for p in paths(body, Env()):
        for c, pol in p.conds:
            if reads(c):
                return True
        for tgt, v, line in p.effects:
            if reads(v):
                return True
    return False


def _scan_witness(E, F, C):
    if E == "eq":
        return "[[1], [1, 2]]: after 1 is emitted the first array is exhausted and must be skipped"
    if F:
        return "[[5]]: the first non-exhausted head must be selected whatever the stale minimum is"
    if C == "lt":
        return "[[3], [1]] -> must select 1"
    return "[[1], [3]] -> must keep 1"


def _adv_witness(E, C, moved):
    if E == "eq":
        return "[[1], [1, 2]]: an exhausted array's cursor must stay at its limit"
    if C == "eq":
        return "[[1, 3], [1, 5]] -> [1, 1, 3, 5] or an endless loop: every array whose head was emitted must move on by one"
    return "[[1, 2], [2, 3]]: an array whose head is larger than the emitted value must not move (2 would be lost)"
