"""cyfront: run Cython's own parser + type analysis on set_operations.pyx and hand back
the typed tree (DESIGN 3.1).  Nothing is compiled to C and nothing is executed."""
import os

from . import core

_cache = {}


def load(src=None, upto=31):
    src = src or core.src_path("set_operations.pyx")
    key = (src, os.path.getmtime(src), upto)
    if key in _cache:
        return _cache[key]
    from Cython.Compiler import Main as M, Pipeline, Errors
    from Cython.Compiler.Main import CompilationOptions, default_options, Context

    opts = CompilationOptions(default_options, language_level=3)
    ctx = Context.from_options(opts)
    sd = M.FileSourceDescriptor(src, os.path.basename(src))
    source = M.CompilationSource(sd, "catii.set_operations", os.getcwd())
    result = M.create_default_resultobj(source, opts)
    pipeline = Pipeline.create_pyx_pipeline(ctx, opts, result)[:upto]
    err, tree = Pipeline.run_pipeline(pipeline, source)
    if err is not None:
        raise RuntimeError("Cython front-end error: %r" % (err,))
    _cache[key] = tree
    return tree


class CyFunc:
    def __init__(self, node, directives):
        self.node = node
        self.name = node.name
        self.directives = directives
        self.boundscheck = bool(directives.get("boundscheck", True))
        self.wraparound = bool(directives.get("wraparound", True))
        self.line = node.pos[1]


def functions(tree):
    """All def nodes with their effective compiler directives."""
    from Cython.Compiler.Visitor import TreeVisitor

    out = []
    base = dict(tree.directives)

    class V(TreeVisitor):
        def __init__(s):
            super().__init__()
            s.dirs = [base]

        def visit_Node(s, n):
            s.visitchildren(n)

        def visit_CompilerDirectivesNode(s, n):
            d = dict(s.dirs[-1])
            d.update(n.directives)
            s.dirs.append(d)
            s.visitchildren(n)
            s.dirs.pop()

        def visit_DefNode(s, n):
            out.append(CyFunc(n, s.dirs[-1]))
            s.visitchildren(n)

        def visit_CFuncDefNode(s, n):
            s.visitchildren(n)

    V().visit(tree)
    return out


def cfunctions(tree):
    """All `cdef` / `cpdef` functions (CFuncDefNode) of the module: [(name, node)].  The schema and bounds engines read
    `def` functions only; these are listed so that nothing hides in one unnoticed."""
    out = []
    for n in walk(tree):
        if tname(n) == "CFuncDefNode":
            nm = None
            e = getattr(n, "entry", None)
            if e is not None:
                nm = getattr(e, "name", None)
            if nm is None:
                d = getattr(n, "declarator", None)
                while d is not None and not hasattr(d, "name"):
                    d = getattr(d, "base", None)
                nm = getattr(d, "name", None) or "<cdef@%d>" % n.pos[1]
            out.append((str(nm), n))
    return out


def tstr(t):
    """Type as text, with a C-contiguous 1-D memoryview (`T[::1]`) written like the general one (`T[:]`): contiguity does
    not matter to the bounds, schema and decision-table analyses (R-C09-raw looks at the raw type)."""
    s = str(t)
    if s.endswith("[::1]"):
        s = s[:-5] + "[:]"
    return s


def tname(n):
    return type(n).__name__


def children(n):
    for attr in getattr(n, "child_attrs", None) or []:
        c = getattr(n, attr, None)
        if isinstance(c, list):
            for x in c:
                if x is not None:
                    yield x
        elif c is not None:
            yield c


def walk(n):
    stack = [n]
    while stack:
        x = stack.pop()
        yield x
        stack.extend(reversed(list(children(x))))
