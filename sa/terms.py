"""Uninterpreted terms used by the symbolic walker (engine P/F of DESIGN section 3).

A term is an immutable tree T(op, *args). AST nodes are carried out-of-band (T.node)
and never take part in equality, so a reformat or an insertion does not change terms.
"""


class T:
    __slots__ = ("op", "args", "node", "_h")

    def __init__(self, op, *args, node=None):
        self.op = op
        self.args = args
        self.node = node
        self._h = hash((op, args))

    def __hash__(self):
        return self._h

    def __eq__(self, other):
        return (
            isinstance(other, T)
            and self._h == other._h
            and self.op == other.op
            and self.args == other.args
        )

    def __ne__(self, other):
        return not self.__eq__(other)

    def __repr__(self):
        return show(self)

    def at(self, node):
        if self.node is None:
            self.node = node
        return self


def const(v):
    return T("const", type(v).__name__, v)


def is_const(t, v=None):
    if not isinstance(t, T) or t.op != "const":
        return False
    if v is None:
        return True
    return t.args[1] == v and type(t.args[1]) is type(v)


def constval(t):
    return t.args[1]


NONE = const(None)
TRUE = const(True)
FALSE = const(False)


def param(name):
    return T("param", name)


def ext(dotted):
    return T("ext", dotted)


def attr(base, name):
    if base.op == "ext":
        return ext(base.args[0] + "." + name)
    return T("attr", base, name)


def sub(base, index):
    return T("sub", base, index)


def call(func, args=(), kwargs=()):
    return T("call", func, tuple(args), tuple(kwargs))


def phi(alts):
    flat = []
    for a in alts:
        if a is None:
            continue
        if a.op == "phi":
            for b in a.args:
                if b not in flat:
                    flat.append(b)
        elif a not in flat:
            flat.append(a)
    if not flat:
        return T("unknown", "empty-phi")
    if len(flat) == 1:
        return flat[0]
    return T("phi", *flat)


def alts(t):
    """Alternatives of a term (phi / ifexp flattened one level deep, recursively)."""
    if t.op == "phi":
        out = []
        for a in t.args:
            out.extend(alts(a))
        return out
    if t.op == "ifexp":
        return alts(t.args[1]) + alts(t.args[2])
    return [t]


def unknown(why):
    return T("unknown", why)


def walk(t):
    """Pre-order traversal of all sub-terms."""
    stack = [t]
    while stack:
        x = stack.pop()
        if isinstance(x, T):
            yield x
            stack.extend(x.args)
        elif isinstance(x, tuple):
            stack.extend(x)


def contains(t, pred):
    return any(pred(x) for x in walk(t))


def dotted(t):
    """'numpy.sum' for an external reference, else None."""
    if isinstance(t, T) and t.op == "ext":
        return t.args[0]
    return None


def callee_name(t):
    """For a call term: dotted external name, or '.method' for a method call, else None."""
    if t.op != "call":
        return None
    f = t.args[0]
    if f.op == "ext":
        return f.args[0]
    if f.op == "attr":
        return "." + f.args[1]
    if f.op == "global":
        return "%s.%s" % (f.args[0], f.args[1])
    if f.op in ("func", "class"):
        return f.args[0]
    return None


def kwarg(t, name, default=None):
    for k, v in t.args[2]:
        if k == name:
            return v
    return default


def show(t, depth=0):
    if not isinstance(t, T):
        if isinstance(t, tuple):
            return "(" + ", ".join(show(x, depth) for x in t) + ")"
        return repr(t)
    if depth > 12:
        return "..."
    d = depth + 1
    op, a = t.op, t.args
    if op == "const":
        return repr(a[1])
    if op == "param":
        return a[0]
    if op == "ext":
        return a[0].replace("builtins.", "")
    if op == "global":
        return "%s.%s" % (a[0], a[1])
    if op == "attr":
        return "%s.%s" % (show(a[0], d), a[1])
    if op == "sub":
        return "%s[%s]" % (show(a[0], d), show(a[1], d))
    if op == "slice":
        return "%s:%s%s" % (
            "" if a[0] == NONE else show(a[0], d),
            "" if a[1] == NONE else show(a[1], d),
            "" if a[2] == NONE else ":" + show(a[2], d),
        )
    if op == "call":
        parts = [show(x, d) for x in a[1]] + ["%s=%s" % (k, show(v, d)) for k, v in a[2]]
        return "%s(%s)" % (show(a[0], d), ", ".join(parts))
    if op == "binop":
        return "(%s %s %s)" % (show(a[1], d), a[0], show(a[2], d))
    if op == "unop":
        return "(%s%s)" % (a[0], show(a[1], d))
    if op == "cmp":
        return "(%s %s %s)" % (show(a[1], d), a[0], show(a[2], d))
    if op == "bool":
        return "(" + (" %s " % a[0]).join(show(x, d) for x in a[1:]) + ")"
    if op == "not":
        return "(not %s)" % show(a[0], d)
    if op in ("tuple", "list", "set"):
        br = {"tuple": "()", "list": "[]", "set": "{}"}[op]
        return br[0] + ", ".join(show(x, d) for x in a) + ("," if op == "tuple" and len(a) == 1 else "") + br[1]
    if op == "dict":
        return "{" + ", ".join("%s: %s" % (show(k, d), show(v, d)) for k, v in a) + "}"
    if op == "phi":
        return "phi(" + " | ".join(show(x, d) for x in a) + ")"
    if op == "ifexp":
        return "(%s if %s else %s)" % (show(a[1], d), show(a[0], d), show(a[2], d))
    if op == "iter":
        return "elem<%s>(%s)" % (a[1], show(a[0], d))
    if op == "enumidx":
        return "idx<%s>(%s)" % (a[1], show(a[0], d))
    if op == "dkey":
        return "key<%s>(%s)" % (a[1], show(a[0], d))
    if op == "dval":
        return "val<%s>(%s)" % (a[1], show(a[0], d))
    if op == "loopvar":
        return "loop<%s>.%s" % (a[1], a[0])
    if op == "unpack":
        return "%s.#%d/%d" % (show(a[0], d), a[1], a[2])
    if op == "alloc":
        return "new:%s@%s" % (a[0], a[1])
    if op == "comp":
        return "%scomp<%s>(%s)" % (a[0], a[2], show(a[1], d))
    if op == "closure":
        return "closure:%s" % (a[0],)
    if op == "unknown":
        return "?%s" % (a[0],)
    return "%s(%s)" % (op, ", ".join(show(x, d) for x in a))
