#!/venv/bin/python
"""C08 - sorted-set kernels compute exact set algebra.

Decides the finite decision tables of the merge kernels and their wrappers (DESIGN 4 C08):
the kernels touch element values only through a three-way comparison, so together with
C09 (bounds) and cache coherence these tables are every ingredient of the textbook
correctness argument for a two-pointer merge over strictly increasing inputs.
Not decided: a full functional-correctness proof over sequences.
"""
import os
import sys

sys.path.insert(0, os.path.dirname(os.path.dirname(os.path.abspath(__file__))))
from sa import core, cyfront, kernels, hints, terms as tm
from sa.cyfront import tname, tstr, walk
from sa.kernels import Kernel, Undecided, unwrap
from sa.pyfront import Program
from sa.symex import Interp

RULES = {
    "R-C08-o": "every buffer a kernel fills is allocated inside the same call - not a module-level workspace, not one handed out by a helper (shared by concurrent callers: the merge loops run without the GIL); cdef helpers that touch array elements are outside the analysis and reported as such",
    "R-C08-j": "multi-way union: besides the empty case and the merged prefix, a shortcut may return the concatenation only when it is shown STRICTLY increasing (x[:-1] < x[1:]); a non-strict test lets a value shared by the end of one array and the start of the next through twice",
    "R-C08-a": "kernel decision table: per branch (left<right, left>right, equal) the emitted side and advanced cursors, the tail copies, and the result for an empty operand / non-overlapping ranges equal the table the set operation requires",
    "R-C08-b": "cache coherence: every cursor advance is followed, before the next comparison, by the exhaustion test and a reload of that cursor's cached value",
    "R-C08-c": "output is the filled prefix: result_len is incremented exactly once per emission and the kernel returns result[:result_len]",
    "R-C08-d": "wrapper None/empty table: intersection/union/difference return None for the documented absent-operand and empty-result cases and pass the operands to the matching kernel in order",
    "R-C08-e": "multi-way union: the exhaustion sentinel is strictly outside the element domain (wider C type) or exhaustion is tracked by position",
    "R-C08-f": "multi-way union: an emitted value is never emitted twice (every array whose head equals the minimum is advanced, or the emission is guarded by the previous value)",
    "R-C08-h": "multi-way union: the empty case (no array, or only empty arrays) returns before concatenate/max are applied to an empty list",
    "R-C08-i": "multi-way union: each array's start offset into the concatenated buffer is a prefix sum of the lengths",
    "R-C08-k": "multi-way union: the merge loop normalises to reset / scan / exit / emit / advance and each part's finite decision table (cursor vs limit, marker vs reset value, head vs minimum) equals the required one; "
               "the flat buffers are the concatenation, its exclusive and inclusive prefix sums; the count starts at 0 and the filled prefix is returned; the empty case returns an empty array",
    "R-C08-l": "the C scalars that cache element values, and the result view, are at least as wide as the elements (uint32): a signed or narrower cache reorders large row ids",
    "R-C08-n": "the kernels' array parameters are general typed memoryviews ([:]): a C-contiguous declaration ([::1]) rejects strided operands, which are legitimate strictly increasing arrays",
    "R-C08-m": "row ids take part only in loads, stores and comparisons: an addition or multiplication on a uint32 row id in a 32-bit type wraps at 2^32 (the inputs include 2^32 - 1); expected count 0",
    "R-C08-g": "callers pass operands in the order the operation's asymmetry requires (receiver's rows on the left)",
}
OPS = ("intersection", "union", "difference")


def wrapper_kernels(prog):
    """op -> (kernel name, Interp) from the Python-level wrappers."""
    out = {}
    for op in OPS:
        fi = prog.func("set_operations", op)
        I = Interp(prog)
        I.run(fi)
        ks = [ev for ev in I.events if ev.kind == "call" and ev["resolved"] and ev["resolved"][0].opaque]
        out[op] = (ks, I, fi)
    return out


def check_kernel(rep, op, cyf):
    where = "set_operations:%s" % cyf.name
    try:
        k = Kernel(cyf)
        table, loop = k.branch_table()
    except Undecided as e:
        rep.undecided("R-C08-a", where, "merge schema", "kernel is outside the recognised two-pointer schema: %s" % e)
        return 0
    n = 0
    want = kernels.BRANCHES[op]
    names = {"L": k.arr["L"], "R": k.arr["R"]}
    # the scalars that cache the cursor values (and the result view) can hold every element
    from sa.kway import WIDTH
    types = {}
    for x in walk(cyf.node):
        if tname(x) == "NameNode" and getattr(x, "type", None) is not None:
            types.setdefault(x.name, tstr(x.type))
    for side in ("L", "R"):
        et = types.get(k.arr[side], "").replace("const ", "")
        et = et[:-3] if et.endswith("[:]") else et
        vt = types.get(k.val[side], "").replace("const ", "")
        ew, vw = WIDTH.get(et), WIDTH.get(vt)
        cons = "%s: cached %s value `%s` (%s) can hold every %s element" % (op, "left" if side == "L" else "right", k.val[side], vt, et)
        if ew is None or vw is None:
            rep.undecided("R-C08-l", where, cons, "C type not in the width table")
        else:
            rep.check(vw >= ew, "R-C08-l", where, cons, "%d value bits" % vw, "%s has %d value bits, the elements %d: large row ids wrap and compare as small (or negative) numbers" % (vt, vw, ew),
                      witness={"inputs": "%s([1, 3000000000], [3000000000])" % op})
    rt = types.get(k.result_view, "").replace("const ", "")
    rt = rt[:-3] if rt.endswith("[:]") else rt
    et = types.get(k.arr["L"], "").replace("const ", "")
    et = et[:-3] if et.endswith("[:]") else et
    if WIDTH.get(rt) is None or WIDTH.get(et) is None:
        rep.undecided("R-C08-l", where, "%s: result view element type" % op, "C type %s not in the width table" % rt)
    else:
        rep.check(WIDTH[rt] >= WIDTH[et], "R-C08-l", where, "%s: the result view (%s) can hold every %s element" % (op, rt, et), "", "the result buffer's elements are narrower than the inputs'", witness={"inputs": "%s([70000], [70000])" % op})
    for rel in ("L<R", "L>R", "EQ"):
        ev = table[rel]
        cons = "%s: branch %s" % (op, {"L<R": "left < right", "L>R": "left > right", "EQ": "equal"}[rel])
        unknown = [e for e in ev if e[0] in ("UNKNOWN", "CONTINUE")]
        if unknown:
            rep.undecided("R-C08-a", "%s@%d" % (where, unknown[0][2]), cons, "unrecognised statement in the branch: %s" % (unknown[0][1],))
            continue
        emits = [e[1] for e in ev if e[0] == "EMIT"]
        advs = sorted(e[1] for e in ev if e[0] == "ADV")
        w = want[rel]
        ok_emit = (emits == w["EMIT"]) or (w["EMIT"] == ["*"] and len(emits) == 1)
        ok_adv = advs == sorted(w["ADV"])
        n += 1
        line = ev[0][2] if ev else loop.pos[1]
        rep.check(ok_emit and ok_adv, "R-C08-a", "%s@%d" % (where, line), cons,
                  "emits %s, advances %s" % (emits or "nothing", advs),
                  "emits %s and advances %s; %s requires emit %s, advance %s" % (emits or "nothing", advs, op, w["EMIT"] or "nothing", w["ADV"]),
                  witness=_branch_witness(op, rel, emits, advs))
        # R-C08-b cache coherence / R-C08-c emission bookkeeping
        seq = [(e[0], e[1]) for e in ev]
        for i, (kind, side) in enumerate(seq):
            if kind == "ADV":
                rest = seq[i + 1:]
                has_reload = ("RELOAD", side) in rest
                ends_break = ("BREAK", None) in rest and not has_reload
                j = rest.index(("RELOAD", side)) if has_reload else len(rest)
                between = rest[:j]
                guarded = ("BREAKIF", side) in between
                # between the advance and the reload the cached value is still the element that was compared (emitting IT
                # is fine); what is wrong there is reading array[ptr] directly (the NEXT element, or one past the end) or
                # advancing again; and after the reload the cached value is the next element: emitting it is wrong too
                between_ev = ev[i + 1:i + 1 + j]
                after_ev = ev[i + 1 + j + 1:] if has_reload else []
                stale = any(e[0] == "EMIT" and e[1] == side and (len(e) < 4 or e[3] == "load") for e in between_ev) or ("ADV", side) in between
                late = any(e[0] == "EMIT" and e[1] == side for e in after_ev)
                ok = (has_reload and guarded and not stale and not late) or ends_break
                n += 1
                rep.check(ok, "R-C08-b", "%s@%d" % (where, ev[i][2]), "%s advance of %s cursor" % (cons, {"L": "left", "R": "right"}[side]),
                          "ptr += 1; if ptr >= len: break; value = array[ptr]",
                          "after advancing the %s cursor %s" % ({"L": "left", "R": "right"}[side],
                                                              "its cached value is not reloaded before the next comparison" if not has_reload else
                                                              "there is no exhaustion test before the reload" if not guarded else
                                                              "the element AFTER the one compared is emitted (the emission follows the reload)" if late else "the next element is read / the cursor advanced again before the exhaustion test"),
                          witness={"inputs": "left=[1,2], right=[2]" })
        nem, ninc = sum(1 for e in seq if e[0] == "EMIT"), sum(1 for e in seq if e[0] == "INC_RESULT")
        order_ok = True
        pend = 0
        for kind, _ in seq:
            if kind == "EMIT":
                if pend:
                    order_ok = False
                pend = 1
            elif kind == "INC_RESULT":
                if not pend:
                    order_ok = False
                pend = 0
        n += 1
        rep.check(nem == ninc and order_ok and not pend, "R-C08-c", "%s@%d" % (where, line), "%s emission bookkeeping" % cons,
                  "%d emission(s), each followed by one result_len += 1" % nem, "%d emission(s) but %d increment(s) of the output length" % (nem, ninc))
    # a cdef helper of the module that reads / writes array elements, called from this kernel (e.g. a block copy replacing
    # the tail loops): the schema below does not see what it does - tails and prelude results are then not decided
    helper_calls = []
    try:
        cdefs = {nm for nm, nd in cyfront.cfunctions(cyfront.load()) if any(tname(x) in ("MemoryViewIndexNode", "MemoryViewSliceNode", "BufferIndexNode", "SliceIndexNode") for x in walk(nd.body))}
    except Exception:
        cdefs = set()
    for x in walk(cyf.node.body):
        if tname(x) == "SimpleCallNode" and tname(x.function) == "NameNode" and x.function.name in cdefs:
            helper_calls.append(x)
    if helper_calls:
        rep.undecided("R-C08-a", "%s@%d" % (where, helper_calls[0].pos[1]), "%s: tail copies and shortcut results" % op,
                      "the kernel calls %s(), a cdef helper that touches array elements: outside the decision-table schema" % helper_calls[0].function.name)
        return n
    # tails
    tails, unk = k.tails(loop)
    got = set(s for s, _ in tails)
    bulk = k.bulk_tails()
    for side, line, ctg in bulk:
        if side is None:
            unk.append(line)
        elif not ctg:
            n += 1
            rep.violated("R-C08-a", "%s@%d" % (where, line), "%s: tail of the %s operand copied with memcpy" % (op, side),
                         "memcpy copies physically adjacent memory, but the parameter is declared as a general typed memoryview ([:]), which accepts strided views: for a[::2] or one column of a table the tail of the result is whatever lies between the elements",
                         witness={"inputs": "union(contiguous [0], strided view [0, 2, 4] of [0,1,2,3,4]) -> [0, 2, 3]"})
            got.add(side)
        else:
            got.add(side)
    if unk:
        rep.undecided("R-C08-a", "%s@%d" % (where, unk[0]), "%s: loops after the merge" % op, "a loop that is not a recognised tail copy")
    else:
        n += 1
        rep.check(got == kernels.TAILS[op], "R-C08-a", where, "%s: tail copies" % op,
                  "copies the rest of %s" % (sorted(got) or "neither side"),
                  "tail copies for %s; %s requires %s" % (sorted(got) or "neither side", op, sorted(kernels.TAILS[op]) or "none"),
                  witness={"inputs": "left=[1,5,9], right=[1]" if op != "intersection" else "left=[1], right=[1,2]"})
    # prelude scenarios
    for sname, sc in kernels.SCENARIOS:
        cons = "%s: %s" % (op, sname)
        try:
            d = k.scenario(sc)
        except Undecided as e:
            rep.undecided("R-C08-a", where, cons, "prelude not understood: %s" % e)
            continue
        allowed = kernels.PRELUDE[op][sname]
        n += 1
        if d[0] == "UNKNOWN":
            rep.undecided("R-C08-a", where, cons, "result of the prelude not recognised: %s" % (d[1],))
            continue
        rep.check(d in allowed, "R-C08-a", where, cons, "result: %s" % (d,), "kernel yields %s; %s requires one of %s" % (d, op, allowed),
                  witness={"scenario": sname})
    # final return
    rets = [x for x in walk(cyf.node.body) if tname(x) == "ReturnStatNode"]
    last = rets[-1] if rets else None
    ok = False
    other_slice = None
    if last is not None:
        v = unwrap(last.value)
        # result[:result_len], possibly copied / cast: .copy(), .astype(...), numpy.array(...)
        while tname(v) in ("SimpleCallNode", "GeneralCallNode"):
            fn = v.function
            args = v.positional_args.args if tname(v) == "GeneralCallNode" else (v.args if getattr(v, "args", None) is not None else v.arg_tuple.args)
            if tname(fn) == "AttributeNode" and fn.attribute in ("copy", "astype", "view"):
                v = unwrap(fn.obj)
            elif tname(fn) == "AttributeNode" and fn.attribute in ("array", "asarray", "ascontiguousarray") and args:
                v = unwrap(args[0])
            else:
                break
        if tname(v) == "SliceIndexNode" and tname(unwrap(v.base)) == "NameNode" and unwrap(v.base).name == k.result_obj:
            if v.start is None and v.stop is not None and tname(unwrap(v.stop)) == "NameNode" and unwrap(v.stop).name == k.result_len:
                ok = True
            else:
                other_slice = v
        elif tname(v) == "NameNode" and v.name == k.result_obj:
            other_slice = v  # the whole, maximally sized, buffer
    n += 1
    if ok:
        rep.proved("R-C08-c", where, "%s: returns the filled prefix" % op, "return result[:result_len]")
    elif other_slice is not None:
        rep.violated("R-C08-c", where, "%s: returns the filled prefix" % op, "a slice of the output buffer other than [:result_len] is returned: unfilled (garbage) elements are included or emitted ones dropped",
                     witness={"inputs": "any overlapping operands"})
    else:
        rep.undecided("R-C08-c", where, "%s: returns the filled prefix" % op, "the value returned after the merge is not recognised as result[:result_len] (or a copy of it)")
    return n


def _branch_witness(op, rel, emits, advs):
    ex = {"L<R": "left=[1,3], right=[2,3]", "L>R": "left=[2,3], right=[1,3]", "EQ": "left=[1,2], right=[1,3]"}[rel]
    return {"inputs": ex}


def check_wrappers(rep, prog, wk, kernel_ops):
    n = 0
    for op in OPS:
        fi = prog.func("set_operations", op)
        where = fi.fq
        params = fi.params()
        L, R = tm.param(params[0]), tm.param(params[1])
        flags = params[2:]
        ks, _, _ = wk[op]
        kern = ks[0]["resolved"][0] if ks else None
        # scenarios over None-ness of operands and emptiness of the result
        for lnone in (True, False):
            for rnone in (True, False):
                for empty in (False, True):
                    for fl in ([True, False] if flags else [None]):
                        def oracle(t, lnone=lnone, rnone=rnone, empty=empty, fl=fl):
                            if t.op == "cmp" and t.args[0] in ("is", "is not") and tm.NONE in t.args[1:]:
                                x = t.args[1] if t.args[2] == tm.NONE else t.args[2]
                                if x == L:
                                    return lnone if t.args[0] == "is" else not lnone
                                if x == R:
                                    return rnone if t.args[0] == "is" else not rnone
                            if t.op == "call" and tm.callee_name(t) == "builtins.len":
                                return not empty
                            if t.op == "param" and t.args[0] in flags:
                                return fl
                            return None
                        I = Interp(prog, oracle=oracle)
                        fr = I.run(fi)
                        rets = [v for v, g in fr.returns]
                        val = rets[0] if len(rets) == 1 else (tm.NONE if not rets else None)
                        cons = "%s(%s, %s)%s result %s" % (op, "None" if lnone else "L", "None" if rnone else "R",
                                                            "" if fl is None else " flag=%s" % fl, "empty" if empty else "non-empty")
                        exp = _expected_wrapper(op, lnone, rnone, empty, fl, L, R, kern, flags)
                        n += 1
                        if val is None:
                            rep.undecided("R-C08-d", where, cons, "more than one return on a fully decided path")
                            continue
                        okv = _matches(val, exp)
                        if not okv and tm.contains(val, lambda x: x.op == "call" and (tm.callee_name(x) or "").startswith("set_operations.") and not any(k in (tm.callee_name(x) or "") for k in ("_merge_np", "_merge_many"))):
                            # the value goes through a helper of the module that this rule cannot read (a cdef function is not
                            # part of the Python-level program): what it returns is not decided here
                            rep.undecided("R-C08-d", where, cons, "the result passes through a module-level helper the walker does not read: %s" % tm.show(val)[:70])
                            continue
                        rep.check(okv, "R-C08-d", where, cons, "returns %s" % tm.show(val)[:60], "returns %s, documented behaviour is %s" % (tm.show(val)[:80], exp[0]))
    return n


def _expected_wrapper(op, lnone, rnone, empty, fl, L, R, kern, flags):
    kf = tm.T("func", kern.fq) if kern is not None else None
    kcall = tm.call(kf, (L, R)) if kf is not None else None
    if op == "intersection":
        if lnone or rnone:
            return ("None", tm.NONE)
        return ("None", tm.NONE) if empty else ("kernel(L, R)", kcall)
    if op == "union":
        if lnone and rnone:
            return ("None", tm.NONE)
        if empty:
            return ("None", tm.NONE)
        if lnone:
            return ("R (copied iff copy_right)", "operand", R)
        if rnone:
            return ("L (copied iff copy_left)", "operand", L)
        return ("kernel(L, R)", kcall)
    if op == "difference":
        if lnone:
            return ("None", tm.NONE)
        if empty:
            return ("None", tm.NONE)
        if rnone:
            return ("L (copied iff copy)", "operand", L)
        return ("kernel(L, R)", kcall)


def _matches(val, exp):
    if len(exp) == 2:
        return val == exp[1]
    # operand or its copy
    x = exp[2]
    for a in tm.alts(val):
        if a == x:
            continue
        if a.op == "call" and tm.callee_name(a) == ".copy" and a.args[0].args[0] == x:
            continue
        return False
    return True


def kernels_children(n):
    from sa.cyfront import children
    return children(n)


def check_many(rep, funcs):
    f = [x for x in funcs if x.name == "set_union_merge_many"]
    if not f:
        rep.note("set_union_merge_many not present")
        return 0
    f = f[0]
    where = "set_operations:%s" % f.name
    n = 0
    # element type: the memoryview the values are read from
    elem_t = None
    vname, oname = "values", "result_view"
    try:
        from sa import kway as _kw
        _k = _kw.KWay(f)
        _k.failure = None
        try:
            _k.analyse()
            _k.prelude()
        except _kw.Undecided as e:
            _k.failure = str(e)
        vname = getattr(_k, "roles", {}).get("V", vname)
        oname = getattr(_k, "roles", {}).get("OUT", oname)
    except Exception:
        _k = None
    f.kway = _k
    for x in walk(f.node.body):
        if tname(x) == "SingleAssignmentNode" and tname(x.lhs) == "NameNode" and tstr(x.lhs.type).endswith("[:]") and x.lhs.name == vname:
            elem_t = tstr(x.lhs.type)[:-3]
    loops = [x for x in walk(f.node.body) if tname(x) == "WhileStatNode"]
    if not loops or elem_t is None:
        rep.undecided("R-C08-e", where, "k-way merge schema", "cannot find the merge loop / value buffer")
        return 0
    loop = loops[0]
    # exhaustion test: `if A == B: break` inside the loop
    ex = None
    for x in walk(loop.body):
        if tname(x) == "IfStatNode" and len(x.if_clauses) == 1:
            b = kernels.stmts(x.if_clauses[0].body)
            c = unwrap(x.if_clauses[0].condition)
            if len(b) == 1 and tname(b[0]) == "BreakStatNode" and tname(c) == "PrimaryCmpNode":
                ex = c
    WIDTH = {"uint32": 32, "const uint32": 32, "unsigned int": 32, "int": 31, "long": 63, "unsigned long": 64, "unsigned long long": 64,
             "uint64": 64, "long long": 63, "Py_ssize_t": 63, "size_t": 64, "uint64_t": 64, "int64_t": 63, "bint": 1}
    n += 1
    if ex is None:
        rep.undecided("R-C08-e", where, "exhaustion test", "no `if <test>: break` in the merge loop")
    else:
        a, b = unwrap(ex.operand1), unwrap(ex.operand2)
        ta, tb = str(getattr(a, "type", "")), str(getattr(b, "type", ""))
        by_value = tname(a) == "NameNode" and tname(b) == "NameNode" and (ta in (elem_t, "const " + elem_t) or tb in (elem_t, "const " + elem_t)) and ex.operator in ("==", "!=")
        if by_value:
            wide = min(WIDTH.get(ta, 0), WIDTH.get(tb, 0)) > WIDTH.get(elem_t, 32)
            rep.check(wide, "R-C08-e", "%s@%d" % (where, ex.pos[1]), "exhaustion sentinel",
                      "sentinel type wider than the element type",
                      "exhaustion is detected by `%s %s %s` where both are %s: with the largest element present the sentinel max+1 wraps to 0 and equals a legal value"
                      % (a.name, ex.operator, b.name, elem_t),
                      witness={"inputs": "[[4294967295]] -> returns [] instead of [4294967295]"})
        else:
            rep.proved("R-C08-e", "%s@%d" % (where, ex.pos[1]), "exhaustion test", "exhaustion is tracked by position/flag (%s %s %s), not by a sentinel element value" % (getattr(a, "name", tname(a)), ex.operator, getattr(b, "name", tname(b))))
    # ---- R-C08-j: every return of the function
    def _parents(root):
        out = {}
        for x in walk(root):
            for c in kernels_children(x):
                out[id(c)] = x
        return out

    par = _parents(f.node.body)
    for r in [x for x in walk(f.node.body) if tname(x) == "ReturnStatNode"]:
        v = unwrap(r.value) if r.value is not None else None
        # the guard: nearest enclosing if-clause condition
        cond = None
        p = par.get(id(r))
        while p is not None and cond is None:
            if tname(p) == "IfClauseNode":
                cond = p.condition
            p = par.get(id(p))
        w = "%s@%d" % (where, r.pos[1])
        if v is not None and tname(v) == "SliceIndexNode":
            continue  # the merged prefix (R-C08-c covers its form for the two-way kernels; the layout rule for this one)
        if v is not None and tname(v) in ("GeneralCallNode", "SimpleCallNode") and tname(v.function) == "AttributeNode" and v.function.attribute in ("empty", "zeros", "array"):
            continue  # the empty result (R-C08-h)
        n += 1
        cmpn = None
        if cond is not None:
            for y in walk(cond):
                if tname(y) == "PrimaryCmpNode" and y.operator in ("<", "<=", ">", ">="):
                    a, b = unwrap(y.operand1), unwrap(y.operand2)
                    if tname(a) == "SliceIndexNode" and tname(b) == "SliceIndexNode":
                        cmpn = y
        if v is not None and tname(v) == "NameNode" and cmpn is not None:
            a, b = unwrap(cmpn.operand1), unwrap(cmpn.operand2)
            same = tname(unwrap(a.base)) == "NameNode" and tname(unwrap(b.base)) == "NameNode" and unwrap(a.base).name == unwrap(b.base).name == v.name
            strict = cmpn.operator in ("<", ">")
            if same and strict:
                rep.proved("R-C08-j", w, "shortcut: return the concatenation when it is strictly increasing", "x[:-1] %s x[1:]" % cmpn.operator)
            elif same:
                rep.violated("R-C08-j", w, "shortcut: return the concatenation when it is sorted",
                             "the test is %s (sorted), not strict: the inputs are each strictly increasing, so equality happens exactly where one array ends with the value the next one starts with - that value is returned twice" % cmpn.operator,
                             witness={"inputs": "set_union_merge_many([[1, 2, 3], [3, 4, 5]]) -> [1, 2, 3, 3, 4, 5]"})
            else:
                rep.undecided("R-C08-j", w, "early return of %s" % v.name, "guard not recognised")
        else:
            rep.undecided("R-C08-j", w, "early return in the multi-way union", "neither the empty result nor the merged prefix, and not a recognised shortcut")
    # R-C08-h / R-C08-i: from the k-way analysis when it reached the prelude (role-based, independent of local names),
    # otherwise from the older syntactic rules
    kparts = {}
    for status, part, line, cons, detail, wit in (_k.obl if _k is not None else []):
        kparts.setdefault(part, []).append((status, line, cons, detail, wit))
    decided = lambda items: bool(items) and all(st != "UNDECIDED" for st, l, c, d, w in items)
    if decided(kparts.get("empty")) and decided([x for x in kparts.get("layout", []) if "cursor[a] starts" in x[2]]):
        for st, l, c, d, w in kparts["empty"]:
            n += 1
            rep.add("R-C08-h", "%s@%d" % (where, l), c, st, d, True, w)
        for st, l, c, d, w in kparts["layout"]:
            if "cursor[a] starts" in c or "limit[a] is" in c:
                n += 1
                rep.add("R-C08-i", "%s@%d" % (where, l), c, st, d, True, w)
    else:
        n += check_many_layout(rep, f, where, loop)
    # duplicates: every emission needs either (a) a loop advancing all arrays whose head equals the minimum, or (b) a guard comparing with the previously emitted value
    emits = [x for x in walk(loop.body) if tname(x) == "SingleAssignmentNode" and tname(x.lhs) == "MemoryViewIndexNode" and tname(x.lhs.base) == "NameNode" and x.lhs.base.name == oname]
    n += 1
    if not emits:
        rep.undecided("R-C08-f", where, "emission", "no store into the result buffer found in the merge loop")
    else:
        em = emits[0]
        emitted = unwrap(em.rhs)
        ename = emitted.name if tname(emitted) == "NameNode" else None
        # (a) a for-loop in the while body, other than the scanning one, that advances pointers[...] under an equality test with the emitted value
        adv_all = False
        for x in walk(loop.body):
            if tname(x) in ("ForInStatNode", "ForFromStatNode"):
                has_eq = any(tname(y) == "PrimaryCmpNode" and y.operator == "==" and ename in (getattr(unwrap(y.operand1), "name", None), getattr(unwrap(y.operand2), "name", None)) for y in walk(x.body))
                has_adv = any((tname(y) == "InPlaceAssignmentNode" and tname(y.lhs) == "MemoryViewIndexNode" and y.operator == "+")
                              or (tname(y) == "SingleAssignmentNode" and tname(y.lhs) == "MemoryViewIndexNode" and tname(unwrap(y.rhs)) == "AddNode") for y in walk(x.body))
                if has_eq and has_adv:
                    adv_all = True
        # (b) emission guarded by a comparison of the emitted value with another value variable (last emitted)
        guarded = False
        for x in walk(loop.body):
            if tname(x) == "IfStatNode":
                for cl in x.if_clauses:
                    if any(y is em for y in walk(cl.body)):
                        c = unwrap(cl.condition)
                        for y in walk(c):
                            if tname(y) == "PrimaryCmpNode" and y.operator in ("!=", ">", "<") and ename in (getattr(unwrap(y.operand1), "name", None), getattr(unwrap(y.operand2), "name", None)):
                                guarded = True
        # a loop that compares heads with the emitted value but advances in a form not recognised here (a cursor written
        # through a temporary, cached heads ...) is a rewrite: not decided by this syntactic rule
        other_loops = [x for x in walk(loop.body) if tname(x) in ("ForInStatNode", "ForFromStatNode")
                       and any(tname(y) == "PrimaryCmpNode" and y.operator == "==" and ename in (getattr(unwrap(y.operand1), "name", None), getattr(unwrap(y.operand2), "name", None)) for y in walk(x.body))]
        if not (adv_all or guarded) and other_loops:
            rep.undecided("R-C08-f", "%s@%d" % (where, em.pos[1]), "duplicate suppression in the k-way merge", "a loop compares heads with the emitted value but its advance is not in a recognised form")
            return n
        rep.check(adv_all or guarded, "R-C08-f", "%s@%d" % (where, em.pos[1]), "duplicate suppression in the k-way merge",
                  "all arrays whose head equals the minimum are advanced" if adv_all else "emission guarded by the previously emitted value",
                  "only the array holding the minimum is advanced and the emission is unguarded: a value present in two arrays is emitted twice",
                  witness={"inputs": "[[1,3],[1,5]] -> [1,1,3,5] instead of [1,3,5]"})
    return n


def check_many_layout(rep, f, where, loop):
    """R-C08-h (empty input) and R-C08-i (offsets are prefix sums)."""
    n = 0
    top = kernels.stmts(f.node.body)
    # the filtered list of non-empty arrays and its length
    first_concat = None
    for i, s in enumerate(top):
        for x in walk(s):
            if tname(x) in ("SimpleCallNode", "GeneralCallNode") and tname(x.function) == "AttributeNode" and x.function.attribute == "concatenate":
                if first_concat is None:
                    first_concat = i
    guard = False
    if first_concat is not None:
        for s in top[:first_concat]:
            if tname(s) == "IfStatNode" and any(tname(y) == "ReturnStatNode" for y in walk(s)):
                names = [y.name for y in walk(s.if_clauses[0].condition) if tname(y) == "NameNode"]
                if any(nm in ("num_arrays", "value_arrays") for nm in names):
                    guard = True
    n += 1
    rep.check(guard, "R-C08-h", where, "empty input handled before concatenate",
              "early return when no non-empty array is left", "numpy.concatenate / max are applied to the filtered list without an emptiness guard: the union of no arrays raises ValueError",
              witness={"inputs": "[] or [[], []]"}) if first_concat is not None else rep.undecided("R-C08-h", where, "empty input", "no concatenate found")
    # offsets: the memoryview read as `ptr = X[arrnum]` and used to index the value buffer
    off_name = None
    for x in walk(loop.body):
        if tname(x) == "SingleAssignmentNode" and tname(x.lhs) == "NameNode" and tname(unwrap(x.rhs)) == "MemoryViewIndexNode":
            r = unwrap(x.rhs)
            if tname(r.base) == "NameNode" and r.base.name not in ("values",) and x.lhs.name == "ptr":
                off_name = r.base.name
    src = None
    if off_name:
        for s in top:
            if tname(s) == "SingleAssignmentNode" and tname(s.lhs) == "NameNode" and s.lhs.name == off_name:
                r = unwrap(s.rhs)
                if tname(r) == "NameNode":
                    for s2 in top:
                        if tname(s2) == "SingleAssignmentNode" and tname(s2.lhs) == "NameNode" and s2.lhs.name == r.name:
                            src = s2.rhs
    n += 1
    if src is None:
        rep.undecided("R-C08-i", where, "start offsets", "cannot find how the per-array start offsets are computed")
    else:
        cum = any(tname(y) == "AttributeNode" and y.attribute in ("cumsum", "accumulate") for y in walk(src))
        rep.check(cum, "R-C08-i", "%s@%d" % (where, src.pos[1]), "start offsets are cumulative",
                  "offsets derive from a cumulative sum of the lengths",
                  "offsets are built from the individual lengths, not their running total: wrong for the third and later arrays",
                  witness={"inputs": "[[1],[2],[3,4]] -> [1,2,2,3]"})
    return n


def check_kway(rep, funcs):
    """R-C08-k: decision tables of the k-way merge (sa/kway.py)."""
    from sa import kway
    f = [x for x in funcs if x.name == "set_union_merge_many"]
    if not f:
        return 0
    where = "set_operations:set_union_merge_many"
    k = getattr(f[0], "kway", None)
    failure = getattr(k, "failure", None) if k is not None else None
    if k is None:
        try:
            k = kway.KWay(f[0])
            k.analyse()
            k.prelude()
        except kway.Undecided as e:
            failure = str(e)
    if failure is not None and (k is None or not any(o[0] == "VIOLATED" for o in k.obl)):
        rep.undecided("R-C08-k", where, "k-way merge schema (reset / scan / exit / emit / advance)", "outside the recognised schema: %s" % failure)
    n = 0
    for status, part, line, cons, detail, wit in (k.obl if k is not None else []):
        n += 1
        rep.add("R-C08-k", "%s@%d" % (where, line), "[%s] %s" % (part, cons), status, detail, True, wit)
    rep.floor("R-C08-k", 30, n) if not any(o.status != "PROVED" and o.rule == "R-C08-k" for o in rep.obls) else None
    return n


def check_general_views(rep, funcs, rule="R-C08-n"):
    """The kernels accept every strictly increasing uint32 array, whatever its memory layout: a parameter declared
    C-contiguous (`[::1]`) makes Cython raise ValueError('ndarray is not C-contiguous') for a strided view such as
    rows[::2], which is a legitimate operand (and a legitimate row-id array of an index)."""
    n = 0
    for f in funcs:
        for a in f.node.args:
            t = str(a.type)
            if "[" not in t or not t.replace("const ", "").startswith("uint32["):
                continue
            n += 1
            where = "set_operations:%s" % f.name
            rep.check("::1" not in t, rule, where, "%s: parameter %s accepts strided views" % (f.name, a.name), t,
                      "declared %s: a non-contiguous operand (a[::2], a reversed or column view) is rejected with ValueError before the merge starts" % t,
                      witness={"inputs": "%s(numpy.arange(10, dtype='uint32')[::2], ...)" % f.name})
    return n


def check_value_arithmetic(rep, funcs):
    """R-C08-m: element values (row ids, uint32) take part only in loads, stores and comparisons.  `value + k` computed in
    a 32-bit unsigned type wraps at 2^32, and the property includes arrays that contain 2^32 - 1; subtraction of element
    values and arithmetic in a wider type are not decided here.  Expected count 0 on the current kernels."""
    from sa.kway import WIDTH
    n = hits = 0
    for f in funcs:
        if f.boundscheck:
            continue
        where = "set_operations:%s" % f.name
        elem_arrays = {a.name for a in f.node.args if str(a.type).replace("const ", "").startswith("uint32[")}
        for x in walk(f.node.body):
            if tname(x) == "SingleAssignmentNode" and tname(x.lhs) == "NameNode" and str(x.lhs.type).replace("const ", "").startswith("uint32["):
                elem_arrays.add(x.lhs.name)

        def is_elem(e):
            e = unwrap(e)
            t = str(getattr(e, "type", "")).replace("const ", "")
            if tname(e) == "NameNode" and t in ("uint32", "unsigned int", "uint32_t"):
                return True
            return tname(e) == "MemoryViewIndexNode" and tname(unwrap(e.base)) == "NameNode" and unwrap(e.base).name in elem_arrays
        for x in walk(f.node.body):
            k = tname(x)
            if k not in ("AddNode", "SubNode", "MulNode"):
                continue
            n += 1
            if not (is_elem(x.operand1) or is_elem(x.operand2)):
                continue
            hits += 1
            rt = str(getattr(x, "type", "")).replace("const ", "")
            w = WIDTH.get(rt)
            at = "%s@%d" % (where, x.pos[1])
            if k in ("AddNode", "MulNode") and w is not None and w <= 32:
                rep.violated("R-C08-m", at, "arithmetic on an element value", "a row id is %s in the %d-bit type %s: for ids near 2^32 - 1 the result wraps to a small number, and the comparison or index it feeds goes the wrong way"
                             % ("added to" if k == "AddNode" else "multiplied", w, rt), witness={"inputs": "an operand that contains 4294967295 (e.g. difference([5, 4294967295], [4294967295]))"})
            else:
                rep.undecided("R-C08-m", at, "arithmetic on an element value", "%s on a row id (result type %s): outside the comparison-only schema the decision tables rest on" % (k, rt))
    if hits == 0:
        rep.proved("R-C08-m", "set_operations", "element values take part only in loads, stores and comparisons", "%d arithmetic nodes in the unchecked kernels, none on a row id" % n)


def check_callers(rep, prog):
    n = 0
    # _walk: intersect(base_rowids, rowids) with the raw kernel
    fi = prog.func("ccubes", "ccube._walk")
    I = Interp(prog, hints.param_types_for("ccubes"), hints.FIELD_TYPES, inline=False)
    I.run(fi)
    calls = [ev for ev in I.events if ev.kind == "call" and ev["name"] == "set_operations:set_intersect_merge_np"]
    for ev in calls:
        a = ev["args"]
        base = tm.param(fi.params()[3]) if len(fi.params()) > 3 else None  # the running row ids (4th parameter, whatever its name)
        ok = len(a) == 2 and base is not None and ((a[0] == base and a[1].op == "dval") or (a[1] == base and a[0].op == "dval"))  # intersection is symmetric
        n += 1
        rep.check(ok, "R-C08-g", "%s@%d" % (fi.fq, ev.line), "walk intersects the running row ids with the entry's row ids", "", "arguments are %s" % [tm.show(x)[:40] for x in a])
    rep.floor("R-C08-g", 2, len(calls))
    ii = prog.cls("iindexes", "iindex")
    for meth, op in (("union_update", "union"), ("intersection_update", "intersection"), ("difference_update", "difference")):
        fi = ii.methods[meth]
        I = Interp(prog, hints.param_types_for("iindexes"), hints.FIELD_TYPES, inline=False)
        I.run(fi)
        calls = [ev for ev in I.events if ev.kind == "call" and ev["name"] == "set_operations:%s" % op]
        n += 1
        if len(calls) != 1:
            rep.undecided("R-C08-g", fi.fq, "%s delegates to %s" % (meth, op), "%d calls found" % len(calls))
            continue
        a = calls[0]["args"]
        left_is_self = len(a) >= 2 and a[0].op == "call" and tm.callee_name(a[0]) == ".get" and a[0].args[0].args[0] == tm.param("self")
        right_is_other = len(a) >= 2 and tm.contains(a[1], lambda x: x.op == "dval" and x.args[0] == tm.param("other"))
        is_get_self = lambda x: x.op == "call" and tm.callee_name(x) == ".get" and x.args[0].args[0] == tm.param("self")
        from_other = lambda x: tm.contains(x, lambda y: y == tm.param("other"))
        swapped = len(a) >= 2 and is_get_self(a[1]) and from_other(a[0]) and not is_get_self(a[0])
        cons_g = "%s(self's rows, other's rows)" % op
        w_g = "%s@%d" % (fi.fq, calls[0].line)
        if left_is_self and right_is_other:
            rep.proved("R-C08-g", w_g, cons_g, "receiver's rows on the left")
        elif swapped:
            rep.violated("R-C08-g", w_g, cons_g, "the operands are exchanged: %s" % [tm.show(x)[:40] for x in a[:2]], witness={"inputs": "a.difference_update(b) computes b - a"} if op == "difference" else None)
        elif left_is_self and len(a) >= 2 and from_other(a[1]):
            # the receiver's rows are on the left; the right operand comes from `other` through a helper / generator this rule
            # does not read element by element
            rep.undecided("R-C08-g", w_g, cons_g, "right operand derives from `other`, but not recognisably as its row ids: %s" % tm.show(a[1])[:60])
        else:
            rep.undecided("R-C08-g", w_g, cons_g, "operands are %s" % [tm.show(x)[:40] for x in a[:2]])
    return n


def analyse_op(rep, prog, op):
    """The wrapper -> kernel delegation and the kernel's decision tables for ONE operation (imported by C01: many-to-one
    mappings merge their row sets through `union`)."""
    tree = cyfront.load()
    by_name = {f.name: f for f in cyfront.functions(tree)}
    wk = wrapper_kernels(prog)
    ks, I, fi = wk[op]
    if len(ks) != 1:
        rep.undecided("R-C08-d", fi.fq, "%s delegates to one kernel" % op, "%d kernel calls in the wrapper" % len(ks))
        return 0
    cyf = by_name.get(ks[0]["resolved"][0].qualname)
    if cyf is None:
        rep.undecided("R-C08-a", fi.fq, "kernel of %s" % op, "not found in the typed tree")
        return 0
    return check_kernel(rep, op, cyf)


def main(tier):
    rep = core.Report("C08", level="other", rules=RULES, tier=tier,
                      declined="full functional correctness of the merge loops as a machine-checked sequence proof: the checks decide every decision table the textbook argument uses, the argument itself is the trusted step")
    rep.trusted_base = ["Cython 3.3.0 front-end (typed tree)", "CPython ast + symbolic walker for the Python wrappers",
                        "required tables for intersection / union / difference of strictly increasing sequences (sa/kernels.py)"]
    rep.assume("inputs are strictly increasing (C07); bounds are C09's obligations")
    prog = Program()
    tree = cyfront.load()
    funcs = cyfront.functions(tree)
    by_name = {f.name: f for f in funcs}
    wk = wrapper_kernels(prog)
    n_table = 0
    for op in OPS:
        ks, I, fi = wk[op]
        if len(ks) != 1:
            rep.undecided("R-C08-d", fi.fq, "%s delegates to one kernel" % op, "%d kernel calls in the wrapper" % len(ks))
            continue
        kname = ks[0]["resolved"][0].qualname
        a = ks[0]["args"]
        params = fi.params()
        rep.check(len(a) == 2 and a[0] == tm.param(params[0]) and a[1] == tm.param(params[1]), "R-C08-d", fi.fq, "%s passes (left, right) to its kernel in order" % op,
                  "kernel %s" % kname, "kernel %s is called with %s" % (kname, [tm.show(x) for x in a]))
        cyf = by_name.get(kname)
        if cyf is None:
            rep.undecided("R-C08-a", fi.fq, "kernel %s" % kname, "not found in the typed tree")
            continue
        n_table += check_kernel(rep, op, cyf)
    rep.floor("R-C08-a", 40, n_table)
    nw = check_wrappers(rep, prog, wk, None)
    rep.floor("R-C08-d", 30, nw)
    check_many(rep, funcs)
    check_kway(rep, funcs)
    check_value_arithmetic(rep, funcs)
    rep.floor("R-C08-n", 6, check_general_views(rep, funcs))
    check_callers(rep, prog)
    # R-C08-o: the result a kernel returns is its own: the buffer it fills is allocated inside the call (sa/cystate.py, the
    # analysis behind R-C16-f / R-C17-e).  A module-level workspace - also one handed out by a cdef helper - is filled by
    # every caller; the merge loops run without the GIL, so two concurrent calls interleave their stores
    from sa import cystate
    ko = 0
    for status, where, cons, detail in cystate.analyse(tree):
        ko += 1
        rep.add("R-C08-o", where, cons, status, detail, True,
                {"history": "two threads call intersection() at the same time (the cubes' pool does): each result has the right length and some of the other call's elements"} if status == "VIOLATED" else None)
    rep.floor("R-C08-o", 4, ko)
    # cdef helpers are outside the decision-table schema: listed, and UNDECIDED when one touches array memory
    for name, node in cyfront.cfunctions(tree):
        touches = [x for x in walk(node.body) if tname(x) in ("MemoryViewIndexNode", "MemoryViewSliceNode", "BufferIndexNode") or (tname(x) == "SimpleCallNode" and tname(x.function) == "NameNode" and x.function.name in ("memcpy", "memmove"))]
        if touches:
            rep.undecided("R-C08-o", "set_operations:%s@%d" % (name, touches[0].pos[1]), "cdef helper %s reads or writes array elements" % name, "cdef functions are not part of the decision-table analysis")
        else:
            rep.proved("R-C08-o", "set_operations:%s" % name, "cdef helper %s touches no array element" % name, "")
    rep.analysed["kernels"] = [f.name for f in funcs]
    return rep.finish()


if __name__ == "__main__":
    core.run_main("C08", main)
