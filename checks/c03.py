#!/venv/bin/python
"""C03 - index cube, array cube and direct group-by agree on shared aggregates.

Declined: numerical agreement within 1e-9 (values).
Decided (engine A: configuration-indexed partial evaluation + aggregate algebra): for the
shared aggregates count / valid_count / sum / mean, sibling implementations normalise to
the SAME definitions -
  R-C03-a constructor derivations (validity, summables, countables, weights);
  R-C03-b per region: the array cube's three fill branches (no coordinates, one column via
          bincount, several columns via bins()) store the reducer the index cube stores per
          cell, and every index-cube corner value is the ALL-rows instance of its cell value;
  R-C03-c the missing-cell predicate;
  R-C03-d the array cube's inferred category extents are Python ints (not fixed-width scalars);
  R-C03-e strided coordinates are widened before they are multiplied.
"""
import os
import sys

sys.path.insert(0, os.path.dirname(os.path.dirname(os.path.abspath(__file__))))
from sa import core, hints, aggr, aggtables as AT, kind as K, terms as tm
from sa.terms import T
from sa.pyfront import Program
from sa.symex import Interp

RULES = {
    "R-C03-v": "index-cube fill closures write every region of the presented cell unconditionally (no data-dependent skip): a skipped cell's rows stay in the margin and marginal differencing charges them to the common cell",
    "R-C03-u": "the index cube's walk presents every non-empty uncommon and marginal combination exactly once, for every cube (imported from the C14 schema analysis): what it skips the array cube and a direct group-by still count",
    "R-C03-t": "the index cube's cells at a common category are exactly margin - sum(uncommon cells), unclamped and for every region alike (imported from C02 R-C02-e): that is what the array cube and a direct group-by compute there",
    "R-C03-s": "the input-format helper as_separate_validity (summarised by every aggregate rule) keeps its contract: a (values, validity) pair is passed through; a single array gets validity = ~isnan(array) for every dtype with a missing marker (all float widths; C03 quantifies over integer and float facts only) - a dtype shortcut to all-True is accepted only for marker-free kinds",
    "R-C03-p": "the index-cube fill closures come in a traced and an untraced variant (timing diagnostics): both store the same cell values",
    "R-C03-r": "with several fact columns and per-row weights the constructor fields stay (rows, columns): the weight vector is broadcast through paired transposes (X.T op w).T",
    "R-C03-q": "per configuration, a region that receives weight values is a float region and one that receives fact values is float or has the summed array's dtype (an integer region truncates on the store)",
    "R-C03-o": "the flat cell number the array cube hands to fill() is the SUM over all dimensions of the strided 1-D coordinate slices (reduce(operator.add, one slice per dimension)), None only when there is no dimension",
    "R-C03-n": "xfunc.bins presents every cell of range(size) with the mask coordinates == u (and, without a size, every distinct value with its rows): the per-cell fill loops of the array cube rest on it",
    "R-C03-m": "aggregate constructors do not overwrite the caller's arrays (imported from the C17 frame analysis): NaN-seeding or zero-filling the caller's own array changes what every later computation over it - the other cube, a group-by, the next statistic - sees",
    "R-C03-l": "xcube strides are row-major: multipliers[k] = product of the extents after k (evaluated symbolically on a shape of 1, 2 and 3 dimensions), matching the C-order reshape of the regions",
    "R-C03-k": "the array cube's fill methods write through C-order reshape views of the regions (xfunc.flat_regions): flat cell i is the cell of strided coordinate i, and the writes land in the cube's arrays",
    "R-C03-j": "no fill method accumulates with `region[<integer array>] += v` (applied once per distinct index, so rows sharing a cell are lost); per-row accumulation goes through bincount",
    "R-C03-i": "every region an aggregate allocates is 64-bit int/float (or the fact array's own dtype): wide enough for any row count and for the negative intermediate values of marginal differencing",
    "R-C03-h": "every near-zero test that decides 'this differenced counter is zero' (adjust_zeros' default, ffunc_count/xfunc_count.reduce) uses isclose(x, 0) with NumPy's default absolute tolerance, as documented - not a narrower one",
    "R-C03-a": "ffunc_X.__init__ and xfunc_X.__init__ normalise to the same row arrays, for each weight mode",
    "R-C03-b": "per region role, every fill branch of the array cube equals the index cube's cell reducer; every index-cube corner is the all-rows instance of its cell value",
    "R-C03-c": "the missing-cell predicate table is identical for ffunc_X and xfunc_X",
    "R-C03-d": "the value that becomes xcube.interacting_shape is a Python int at the sink (not a NumPy scalar of the dimension's dtype)",
    "R-C03-f": "index-cube counters that went through marginal differencing are tested against 0 exactly only when integral or after adjust_zeros(new=0): the array cube's directly filled counters then give the same missing cells",
    "R-C03-g": "every array-cube sub-cube task reaches its fill calls: the task function has no early return (none exists today; a new one cannot be judged and is reported as undecided)",
    "R-C03-e": "strided_dims multiplies coordinates only after astype(mintype); mintype is chosen against the total product of extents",
}


def rule_extents(prog, rep):
    for module, cls in (("xcubes", "xcube"), ("ccubes", "ccube")):
        fi = prog.func(module, cls + ".__init__")
        I = Interp(prog, hints.param_types_for(module), hints.FIELD_TYPES, no_inline={"xcube._set_strides"})
        I.run(fi)
        val = None
        for ev in I.events:
            if ev.kind == "store_attr" and ev["attr"] == "interacting_shape" and not ev.stack:
                val = ev["value"]
        where = fi.fq
        if val is None:
            rep.undecided("R-C03-d", where, "inferred extents", "interacting_shape is not assigned")
            continue
        inferred = [a for a in tm.alts(val) if a != tm.param("interacting_shape")]
        n = 0
        for a in inferred:
            if not (a.op == "call" and tm.callee_name(a) == "builtins.tuple" and a.args[1] and a.args[1][0].op == "comp"):
                rep.undecided("R-C03-d", where, "inferred extents", "inference is not tuple(<generator>): %s" % tm.show(a)[:60])
                continue
            elt = a.args[1][0].args[1]
            ctx = K.KindCtx(I, param_kinds={})
            k = kind_of_extent(elt, ctx, I)
            n += 1
            cons = "%s: inferred extent %s" % (cls, shape_of(elt))
            if k == K.PYINT:
                rep.proved("R-C03-d", where, cons, "computed in unbounded Python ints")
            elif k in (K.NPFIXED, K.ARRAY):
                rep.violated("R-C03-d", where, cons,
                             "the extent is a NumPy scalar of the dimension's own dtype: max+1 wraps (255+1 == 0 for uint8) and poisons the stride computation",
                             witness={"inputs": "xcube([numpy.array([0, 255], dtype=numpy.uint8)]).count()"})
            else:
                rep.undecided("R-C03-d", where, cons, "numeric kind of the extent not determined")


def shape_of(t):
    names = []
    for x in tm.walk(t):
        if x.op == "call":
            nm = tm.callee_name(x)
            if nm:
                names.append(nm.split(".")[-1])
        elif x.op == "attr":
            names.append("." + x.args[1])
    return " ".join(dict.fromkeys(names)) or t.op


def kind_of_extent(elt, ctx, I):
    """max(...) + 1 over the values of one dimension."""
    # keys of a well-formed index are tuples of Python ints; its common value is a Python int
    def k(t, d=0):
        if d > 20:
            return K.UNKNOWN
        if t.op == "binop":
            ks = [k(a, d + 1) for a in t.args[1:]]
            if K.NPFIXED in ks or K.ARRAY in ks:
                return K.NPFIXED
            if all(x in (K.PYINT, K.PYLIST) for x in ks):
                return K.PYLIST if K.PYLIST in ks and t.args[0] == "+" and all(x == K.PYLIST for x in ks) else K.PYINT
            return K.UNKNOWN
        if t.op == "const":
            return K.PYINT if isinstance(t.args[1], int) else K.UNKNOWN
        if t.op == "call":
            nm = tm.callee_name(t)
            if nm == "builtins.int":
                return K.PYINT
            if nm in ("builtins.max", "builtins.min", "builtins.sum"):
                ks = [k(a, d + 1) for a in t.args[1]]
                if any(x in (K.ARRAY, K.NPFIXED) for x in ks):
                    return K.NPFIXED
                if all(x in (K.PYLIST, K.PYINT) for x in ks):
                    return K.PYINT
                return K.UNKNOWN
            if nm and nm.startswith(".") and nm[1:] in ("item", "tolist"):
                return K.PYINT if nm[1:] == "item" else K.PYLIST
            if nm in ("numpy.max", "numpy.amax", "numpy.nanmax"):
                return K.NPFIXED
            return K.kind(t, ctx)
        if t.op == "attr":
            if t.args[1] == "flat":
                return K.ARRAY
            if t.args[1] == "common":
                return K.PYINT  # category values of an index are plain ints (validate rejects NumPy coordinates)
            return K.kind(t, ctx)
        if t.op == "comp":
            e = k(t.args[1], d + 1)
            return K.PYLIST if e == K.PYINT else (K.ARRAY if e == K.NPFIXED else K.UNKNOWN)
        if t.op == "alloc":
            els = I.heap.get(t, {}).get("elts", [])
            ks = [k(e, d + 1) for e in els]
            return K.PYLIST if ks and all(x == K.PYINT for x in ks) else K.UNKNOWN
        if t.op == "sub" and tm.is_const(t.args[1], 0) and t.args[0].op == "iter":
            # coords[0] for coords in <dimension>: a key of an index
            src = t.args[0].args[0]
            if src.op == "iter":
                return K.PYINT
            return K.UNKNOWN
        if t.op == "iter":
            b = t.args[0]
            if b.op == "call" and tm.callee_name(b) == "numpy.asarray":
                return K.ARRAY
            if b.op == "attr" and b.args[1] == "dims":
                return K.ARRAY  # elements of xcube.dims are arrays
            if b.op == "comp":
                return k(b.args[1], d + 1)
            return K.UNKNOWN
        return K.kind(t, ctx)

    return k(elt)


def rule_strides(prog, rep):
    fs = prog.func("xcubes", "xcube.strided_dims")
    I = Interp(prog, hints.param_types_for("xcubes"), hints.FIELD_TYPES, inline=False)
    I.run(fs)
    self_t = tm.param("self")
    mint = T("attr", self_t, "mintype")
    casts = [e for e in I.events if e.kind == "call" and e["method"] == "astype" and e["args"] and e["args"][0] == mint]
    apps = [e for e in I.events if e.kind == "call" and e["method"] == "append"]
    ok = bool(casts)
    muls_ok = True
    detail = ""
    for e in apps:
        for a in tm.alts(e["args"][0]):
            for x in tm.walk(a):
                if x.op == "binop" and x.args[0] == "*":
                    l, r = x.args[1], x.args[2]
                    arr = l if (l.op == "call") else r
                    if not any(arr == c["result"] for c in casts):
                        muls_ok = False
                        detail = "multiplication %s does not act on the widened copy" % tm.show(x)[:60]
            if not tm.contains(a, lambda y: any(y == c["result"] for c in casts)):
                muls_ok = False
                detail = "a strided dimension is not derived from astype(self.mintype)"
    rep.check(ok and muls_ok, "R-C03-e", fs.fq, "coordinates are cast to mintype before being multiplied by their stride", "dim.astype(self.mintype) * m",
              detail or "no astype(self.mintype) in strided_dims", witness={"inputs": "uint8 coordinates in a cube with more than 255 cells: 200 * 2 wraps"})
    fset = prog.func("xcubes", "xcube._set_strides")
    I2 = Interp(prog, hints.param_types_for("xcubes"), hints.FIELD_TYPES, inline=False)
    I2.run(fset)
    st = [e for e in I2.events if e.kind == "store_attr" and e["attr"] == "mintype"]
    ok2 = False
    why = "mintype is not assigned from a loop over candidate types"
    for e in st:
        v = e["value"]
        for a in tm.alts(v):
            if a.op == "iter":
                lid = a.args[1]
                # a break guarded by maxmult <= iinfo(candidate).max with maxmult from the cumulative product of the extents
                for g in list(I2.events):
                    pass
                conds = [c for ev in I2.events for c, pol in ev.guards if lid in ev.loops]
                for c in conds:
                    if c.op == "cmp" and c.args[0] in (">=", ">") and tm.contains(c.args[1], lambda x: x.op == "call" and tm.callee_name(x) == "numpy.iinfo"):
                        c = T("cmp", {">=": "<=", ">": "<"}[c.args[0]], c.args[2], c.args[1])  # maxint >= maxmult, written the other way round
                    if c.op == "cmp" and c.args[0] in ("<=", "<") and tm.contains(c.args[2], lambda x: x.op == "call" and tm.callee_name(x) == "numpy.iinfo") \
                            and tm.contains(c.args[1], lambda x: x.op == "call" and tm.callee_name(x) == "numpy.cumprod") \
                            and tm.contains(c.args[1], lambda x: x.op == "attr" and x.args[1] == "interacting_shape"):
                        last = tm.contains(c.args[1], lambda x: x.op == "sub" and tm.is_const(x.args[1], -1))
                        ok2 = last
                        why = "compared with the total product of extents" if last else "not the LAST cumulative product (total number of cells)"
    rep.check(ok2, "R-C03-e", fset.fq, "mintype is the first unsigned type whose maximum is >= the total number of cells", why, why)


class _Vec(list):
    """a vector of monomials: each element a sorted tuple of symbols (the product); () is 1"""


def _sym_eval(t, I, shape):
    """Evaluate a term built from list/reversed/cumprod/flip/append/concatenate/slices over self.interacting_shape
    on the symbolic vector `shape`; None when a form is not understood."""
    nm = tm.callee_name(t) if t.op == "call" else None
    if t.op == "attr" and t.args[1] == "interacting_shape":
        return _Vec(shape)
    if t.op == "alloc" and t in I.heap:
        els = I.heap[t].get("elts", []) or I.heap[t].get("literal", [])
        out = _Vec()
        for el in els:
            if tm.is_const(el, 1):
                out.append(())
            else:
                return None
        return out
    if t.op == "call" and nm in ("builtins.list", "builtins.tuple", "numpy.array", "numpy.asarray") and t.args[1]:
        return _sym_eval(t.args[1][0], I, shape)
    if t.op == "call" and nm in ("builtins.reversed", "numpy.flip") and t.args[1]:
        v = _sym_eval(t.args[1][0], I, shape)
        return None if v is None else _Vec(reversed(v))
    if t.op == "call" and nm == "numpy.cumprod" and t.args[1]:
        v = _sym_eval(t.args[1][0], I, shape)
        if v is None:
            return None
        out, acc = _Vec(), ()
        for m in v:
            acc = tuple(sorted(acc + m))
            out.append(acc)
        return out
    if t.op == "call" and nm in ("numpy.append", "numpy.concatenate"):
        parts = t.args[1] if nm == "numpy.append" else None
        if nm == "numpy.concatenate" and t.args[1]:
            a0 = t.args[1][0]
            parts = a0.args if a0.op in ("tuple", "list") else (I.heap[a0].get("elts") if a0.op == "alloc" and a0 in I.heap else None)
        if not parts:
            return None
        out = _Vec()
        for p in parts[:2] if nm == "numpy.append" else parts:
            v = _sym_eval(p, I, shape)
            if v is None:
                return None
            out.extend(v)
        return out
    if t.op == "sub" and t.args[1].op == "slice":
        v = _sym_eval(t.args[0], I, shape)
        if v is None:
            return None
        lo, hi, st = t.args[1].args
        def c(x):
            return None if x == tm.NONE else (x.args[1] if tm.is_const(x) and isinstance(x.args[1], int) else "?")
        lo, hi, st = c(lo), c(hi), c(st)
        if "?" in (lo, hi, st):
            return None
        return _Vec(list(v)[slice(lo, hi, st)])
    return None


def rule_l(prog, rep):
    fi = prog.func("xcubes", "xcube._set_strides")
    I = Interp(prog, hints.param_types_for("xcubes"), hints.FIELD_TYPES, inline=False)
    I.run(fi)
    st = [e for e in I.events if e.kind == "store_attr" and e["attr"] == "multipliers" and e["base"] == tm.param("self")]
    if len(st) != 1:
        rep.undecided("R-C03-l", fi.fq, "strides", "expected one store to self.multipliers, found %d" % len(st))
        return
    t = st[0]["value"]
    for n in (1, 2, 3):
        shape = [("d%d" % k,) for k in range(n)]
        got = _sym_eval(t, I, shape)
        want = [tuple(sorted(sum((shape[j] for j in range(k + 1, n)), ()))) for k in range(n)]
        cons = "multipliers for %d dimension(s)" % n
        if got is None:
            rep.undecided("R-C03-l", fi.fq, cons, "form not evaluable: %s" % tm.show(t)[:80])
            continue
        show = lambda v: ["*".join(m) or "1" for m in v]
        rep.check(list(got) == want, "R-C03-l", "%s@%d" % (fi.fq, st[0].line), cons, "row-major strides %s" % show(want),
                  "strides are %s but the regions are reshaped in C (row-major) order, which needs %s: the flat cell number of (i, j, ...) addresses another cell" % (show(got), show(want)),
                  witness={"inputs": "xcube over two dimensions of different extents, e.g. 2 x 3: counts land in transposed positions"})


def rule_o(prog, rep):
    from sa import tasks
    info = tasks.analyse_cube(prog, "xcubes", "xcube", max_depth=2)
    I = info.I
    where = info.fi.fq
    fills = [e for e in I.events if e.kind == "call" and e["method"] == "fill" and e["args"]]
    if not fills:
        rep.undecided("R-C03-o", where, "coordinates passed to fill", "no fill() call found in the task")
        return
    seen = set()
    for e in fills:
        c = e["args"][0]
        if c in seen:
            continue
        seen.add(c)
        w = "%s@%d" % (where, e.line)
        for a in tm.alts(c):
            if a == tm.NONE:
                continue
            cons = "flat coordinates = sum of the strided slices of all dimensions"
            if a.op == "call" and tm.callee_name(a) in ("functools.reduce", "builtins.sum", "numpy.sum", "numpy.add.reduce") and a.args[1]:
                if tm.callee_name(a) == "functools.reduce":
                    fn, seq = a.args[1][0], (a.args[1][1] if len(a.args[1]) > 1 else None)
                    fname = tm.dotted(fn)
                    okf = fname in ("operator.add", "operator.iadd", "numpy.add")
                else:
                    seq, okf, fname = a.args[1][0], True, tm.callee_name(a)
                per_dim = seq is not None and seq.op == "comp" and tm.contains(seq, lambda x: x.op == "iter")
                if okf and per_dim:
                    rep.proved("R-C03-o", w, cons, "%s over one slice per dimension" % fname)
                elif not okf:
                    rep.violated("R-C03-o", w, cons, "the slices are combined with %s, not added: a row's flat cell number is no longer sum(coordinate x stride)" % fname,
                                 witness={"inputs": "any xcube with two dimensions"})
                else:
                    rep.undecided("R-C03-o", w, cons, "the reduced sequence is not recognised as one slice per dimension")
            elif a.op == "sub" and tm.is_const(a.args[1]):
                rep.violated("R-C03-o", w, cons, "only one dimension's slice (%s) is used: the other dimensions do not contribute to the cell number" % tm.show(a)[:40],
                             witness={"inputs": "any xcube with two dimensions: every row lands in the first column of its row of cells"})
            else:
                rep.undecided("R-C03-o", w, cons, "form not recognised: %s" % tm.show(a)[:60])


def rule_g(prog, rep):
    from sa import tasks
    info = tasks.analyse_cube(prog, "xcubes", "xcube")
    where = info.fi.fq
    entries = list(info.callbacks) + list(info.serial_calls)
    if not entries:
        rep.undecided("R-C03-g", where, "task activations", "no task function dispatched from calculate (anchor vanished)")
        return
    for entry in entries:
        kind = "pooled" if entry in info.callbacks else "serial"
        ers = tasks.early_returns(info, entry)
        fills = [e for e in tasks.task_events(info, entry) if e.kind == "call" and e["method"] == "fill"]
        if not ers:
            rep.check(bool(fills), "R-C03-g", "%s@%d" % (where, entry.line), "%s task: falls through to its fill calls" % kind, "%d fill call site(s), no early return" % len(fills), "the task calls no fill()")
        for ev, extra in ers:
            rep.undecided("R-C03-g", "%s@%d" % (where, ev.line), "%s task: early return" % kind, "a sub-cube whose task returns early keeps its initial (missing) cells; cannot decide whether that is right (guards: %s)" % [tm.show(c)[:40] for c, p in extra])


def main(tier):
    rep = core.Report("C03", level="other", rules=RULES, tier=tier,
                      declined="numerical agreement of the two cubes and a direct group-by within 1e-9 (values, floating point); decided: sibling definitions agree in the aggregate algebra")
    rep.trusted_base = ["CPython ast", "symbolic walker + configuration oracle (sa/aggr.py)", "aggregate algebra normaliser (sa/algebra.py)", "NEP 50 promotion facts (sa/kind.py)"]
    prog = Program()
    from sa import valhelper
    nvh = 0
    for _m in ('ffuncs', 'xfuncs'):
        nvh += valhelper.check(prog, rep, _m, 'R-C03-s', kinds=('f',))
    rep.floor('R-C03-s', 4, nvh)
    C = AT.Collector()
    AT.rule_ctor_agreement(prog, C)
    n1 = AT.rule_corner_cell(prog, C, "R-C03-b")
    n2 = AT.rule_sibling_fill(prog, C)
    # R-C03-c: predicate tables agree (both sides are compared with the same required table)
    AT.rule_predicates(prog, C, AT.SHARED, rule="R-C03-c")
    # the predicate tables only agree in effect if the index cube's differenced floating-point counters
    # are snapped to zero before an exact test (the array cube fills every cell directly)
    AT.rule_exact_tests(prog, C, rule="R-C03-f")
    CT = AT.Collector()
    nt = AT.rule_zero_snap_tolerance(prog, CT, "R-C03-h")
    for rule, status, where, cons, detail, wit in CT.items:
        rep.add(rule, where, cons, status, detail, True, wit)
    rep.floor("R-C03-h", 4, nt)
    CB = AT.Collector()
    nb = AT.rule_bins(prog, CB, "R-C03-n")
    for rule, status, where, cons, detail, wit in CB.items:
        rep.add(rule, where, cons, status, detail, True, wit)
    rep.floor("R-C03-n", 3, nb + 1)
    CV = AT.Collector()
    nv = AT.rule_flat_views(prog, CV, "R-C03-k")
    for rule, status, where, cons, detail, wit in CV.items:
        rep.add(rule, where, cons, status, detail, True, wit)
    rep.floor("R-C03-k", 2, nv)
    CF = AT.Collector()
    nf = AT.rule_fancy_increment(prog, CF, "R-C03-j")
    for rule, status, where, cons, detail, wit in CF.items:
        rep.add(rule, where, cons, status, detail, True, wit)
    rep.floor("R-C03-j", 10, nf + 0)
    CT2 = AT.Collector()
    nt2 = AT.rule_tracing_twins(prog, CT2, "R-C03-p")
    for rule, status, where, cons, detail, wit in CT2.items:
        rep.add(rule, where, cons, status, detail, True, wit)
    rep.floor("R-C03-p", 2, nt2)
    CD = AT.Collector()
    nd = AT.rule_region_dtypes(prog, CD, "R-C03-i")
    for rule, status, where, cons, detail, wit in CD.items:
        rep.add(rule, where, cons, status, detail, True, wit)
    rep.floor("R-C03-i", 20, nd)
    CL = AT.Collector()
    nl = AT.rule_row_layout(prog, CL, "R-C03-r", classes=("valid_count", "sum", "mean"))
    for rule, status, where, cons, detail, wit in CL.items:
        rep.add(rule, where, cons, status, detail, True, wit)
    rep.floor("R-C03-r", 12, nl)
    CK = AT.Collector()
    nk = AT.rule_region_kind(prog, CK, "R-C03-q", modules=("ffuncs", "xfuncs"), classes=None)
    for rule, status, where, cons, detail, wit in CK.items:
        rep.add(rule, where, cons, status, detail, True, wit)
    rep.floor("R-C03-q", 60, nk)
    rule_g(prog, rep)
    rule_l(prog, rep)
    rule_o(prog, rep)
    for rule, status, where, cons, detail, wit in C.items:
        rep.add(rule, where, cons, status, detail, True, wit)
    for m in list(AT._cache.values()):
        for a in m.alg.assumptions:
            rep.assume(a)
    rep.assume(".T pairs around row-wise products implement broadcasting and are ignored by the normaliser")
    rep.floor("R-C03-b", 100, n1 + n2)
    rule_extents(prog, rep)
    rule_strides(prog, rep)
    rep.analysed["models"] = len(AT._cache)
    import c17
    sub17 = core.Report("C17", level="other", rules=c17.RULES, tier=tier)
    st17 = {"events": 0, "mods": 0, "diagnostic": {}, "exceptions": {}, "regions": 0, "shortcuts": 0}
    k17 = 0
    for fi17, kind17 in c17.build_roots(prog):
        if kind17 == "ctor" and fi17.module in ('ffuncs', 'xfuncs') and not fi17.opaque:
            c17.analyse_root(prog, fi17, kind17, sub17, st17)
            k17 += 1
    for o in sub17.obls:
        if o.rule == "R-C17-a":
            rep.add("R-C03-m", o.where, "[%s] %s" % (o.rule, o.construct), o.status, o.detail, True, o.witness)
    rep.floor("R-C03-m", 5, k17)
    # R-C03-t: the index cube never visits the cells at a dimension's common category - it reconstructs them as
    # margin - sum(uncommon), for every region alike (counts AND signed sums); the array cube and a group-by compute them
    # directly.  The shape of that reconstruction is C02's rule R-C02-e.
    import c02
    sub2 = core.Report("C02", level="other", rules=c02.RULES, tier=tier)
    c02.rule_e(prog, sub2)
    for o in sub2.obls:
        rep.add("R-C03-t", o.where, "[%s] %s" % (o.rule, o.construct), o.status, o.detail, True,
                o.witness if o.status != "VIOLATED" else dict(o.witness or {}, history="ccube.sum over facts with negative values vs xcube.sum: the cell at the common category differs"))
    rep.floor("R-C03-t", 3, len(sub2.obls))
    CE = AT.Collector()
    ne = AT.rule_every_cell_written(prog, CE, "R-C03-v")
    for rule, status, where, cons, detail, wit in CE.items:
        rep.add(rule, where, cons, status, detail, True, wit)
    rep.floor("R-C03-v", 20, ne)
    # R-C03-u: the index cube's visited cells are laid down by the walk: every non-empty uncommon and marginal combination
    # exactly once, for every cube (C14's schema analysis, as in R-C02-f / R-C05-h) - the array cube and a group-by
    # have no such step to get wrong
    import c14
    sub14 = core.Report("C14", level="other", rules=c14.RULES, tier=tier)
    c14.analyse(prog, sub14)
    c14.walk_rules(prog, sub14)
    for o in sub14.obls:
        rep.add("R-C03-u", o.where, "[%s] %s" % (o.rule, o.construct), o.status, o.detail, True,
                o.witness if o.status != "VIOLATED" else dict(o.witness or {}, history="ccube.count vs xcube.count on the same data: cells the walk does not present come out missing / are charged to the common cell"))
    rep.floor("R-C03-u", 30, len(sub14.obls))
    return rep.finish()


if __name__ == "__main__":
    core.run_main("C03", main)
