#!/venv/bin/python
"""C19 - chosen integer dtypes are always wide enough, and no wider than needed.

Static decision: `fit_dtype` inspects its arguments only through comparisons with
constants, so its AST is a finite decision tree.  The tree is extracted (engine P,
specialised: path enumeration with DNF of the tests, variable-to-variable
assignments as substitutions), every leaf gets a BOX over the inputs
(maxval, minval) and a dtype, and interval arithmetic on unbounded Python ints
proves containment / signedness / minimality / coverage against the table of NumPy
integer ranges.  No value is enumerated and catii is never imported.
"""
import ast
import os
import sys

sys.path.insert(0, os.path.dirname(os.path.dirname(os.path.abspath(__file__))))
from sa import core
from sa.pyfront import Program, norm_src

INF = 1 << 400

RANGES = {
    "int8": (-(2 ** 7), 2 ** 7 - 1),
    "int16": (-(2 ** 15), 2 ** 15 - 1),
    "int32": (-(2 ** 31), 2 ** 31 - 1),
    "int64": (-(2 ** 63), 2 ** 63 - 1),
    "uint8": (0, 2 ** 8 - 1),
    "uint16": (0, 2 ** 16 - 1),
    "uint32": (0, 2 ** 32 - 1),
    "uint64": (0, 2 ** 64 - 1),
}
SIGNED = ["int8", "int16", "int32", "int64"]
UNSIGNED = ["uint8", "uint16", "uint32", "uint64"]
ALIASES = {"intc": "int32", "uintc": "uint32", "byte": "int8", "ubyte": "uint8", "short": "int16",
           "ushort": "uint16", "longlong": "int64", "ulonglong": "uint64", "int_": "int64", "uint": "uint64"}


class Undecided(Exception):
    pass


def dtype_name(e):
    """numpy.int8 / numpy.dtype(numpy.int8) / numpy.dtype('int8') / 'int8' -> 'int8'."""
    if isinstance(e, ast.Attribute) and isinstance(e.value, ast.Name) and e.value.id in ("numpy", "np"):
        n = ALIASES.get(e.attr, e.attr)
        if n in RANGES:
            return n
    if isinstance(e, ast.Constant) and isinstance(e.value, str):
        n = e.value.lstrip("<=|")
        codes = {"i1": "int8", "i2": "int16", "i4": "int32", "i8": "int64", "u1": "uint8", "u2": "uint16", "u4": "uint32", "u8": "uint64"}
        n = codes.get(n, n)
        if n in RANGES:
            return n
    if isinstance(e, ast.Call) and isinstance(e.func, ast.Attribute) and e.func.attr == "dtype" and len(e.args) == 1:
        return dtype_name(e.args[0])
    return None


def fold(e):
    """Constant-fold an integer expression (literals, + - * ** << unary -, numpy.iinfo(T).max/min)."""
    if isinstance(e, ast.Constant) and isinstance(e.value, int) and not isinstance(e.value, bool):
        return e.value
    if isinstance(e, ast.UnaryOp) and isinstance(e.op, (ast.USub, ast.UAdd)):
        v = fold(e.operand)
        return None if v is None else (-v if isinstance(e.op, ast.USub) else v)
    if isinstance(e, ast.BinOp):
        a, b = fold(e.left), fold(e.right)
        if a is None or b is None:
            return None
        if isinstance(e.op, ast.Add):
            return a + b
        if isinstance(e.op, ast.Sub):
            return a - b
        if isinstance(e.op, ast.Mult):
            return a * b
        if isinstance(e.op, ast.Pow) and 0 <= b <= 256:
            return a ** b
        if isinstance(e.op, ast.LShift) and 0 <= b <= 256:
            return a << b
        if isinstance(e.op, ast.FloorDiv) and b:
            return a // b
        return None
    if isinstance(e, ast.Attribute) and e.attr in ("max", "min") and isinstance(e.value, ast.Call):
        c = e.value
        if isinstance(c.func, ast.Attribute) and c.func.attr == "iinfo" and len(c.args) == 1:
            n = dtype_name(c.args[0])
            if n:
                return RANGES[n][1] if e.attr == "max" else RANGES[n][0]
    return None


class Box:
    """Product of integer intervals over the input variables M (maxval) and m (minval)."""

    def __init__(self, M=(-INF, INF), m=(-INF, INF)):
        self.iv = {"M": M, "m": m}

    def copy(self):
        return Box(self.iv["M"], self.iv["m"])

    def meet(self, var, lo, hi):
        b = self.copy()
        a, c = b.iv[var]
        b.iv[var] = (max(a, lo), min(c, hi))
        return b

    def empty(self):
        return any(lo > hi for lo, hi in self.iv.values())

    def __repr__(self):
        def f(x):
            return "-inf" if x <= -INF else "+inf" if x >= INF else ("2^%d" % (x.bit_length() - 1) if x > 0 and x & (x - 1) == 0 and x > 4 else str(x))

        return "M in [%s, %s], m in [%s, %s]" % (f(self.iv["M"][0]), f(self.iv["M"][1]), f(self.iv["m"][0]), f(self.iv["m"][1]))


def atom_cases(op, var, k):
    """(true cases, false cases); each case is (lo, hi) for var."""
    lt = (-INF, k - 1)
    le = (-INF, k)
    gt = (k + 1, INF)
    ge = (k, INF)
    eq = (k, k)
    table = {
        "<": ([lt], [ge]),
        "<=": ([le], [gt]),
        ">": ([gt], [le]),
        ">=": ([ge], [lt]),
        "==": ([eq], [lt, gt]),
        "!=": ([lt, gt], [eq]),
    }
    return table[op]


FLIP = {"<": ">", "<=": ">=", ">": "<", ">=": "<=", "==": "==", "!=": "!="}
OPS = {ast.Lt: "<", ast.LtE: "<=", ast.Gt: ">", ast.GtE: ">=", ast.Eq: "==", ast.NotEq: "!="}


def parse_expr(e, subst):
    """An integer expression over the inputs: 'M' | 'm' | ('neg', x) | ('add', x, c) | ('max'|'min', [x...]); None if not in the subset."""
    if isinstance(e, ast.Name) and e.id in subst:
        return subst[e.id]
    if isinstance(e, ast.UnaryOp) and isinstance(e.op, ast.USub):
        x = parse_expr(e.operand, subst)
        return None if x is None else ("neg", x)
    if isinstance(e, ast.UnaryOp) and isinstance(e.op, ast.UAdd):
        return parse_expr(e.operand, subst)
    if isinstance(e, ast.BinOp) and isinstance(e.op, (ast.Add, ast.Sub)):
        l, r = parse_expr(e.left, subst), fold(e.right)
        if l is not None and r is not None:
            return ("add", l, r if isinstance(e.op, ast.Add) else -r)
        l2, r2 = fold(e.left), parse_expr(e.right, subst)
        if l2 is not None and r2 is not None:
            return ("add", r2 if isinstance(e.op, ast.Add) else ("neg", r2), l2)
        return None
    if isinstance(e, ast.Call) and isinstance(e.func, ast.Name) and not e.keywords:
        if e.func.id in ("max", "min") and len(e.args) >= 2:
            xs = [parse_expr(a, subst) for a in e.args]
            if all(x is not None for x in xs):
                return (e.func.id, xs)
            ks = [fold(a) for a in e.args]
            # a constant operand: max(x, 0)
            xs2 = [x if x is not None else (("const", k) if k is not None else None) for x, k in zip(xs, ks)]
            if all(x is not None for x in xs2):
                return (e.func.id, xs2)
        if e.func.id == "abs" and len(e.args) == 1:
            x = parse_expr(e.args[0], subst)
            return None if x is None else ("max", [x, ("neg", x)])
        if e.func.id == "int" and len(e.args) == 1:
            return parse_expr(e.args[0], subst)
    return None


def _and(A, B):
    return [a + b for a in A for b in B]


def expr_cases(o, e, k):
    """(true dnf, false dnf) of `e o k` for an expression of parse_expr."""
    if isinstance(e, str):
        tc, fc = atom_cases(o, e, k)
        return [[(e,) + c] for c in tc], [[(e,) + c] for c in fc]
    tag = e[0]
    if tag == "const":
        val = {"<": e[1] < k, "<=": e[1] <= k, ">": e[1] > k, ">=": e[1] >= k, "==": e[1] == k, "!=": e[1] != k}[o]
        return ([[]], []) if val else ([], [[]])
    if tag == "neg":
        return expr_cases(FLIP[o], e[1], -k)
    if tag == "add":
        return expr_cases(o, e[1], k - e[2])
    if tag in ("max", "min"):
        if o in ("==", "!="):
            t1, f1 = expr_cases("<=", e, k)
            t2, f2 = expr_cases(">=", e, k)
            t, f = _and(t1, t2), f1 + f2
            return (t, f) if o == "==" else (f, t)
        # max(xs) > k  <=>  some x > k ;  max(xs) < k  <=>  every x < k   (dually for min)
        some = (tag == "max") == (o in (">", ">="))
        parts = [expr_cases(o, x, k) for x in e[1]]
        if some:
            t = []
            prefix = [[]]
            for pt, pf in parts:
                t += _and(prefix, pt)
                prefix = _and(prefix, pf)
            return t, prefix
        f = []
        prefix = [[]]
        for pt, pf in parts:
            f += _and(prefix, pf)
            prefix = _and(prefix, pt)
        return prefix, f
    raise Undecided("expression form %r" % (tag,))


def cond_dnf(test, subst):
    """-> (true_dnf, false_dnf); a dnf is a list of conjunctions; a conjunction is a list of
    (var, lo, hi)."""
    if isinstance(test, ast.BoolOp):
        parts = [cond_dnf(v, subst) for v in test.values]
        if isinstance(test.op, ast.And):
            t = [[]]
            for pt, _ in parts:
                t = [a + b for a in t for b in pt]
            f = []
            prefix = [[]]
            for pt, pf in parts:
                f += [a + b for a in prefix for b in pf]
                prefix = [a + b for a in prefix for b in pt]
            return t, f
        else:
            f = [[]]
            for _, pf in parts:
                f = [a + b for a in f for b in pf]
            t = []
            prefix = [[]]
            for pt, pf in parts:
                t += [a + b for a in prefix for b in pt]
                prefix = [a + b for a in prefix for b in pf]
            return t, f
    if isinstance(test, ast.UnaryOp) and isinstance(test.op, ast.Not):
        t, f = cond_dnf(test.operand, subst)
        return f, t
    if isinstance(test, ast.Compare):
        left = test.left
        conj_t = [[]]
        alts_f = []
        prefix = [[]]
        for op, right in zip(test.ops, test.comparators):
            if type(op) not in OPS:
                raise Undecided("comparison operator %s" % type(op).__name__)
            o = OPS[type(op)]
            le, re_ = parse_expr(left, subst), parse_expr(right, subst)
            if le is not None and fold(right) is not None:
                ex, k = le, fold(right)
            elif re_ is not None and fold(left) is not None:
                ex, k, o = re_, fold(left), FLIP[o]
            else:
                raise Undecided("comparison is not <expression over the inputs> <op> <constant>: %s" % norm_src(test))
            tdnf, fdnf = expr_cases(o, ex, k)
            alts_f += _and(prefix, fdnf)
            prefix = _and(prefix, tdnf)
            left = right
        return prefix, alts_f
    raise Undecided("test shape %s" % type(test).__name__)


# ------------------------------------------------------------------ constants: table-driven ladders
# A ladder may be written as a loop over a constant table (`for itemsize in (1, 2, 4, 8)`, module-level tuples of
# (threshold, dtype) rungs) with thresholds computed from the loop variable (2 ** (8 * itemsize), numpy.iinfo(...)).
# Such a loop is UNROLLED here: the table is evaluated as a constant (literals, arithmetic, tuples, comprehensions over
# constant tuples, "%s%d" % (...), numpy.iinfo(T).min/max, numpy.dtype(T)), never by running catii.
class _NC:
    """not a constant"""


NOTCONST = _NC()


class DT(str):
    """a dtype constant, by canonical name ('uint16')"""


class IINFO:
    def __init__(self, name):
        self.name = name


def _dt_of(v):
    if isinstance(v, DT):
        return v
    if isinstance(v, str):
        n = dtype_name(ast.Constant(v))
        return DT(n) if n else None
    return None


def ceval(e, cenv, modc, depth=0):
    """Value of a constant expression, or NOTCONST."""
    if depth > 40:
        return NOTCONST
    ev = lambda x: ceval(x, cenv, modc, depth + 1)
    if isinstance(e, ast.Constant):
        return e.value if isinstance(e.value, (int, str)) and not isinstance(e.value, bool) else NOTCONST
    if isinstance(e, ast.Name):
        if e.id in cenv:
            return cenv[e.id]
        if e.id in modc:
            v = modc[e.id]
            if isinstance(v, ast.AST):
                modc[e.id] = NOTCONST  # cycle guard
                v = ceval(v, {}, modc, depth + 1)
                modc[e.id] = v
            return v
        return NOTCONST
    if isinstance(e, (ast.Tuple, ast.List)):
        vs = [ev(x) for x in e.elts]
        return NOTCONST if any(v is NOTCONST for v in vs) else tuple(vs)
    if isinstance(e, ast.UnaryOp) and isinstance(e.op, (ast.USub, ast.UAdd)):
        v = ev(e.operand)
        return NOTCONST if not isinstance(v, int) else (-v if isinstance(e.op, ast.USub) else v)
    if isinstance(e, ast.BinOp):
        a, b = ev(e.left), ev(e.right)
        if a is NOTCONST or b is NOTCONST:
            return NOTCONST
        try:
            if isinstance(e.op, ast.Mod) and isinstance(a, str):
                return a % b
            if isinstance(e.op, ast.Add) and isinstance(a, (str, tuple)) and type(a) is type(b):
                return a + b
            if not (isinstance(a, int) and isinstance(b, int)):
                return NOTCONST
            if isinstance(e.op, ast.Add):
                return a + b
            if isinstance(e.op, ast.Sub):
                return a - b
            if isinstance(e.op, ast.Mult):
                return a * b
            if isinstance(e.op, ast.Pow) and 0 <= b <= 256:
                return a ** b
            if isinstance(e.op, ast.LShift) and 0 <= b <= 256:
                return a << b
            if isinstance(e.op, ast.FloorDiv) and b:
                return a // b
            if isinstance(e.op, ast.Mod) and b:
                return a % b
        except Exception:
            return NOTCONST
        return NOTCONST
    if isinstance(e, ast.Attribute):
        if isinstance(e.value, ast.Name) and e.value.id in ("numpy", "np"):
            n = ALIASES.get(e.attr, e.attr)
            return DT(n) if n in RANGES else NOTCONST
        v = ev(e.value)
        if isinstance(v, IINFO) and e.attr in ("min", "max"):
            return RANGES[v.name][0 if e.attr == "min" else 1]
        if isinstance(v, DT) and e.attr == "itemsize":
            return {"8": 1, "16": 2, "32": 4, "64": 8}[v.lstrip("uint")]
        return NOTCONST
    if isinstance(e, ast.Subscript):
        v, i = ev(e.value), ev(e.slice)
        if isinstance(v, (tuple, str)) and isinstance(i, int) and -len(v) <= i < len(v):
            return v[i]
        return NOTCONST
    if isinstance(e, ast.Call) and not e.keywords:
        f = e.func
        if isinstance(f, ast.Attribute) and isinstance(f.value, ast.Name) and f.value.id in ("numpy", "np") and len(e.args) == 1:
            a = ev(e.args[0])
            d = _dt_of(a)
            if f.attr == "dtype" and d is not None:
                return d
            if f.attr == "iinfo" and d is not None:
                return IINFO(d)
            return NOTCONST
        if isinstance(f, ast.Name) and f.id in ("tuple", "list") and len(e.args) == 1:
            return ev(e.args[0])
        if isinstance(f, ast.Name) and f.id in ("reversed", "sorted") and len(e.args) == 1:
            v = ev(e.args[0])
            if isinstance(v, tuple) and (f.id == "reversed" or all(isinstance(x, int) for x in v)):
                return tuple(reversed(v)) if f.id == "reversed" else tuple(sorted(v))
            return NOTCONST
        if isinstance(f, ast.Name) and f.id == "range" and 1 <= len(e.args) <= 3:
            vs = [ev(a) for a in e.args]
            if all(isinstance(v, int) for v in vs) and len(range(*vs)) <= 64:
                return tuple(range(*vs))
            return NOTCONST
        if isinstance(f, ast.Name) and f.id in ("int", "str") and len(e.args) == 1:
            v = ev(e.args[0])
            return v if isinstance(v, int if f.id == "int" else str) else NOTCONST
        return NOTCONST
    if isinstance(e, (ast.GeneratorExp, ast.ListComp)) and len(e.generators) == 1 and not e.generators[0].ifs:
        g = e.generators[0]
        it = ev(g.iter)
        if not isinstance(it, tuple):
            return NOTCONST
        out = []
        for item in it:
            env2 = dict(cenv)
            if not _bind_const(g.target, item, env2):
                return NOTCONST
            v = ceval(e.elt, env2, modc, depth + 1)
            if v is NOTCONST:
                return NOTCONST
            out.append(v)
        return tuple(out)
    if isinstance(e, ast.IfExp):
        t = ev(e.test)
        if isinstance(t, int):
            return ev(e.body if t else e.orelse)
    return NOTCONST


def _bind_const(target, value, env):
    if isinstance(target, ast.Name):
        env[target.id] = value
        return True
    if isinstance(target, (ast.Tuple, ast.List)) and isinstance(value, tuple) and len(value) == len(target.elts):
        return all(_bind_const(t, v, env) for t, v in zip(target.elts, value))
    return False


def _const_node(v):
    if isinstance(v, DT):
        return ast.Attribute(value=ast.Name(id="numpy", ctx=ast.Load()), attr=str(v), ctx=ast.Load())
    if isinstance(v, (int, str)) and not isinstance(v, bool):
        return ast.Constant(v)
    return None


class _Subst(ast.NodeTransformer):
    """Replace every constant sub-expression (under the constant environment) by its value."""

    def __init__(self, cenv, modc, keep):
        self.cenv, self.modc, self.keep = cenv, modc, keep

    def generic_visit(self, node):
        if isinstance(node, ast.expr) and not isinstance(node, ast.Constant):
            if not (isinstance(node, ast.Name) and node.id in self.keep):
                v = ceval(node, self.cenv, self.modc)
                if v is not NOTCONST:
                    n = _const_node(v)
                    if n is not None:
                        return ast.copy_location(n, node)
        return super().generic_visit(node)

    visit_Name = generic_visit
    visit_Attribute = generic_visit
    visit_Call = generic_visit
    visit_BinOp = generic_visit
    visit_Subscript = generic_visit


def csubst(node, cenv, modc, keep=()):
    import copy

    return ast.fix_missing_locations(_Subst(cenv, modc, set(keep)).visit(copy.deepcopy(node)))


class _Iter:
    def __init__(self, node, items, i):
        self.node, self.items, self.i = node, items, i


class _End:
    def __init__(self, node):
        self.node = node


class Leaf:
    def __init__(self, box, subst, dtype, trace, node):
        self.box = box
        self.subst = subst  # program variable -> input variable
        self.dtype = dtype
        self.trace = trace
        self.node = node


def enumerate_paths(fn, module_ast=None):
    """All paths of the ladder. Raises Undecided on anything outside the recognised subset."""
    modc = {}
    if module_ast is not None:
        for st in module_ast.body:
            if isinstance(st, ast.Assign) and len(st.targets) == 1 and isinstance(st.targets[0], ast.Name):
                modc[st.targets[0].id] = st.value
    params = [a.arg for a in fn.args.args]
    if len(params) != 2:
        raise Undecided("fit_dtype no longer takes (maxval, minval)")
    pmax, pmin = params
    leaves = []
    fallthrough = []

    budget = [4000]

    def run(stmts, box, subst, dvars, trace, cenv=None):
        cenv = cenv or {}
        budget[0] -= 1
        if budget[0] < 0:
            raise Undecided("too many paths after unrolling the constant loops")
        if not stmts:
            fallthrough.append((box, trace))
            return
        s, rest = stmts[0], stmts[1:]
        # ---- unrolled constant loops
        if isinstance(s, _End):
            return run(rest, box, subst, dvars, trace, cenv)
        if isinstance(s, _Iter):
            if s.i >= len(s.items):
                return run(rest, box, subst, dvars, trace, cenv)
            env2 = dict(cenv)
            if not _bind_const(s.node.target, s.items[s.i], env2):
                raise Undecided("loop target does not match the table's rows at line %d" % s.node.lineno)
            return run(list(s.node.body) + [_Iter(s.node, s.items, s.i + 1)] + rest, box, subst, dvars, trace, env2)
        if isinstance(s, ast.For):
            items = ceval(s.iter, cenv, modc)
            if not isinstance(items, tuple) or s.orelse or len(items) > 64:
                raise Undecided("loop over something that is not a constant table: %s" % norm_src(s.iter)[:60])
            return run([_Iter(s, items, 0), _End(s)] + rest, box, subst, dvars, trace, cenv)
        if isinstance(s, ast.Break):
            k = 0
            while k < len(rest) and not isinstance(rest[k], _End):
                k += 1
            if k == len(rest):
                raise Undecided("break outside an unrolled loop")
            return run(rest[k + 1:], box, subst, dvars, trace, cenv)
        if isinstance(s, ast.Continue):
            k = 0
            while k < len(rest) and not isinstance(rest[k], _Iter):
                k += 1
            if k == len(rest):
                raise Undecided("continue outside an unrolled loop")
            return run(rest[k:], box, subst, dvars, trace, cenv)
        if cenv or modc:
            # constants (loop variables, table rows, module-level tables) are replaced by their values before the statement is read
            if isinstance(s, ast.If):
                s2 = ast.If(test=csubst(s.test, cenv, modc, keep=subst), body=s.body, orelse=s.orelse)
                s = ast.copy_location(s2, s)
            elif isinstance(s, (ast.Assign, ast.Return)) and s.value is not None:
                s = ast.copy_location(type(s)(**dict(ast.iter_fields(s), value=csubst(s.value, cenv, modc, keep=subst))), s)
        if isinstance(s, ast.Assign) and len(s.targets) == 1 and isinstance(s.targets[0], ast.Tuple) and isinstance(s.value, ast.Tuple) and len(s.targets[0].elts) == len(s.value.elts) \
                and all(isinstance(t, ast.Name) for t in s.targets[0].elts):
            # a, b = x, y with independent right-hand sides: two assignments
            names = {t.id for t in s.targets[0].elts}
            if not any(isinstance(n, ast.Name) and n.id in names for v in s.value.elts for n in ast.walk(v)):
                parts = [ast.copy_location(ast.Assign(targets=[t], value=v), s) for t, v in zip(s.targets[0].elts, s.value.elts)]
                return run(parts + rest, box, subst, dvars, trace, cenv)
        if isinstance(s, ast.Assign) and len(s.targets) == 1 and isinstance(s.targets[0], ast.Name) and isinstance(s.value, ast.IfExp):
            # x = a if c else b  ->  if c: x = a  else: x = b
            mk = lambda v: ast.copy_location(ast.Assign(targets=s.targets, value=v), s)
            return run([ast.copy_location(ast.If(test=s.value.test, body=[mk(s.value.body)], orelse=[mk(s.value.orelse)]), s)] + rest, box, subst, dvars, trace, cenv)
        if isinstance(s, ast.Assign) and len(s.targets) == 1 and isinstance(s.targets[0], ast.Name) and s.targets[0].id not in (pmax, pmin):
            v = ceval(s.value, cenv, modc)
            if v is not NOTCONST and not isinstance(v, DT):
                env2 = dict(cenv)
                env2[s.targets[0].id] = v
                return run(rest, box, subst, dvars, trace, env2)
        if isinstance(s, ast.Expr) and isinstance(s.value, ast.Constant):
            return run(rest, box, subst, dvars, trace, cenv)
        if isinstance(s, ast.Pass):
            return run(rest, box, subst, dvars, trace, cenv)
        if isinstance(s, ast.If):
            t, f = cond_dnf(s.test, subst)
            src = norm_src(s.test)
            for conj in t:
                b = box
                for var, lo, hi in conj:
                    b = b.meet(var, lo, hi)
                if not b.empty():
                    run(list(s.body) + rest, b, subst, dvars, trace + [(src, True)], cenv)
            for conj in f:
                b = box
                for var, lo, hi in conj:
                    b = b.meet(var, lo, hi)
                if not b.empty():
                    run(list(s.orelse) + rest, b, subst, dvars, trace + [(src, False)], cenv)
            return
        if isinstance(s, ast.Assign) and len(s.targets) == 1 and isinstance(s.targets[0], ast.Name):
            name = s.targets[0].id
            if isinstance(s.value, ast.Name) and s.value.id in subst:
                ns = dict(subst)
                ns[name] = subst[s.value.id]
                return run(rest, box, ns, dvars, trace, cenv)
            ex = parse_expr(s.value, subst)
            if ex is not None and name not in (pmax, pmin):
                ns = dict(subst)
                ns[name] = ex
                return run(rest, box, ns, dvars, trace, cenv)
            d = dtype_name(s.value)
            if d is not None:
                nd = dict(dvars)
                nd[name] = d
                if name in subst:
                    raise Undecided("an input variable is rebound to a dtype")
                return run(rest, box, subst, nd, trace, cenv)
            if isinstance(s.value, ast.Name) and s.value.id in dvars:
                nd = dict(dvars)
                nd[name] = dvars[s.value.id]
                return run(rest, box, subst, nd, trace, cenv)
            # name = numpy.dtype(<dtype variable or name>): the wrapped dtype, bound to a result variable
            v = s.value
            if isinstance(v, ast.Call) and isinstance(v.func, ast.Attribute) and v.func.attr == "dtype" and len(v.args) == 1 and not v.keywords:
                a = v.args[0]
                d = dvars.get(a.id) if isinstance(a, ast.Name) else dtype_name(a)
                if d is not None:
                    nd = dict(dvars)
                    nd[name] = d
                    return run(rest, box, subst, nd, trace, cenv)
            raise Undecided("assignment not recognised: %s" % norm_src(s))
        if isinstance(s, ast.Return):
            v = s.value
            d = None
            if isinstance(v, ast.Name) and v.id in dvars:
                d = dvars[v.id]
            elif isinstance(v, ast.Call) and isinstance(v.func, ast.Attribute) and v.func.attr == "dtype" and len(v.args) == 1:
                a = v.args[0]
                d = dvars.get(a.id) if isinstance(a, ast.Name) else dtype_name(a)
            else:
                d = dtype_name(v) if v is not None else None
            if d is None:
                raise Undecided("return value is not a recognised dtype: %s" % norm_src(s))
            leaves.append(Leaf(box, subst, d, trace, s))
            return
        if isinstance(s, ast.Raise):
            leaves.append(Leaf(box, subst, None, trace, s))
            return
        raise Undecided("statement not in the ladder subset: %s" % norm_src(s)[:80])

    run(list(fn.body), Box(), {pmax: "M", pmin: "m"}, {}, [])
    return leaves, fallthrough, (pmax, pmin)


# Domains of the property, as boxes with the side condition m <= M where it applies.
DOMAINS = [
    ("unsigned", Box(M=(0, 2 ** 64 - 1), m=(0, 2 ** 64 - 1)), True),
    ("signed", Box(M=(-(2 ** 63), 2 ** 63 - 1), m=(-(2 ** 63), -1)), True),
    # calling convention: fit_dtype(max) with max < 0 and the default minval=0 means
    # "the values to store are [max, max]"
    ("negative-max-convention", Box(M=(-(2 ** 63), -1), m=(0, 0)), False),
]


def region(box, dom, ordered):
    b = Box((max(box.iv["M"][0], dom.iv["M"][0]), min(box.iv["M"][1], dom.iv["M"][1])),
            (max(box.iv["m"][0], dom.iv["m"][0]), min(box.iv["m"][1], dom.iv["m"][1])))
    if b.empty():
        return None
    if ordered:
        # need some m <= M
        if b.iv["m"][0] > b.iv["M"][1]:
            return None
        # tighten: M >= m_lo, m <= M_hi
        b = Box((max(b.iv["M"][0], b.iv["m"][0]), b.iv["M"][1]), (b.iv["m"][0], min(b.iv["m"][1], b.iv["M"][1])))
        if b.empty():
            return None
    return b


def stored_range(leaf, reg):
    """Interval hull of the effective (minval, maxval) the leaf's dtype must store over reg."""
    emin_var = leaf.subst[leaf.pmin]
    emax_var = leaf.subst[leaf.pmax]
    return reg.iv[emin_var][0], reg.iv[emax_var][1], emin_var, emax_var


def analyse(prog, rep, thorough):
    fi = prog.func("iindexes", "fit_dtype")
    where = fi.fq
    rep.analysed["functions"] = [fi.fq]
    try:
        mod = prog.modules.get(fi.module)
        leaves, fall, (pmax, pmin) = enumerate_paths(fi.node, getattr(mod, "tree", None))
    except Undecided as e:
        rep.undecided("R-C19-tree", where, "decision tree", "ladder not in the recognised subset: %s" % e)
        return
    for l in leaves:
        l.pmax, l.pmin = pmax, pmin
    rep.extra["leaves"] = [
        {"box": repr(l.box), "dtype": l.dtype, "effective_min": l.subst[pmin], "effective_max": l.subst[pmax],
         "path": ["%s is %s" % t for t in l.trace]}
        for l in leaves
    ]
    rep.floor("R-C19-tree", 8, len(leaves))

    # coverage: no path falls off the end or raises inside the domain
    for dname, dom, ordered in DOMAINS:
        bad = []
        for box, trace in fall:
            r = region(box, dom, ordered)
            if r is not None:
                bad.append((r, trace))
        for l in leaves:
            if l.dtype is None:
                r = region(l.box, dom, ordered)
                if r is not None:
                    bad.append((r, l.trace))
        if bad:
            r, trace = bad[0]
            rep.violated("R-C19-coverage", where, "domain %s" % dname,
                         "some path yields no dtype for inputs in %r" % (r,),
                         witness={"maxval": r.iv["M"][0], "minval": r.iv["m"][0], "path": trace})
        else:
            rep.proved("R-C19-coverage", where, "domain %s" % dname,
                       "every path through the ladder that meets the domain ends in a dtype; "
                       "if/else tests are complementary by construction (DNF split)")

    n_regions = 0
    for l in leaves:
        if l.dtype is None:
            continue
        lo_t, hi_t = RANGES[l.dtype]
        for dname, dom, ordered in DOMAINS:
            # the m<=M side condition is meaningful only when the effective min/max are the two inputs
            # what has to be stored is given by the ARGUMENTS (min, max), whatever the code does to its variables;
            # only the documented convention fit_dtype(max < 0) re-reads the pair as [max, max]
            eff_min, eff_max = "m", "M"
            if dname == "negative-max-convention":
                # whatever the code does with its variables, the value to store is maxval itself
                eff_min = eff_max = "M"
            r = region(l.box, dom, ordered and eff_min != eff_max)
            if r is None:
                continue
            n_regions += 1
            cons = "leaf %s on %s [%s]" % (l.dtype, dname, "; ".join("%s=%s" % (a, "T" if b else "F") for a, b in l.trace))
            smin, smax = r.iv[eff_min][0], r.iv[eff_max][1]
            # containment
            if smin >= lo_t and smax <= hi_t:
                rep.proved("R-C19-contain", where, cons, "stored values within [%d, %d] subset of %s range over %r" % (smin, smax, l.dtype, r))
            else:
                if smin < lo_t:
                    w = {eff_min: smin}
                else:
                    w = {eff_max: smax}
                wit = witness_point(r, eff_min, eff_max, w)
                rep.violated("R-C19-contain", where, cons,
                             "%s cannot represent %s" % (l.dtype, "min %d" % smin if smin < lo_t else "max %d" % smax), witness=wit)
            # signedness
            want_unsigned = r.iv[eff_min][0] >= 0
            want_signed = r.iv[eff_min][1] < 0
            if want_unsigned and l.dtype not in UNSIGNED:
                rep.violated("R-C19-sign", where, cons, "nothing is negative but %s is signed" % l.dtype,
                             witness=witness_point(r, eff_min, eff_max, {}))
            elif want_signed and l.dtype not in SIGNED:
                rep.violated("R-C19-sign", where, cons, "a negative value must be stored but %s is unsigned" % l.dtype,
                             witness=witness_point(r, eff_min, eff_max, {}))
            elif not want_signed and not want_unsigned:
                rep.undecided("R-C19-sign", where, cons, "leaf region mixes negative and non-negative minima: %r" % (r,))
            else:
                rep.proved("R-C19-sign", where, cons, "signedness of %s matches the sign of the minimum over %r" % (l.dtype, r))
            # minimality
            family = UNSIGNED if l.dtype in UNSIGNED else SIGNED
            narrower = family[: family.index(l.dtype)]
            bad = None
            for n in narrower:
                lo_n, hi_n = RANGES[n]
                # is there a point of r whose stored range fits n?
                rr = Box(r.iv["M"], r.iv["m"])
                rr = rr.meet(eff_min, lo_n, INF).meet(eff_max, -INF, hi_n)
                if eff_min == eff_max:
                    rr = rr.meet(eff_min, lo_n, hi_n)
                if rr.empty():
                    continue
                if ordered and eff_min != eff_max and rr.iv["m"][0] > rr.iv["M"][1]:
                    continue
                bad = (n, rr)
                break
            if bad:
                n, rr = bad
                mm = rr.iv["m"][0]
                MM = max(rr.iv["M"][0], mm) if (ordered and eff_min != eff_max) else rr.iv["M"][0]
                rep.violated("R-C19-minimal", where, cons, "%s chosen where the narrower %s suffices" % (l.dtype, n),
                             witness={"maxval": MM, "minval": mm})
            else:
                rep.proved("R-C19-minimal", where, cons, "no narrower type of the same signedness fits any point of %r" % (r,),
                           nontrivial=bool(narrower))
    rep.extra["leaf_regions"] = n_regions

    if thorough:
        crosscheck(fi.node, leaves, rep, where, pmax, pmin)


def witness_point(r, eff_min, eff_max, fixed):
    M = fixed.get("M", r.iv["M"][0] if "M" not in fixed else None)
    m = fixed.get("m", r.iv["m"][0])
    if "M" in fixed:
        M = fixed["M"]
    else:
        M = r.iv["M"][1] if eff_max == "M" else r.iv["M"][0]
    if "m" not in fixed:
        m = r.iv["m"][0]
    return {"maxval": M, "minval": m}


def eval_tree(fn, M, m):
    """Evaluate the EXTRACTED ladder (same AST subset) on concrete ints: a cross-check of the
    box reasoning, not an execution of catii."""
    params = [a.arg for a in fn.args.args]
    env = {params[0]: M, params[1]: m}

    def ev(e):
        v = fold(e)
        if v is not None:
            return v
        if isinstance(e, ast.Name):
            return env[e.id]
        if isinstance(e, ast.UnaryOp) and isinstance(e.op, (ast.USub, ast.UAdd)):
            v = ev(e.operand)
            return -v if isinstance(e.op, ast.USub) else v
        if isinstance(e, ast.BinOp) and isinstance(e.op, (ast.Add, ast.Sub)):
            a, b = ev(e.left), ev(e.right)
            return a + b if isinstance(e.op, ast.Add) else a - b
        if isinstance(e, ast.Call) and isinstance(e.func, ast.Name) and e.func.id in ("max", "min", "abs", "int"):
            vals = [ev(a) for a in e.args]
            return {"max": max, "min": min, "abs": lambda x: abs(x), "int": lambda x: x}[e.func.id](*vals) if e.func.id in ("abs", "int") else {"max": max, "min": min}[e.func.id](vals)
        if isinstance(e, ast.BoolOp):
            if isinstance(e.op, ast.And):
                return all(ev(x) for x in e.values)
            return any(ev(x) for x in e.values)
        if isinstance(e, ast.UnaryOp) and isinstance(e.op, ast.Not):
            return not ev(e.operand)
        if isinstance(e, ast.Compare):
            left = ev(e.left)
            for op, r in zip(e.ops, e.comparators):
                right = ev(r)
                o = OPS[type(op)]
                ok = {"<": left < right, "<=": left <= right, ">": left > right, ">=": left >= right, "==": left == right, "!=": left != right}[o]
                if not ok:
                    return False
                left = right
            return True
        d = dtype_name(e)
        if d:
            return ("dtype", d)
        raise Undecided("eval " + norm_src(e))

    def run(stmts):
        for s in stmts:
            if isinstance(s, ast.Expr) or isinstance(s, ast.Pass):
                continue
            if isinstance(s, ast.If):
                r = run(s.body if ev(s.test) else s.orelse)
                if r is not None:
                    return r
            elif isinstance(s, ast.Assign):
                env[s.targets[0].id] = ev(s.value)
            elif isinstance(s, ast.Return):
                v = s.value
                if isinstance(v, ast.Call) and v.args and isinstance(v.args[0], ast.Name):
                    return env[v.args[0].id]
                return ev(v)
            elif isinstance(s, ast.Raise):
                return ("raise",)
        return None

    r = run(fn.body)
    return r[1] if r and r[0] == "dtype" else None


def narrowest(lo, hi):
    fam = UNSIGNED if lo >= 0 else SIGNED
    for n in fam:
        a, b = RANGES[n]
        if a <= lo and hi <= b:
            return n
    return None


def crosscheck(fn, leaves, rep, where, pmax, pmin):
    pts = {0, 1, -1}
    for k in range(0, 65):
        for d in (-1, 0, 1):
            pts.add(2 ** k + d)
            pts.add(-(2 ** k) + d)
    pts = sorted(pts)
    n = bad = 0
    for M in pts:
        for m in pts:
            if m > M and not (m == 0 and M < 0):
                continue
            if m == 0 and M < 0:
                lo = hi = M
            else:
                lo, hi = m, M
            want = narrowest(lo, hi)
            if want is None:
                continue
            n += 1
            got = eval_tree(fn, M, m)
            if got != want:
                bad += 1
                if bad <= 3:
                    rep.violated("R-C19-grid", where, "cell maxval=%d minval=%d" % (M, m),
                                 "extracted ladder gives %s, narrowest adequate type is %s" % (got, want),
                                 witness={"maxval": M, "minval": m})
    if not bad:
        rep.proved("R-C19-grid", where, "power-of-two boundary grid",
                   "extracted ladder evaluated on %d boundary cells (+-2^k, +-2^k+-1, k<=64) agrees with the narrowest-type oracle" % n)
    rep.extra["grid_cells"] = n


RULES = {
    "R-C19-asis": "the dtype fit_dtype answers is the dtype of the dense output: it is not widened afterwards by numpy.promote_types / result_type (signed with unsigned of equal width doubles the width)",
    "R-C19-stored": "every key of an index has rows (no library operation stores an empty entry: imported from C07 rule b): the dtypes are fitted on the keys, so a key without rows makes the result wider than the values actually stored",
    "R-C19-fresh": "to_array / collapsed / fit_dtype keep no state: the dtype is fitted to the current content at every call (frame analysis shared with C17)",
    "R-C19-callers": "the callers named by the property hand fit_dtype bounds that cover every value they store: dense output (to_array) and collapsed pass a minimum for category values, collapsed sizes its output from all codes it can write, and the INDX writer sizes the coordinate word from max(coordinates, common) (imported from the C01/C06/C10 analyses)",
    "R-C19-tree": "fit_dtype is a ladder of comparisons with constants (decision tree extracted from the AST)",
    "R-C19-coverage": "every input in the domain reaches a dtype",
    "R-C19-contain": "leaf box (stored min/max) is inside the leaf dtype's range",
    "R-C19-sign": "unsigned iff nothing negative",
    "R-C19-minimal": "leaf box meets no narrower dtype of the same signedness",
    "R-C19-grid": "(thorough) extracted ladder agrees with a narrowest-type oracle on all power-of-two boundary cells",
}


def main(tier):
    rep = core.Report("C19", level="proof", rules=RULES, tier=tier,
                      declined="callers passing the right (max, min) are separate obligations under C01/C06/C10")
    rep.trusted_base = ["CPython ast", "table of NumPy integer ranges (int8..int64, uint8..uint64)", "interval arithmetic on Python ints"]
    rep.assume("domain: 0<=min<=max<2^64 (unsigned) or -2^63<=min<0, min<=max<=2^63-1 (signed), plus the documented convention fit_dtype(max<0) meaning [max,max]")
    prog = Program()
    analyse(prog, rep, tier == "thorough")
    # callers (anchors of the property): imported obligations
    import c06
    from sa import indx
    nc = c06.fit_dtype_sites(prog, ["iindex.to_array", "iindex.collapsed"], rep, "R-C19-callers", lambda q: {"inputs": "category values that include a negative code"})
    c06.rule_l(prog, rep, RID="R-C19-callers")
    C, info, W, R = indx.analyse(prog)
    for rule, status, where, construct, detail, witness in C.items:
        if rule in ("R-C10-e", "R-C11-d"):
            nc += 1
            rep.add("R-C19-callers", where, "[%s] %s" % (rule, construct), status, detail, True, witness)
    rep.floor("R-C19-callers", 6, nc)
    # R-C19-fresh: the dtype is fitted to the index's CURRENT content on every call: the dense-output routines remember
    # nothing on the index (a dtype memoised on the object outlives an in-place update that adds a wider or a negative id)
    import c17
    st17 = {"events": 0, "mods": 0, "diagnostic": {}, "exceptions": {}, "regions": 0, "shortcuts": 0}
    k17 = 0
    ii = prog.cls("iindexes", "iindex")
    for nm in ("to_array", "collapsed"):
        f17 = ii.methods.get(nm)
        if f17 is not None:
            c17.analyse_root(prog, f17, "pure", rep, st17, RA="R-C19-fresh", RB="R-C19-fresh", extra=False)
            k17 += 1
    c17.analyse_root(prog, prog.func("iindexes", "fit_dtype"), "pure", rep, st17, RA="R-C19-fresh", RB="R-C19-fresh", extra=False)
    rep.floor("R-C19-fresh", 3, k17 + 1)
    # R-C19-asis: "and no wider": the dtype fit_dtype answers is the dtype of the output - it is not passed through NumPy's
    # promotion afterwards (promote_types(int8, uint8) is int16: signed with unsigned of the same width doubles the width)
    import ast as _ast
    PROMO = ("promote_types", "result_type", "find_common_type", "common_type")
    for nm in ("to_array", "collapsed"):
        f19 = ii.methods.get(nm)
        if f19 is None:
            rep.undecided("R-C19-asis", "iindexes:iindex.%s" % nm, "the fitted dtype is used as it is", "method not found")
            continue
        fitted = set()
        for st in _ast.walk(f19.node):
            if isinstance(st, _ast.Assign) and any(isinstance(c, _ast.Call) and isinstance(c.func, _ast.Name) and c.func.id == "fit_dtype" for c in _ast.walk(st.value)):
                for t in st.targets:
                    fitted.update(n.id for n in _ast.walk(t) if isinstance(n, _ast.Name))
        promos = [c for c in _ast.walk(f19.node) if isinstance(c, _ast.Call) and isinstance(c.func, _ast.Attribute) and c.func.attr in PROMO]
        hit = [c for c in promos if any((isinstance(n, _ast.Call) and isinstance(n.func, _ast.Name) and n.func.id == "fit_dtype") or (isinstance(n, _ast.Name) and n.id in fitted) for a in c.args for n in _ast.walk(a))]
        cons = "%s: the fitted dtype is used as it is (no promotion afterwards)" % nm
        if hit:
            rep.violated("R-C19-asis", "%s@%d" % (f19.fq, hit[0].lineno), cons,
                         "the result of fit_dtype is passed through numpy.%s: promoting a signed type with an unsigned one of the same width (the fill value's own minimal type) yields the next wider signed type - wider than any stored value needs"
                         % hit[0].func.attr, witness={"inputs": "to_array(mapping={1: 1, 2: 2, 3: -1}): int16 instead of int8"})
        elif promos:
            rep.undecided("R-C19-asis", "%s@%d" % (f19.fq, promos[0].lineno), cons, "numpy.%s is used in %s; whether it touches the fitted dtype is not recognised" % (promos[0].func.attr, nm))
        else:
            rep.proved("R-C19-asis", f19.fq, cons, "no promote_types / result_type in %s" % nm)
    # R-C19-stored: "no wider than the values stored" - the dtype is fitted on the KEYS of the index (plus the common
    # value), so a key whose row list is empty (a category that occurs nowhere) widens the result: no library operation
    # stores an empty entry (R-C07-b of the C07 analysis)
    import c07
    sub7 = core.Report("C07", level="other", rules=c07.RULES, tier=tier)
    st7 = {"sites": 0}
    for fi7 in [f for n7, f in ii.methods.items() if n7 not in ("__init__",) and not (n7.startswith("_") and not n7.startswith("__"))] + [prog.func("iindexes", "column_stack")]:
        c07.analyse_root(prog, fi7, sub7, st7)
    k7 = 0
    for o in sub7.obls:
        if o.rule == "R-C07-b":
            k7 += 1
            rep.add("R-C19-stored", o.where, "[%s] %s" % (o.rule, o.construct), o.status, o.detail, True,
                    o.witness if o.status != "VIOLATED" else {"inputs": "codes 3..200 with a caller-supplied counts table that lists the unused code -1 (count 0): to_array() returns int16 although uint8 holds every stored value"})
    rep.floor("R-C19-stored", 10, k7)
    return rep.finish()


if __name__ == "__main__":
    core.run_main("C19", main)
