#!/venv/bin/python
"""C01 - array -> inverted index -> array is lossless.

NARROW CLAIM. Declined: element-for-element equality of the round trip for all arrays
(a statement about values; needs execution).  Decided: four necessary conditions, each of
which has a violating input whenever the rule fires -
  R-C01-a  dtype adequacy: fit_dtype is given a minimum whenever its argument is a category
           value (C19 shows fit_dtype(max) alone yields an unsigned type);
  R-C01-b  merge discipline: inside a loop, a plain-dict store whose key contains a MAPPED
           component (image of a caller mapping, possibly many-to-one) accumulates instead of
           overwriting ("matching rowids will be merged", says the docstring);
  R-C01-c  a caller-chosen common value that need not be among the data is never used as a
           plain subscript into a dict keyed by the data;
  R-C01-d  the two construction strategies (numpy.where per value / one row scan) agree on
           what they skip and how they key.
"""
import os
import sys

sys.path.insert(0, os.path.dirname(os.path.dirname(os.path.abspath(__file__))))
import c06
from sa import core, hints, terms as tm
from sa.terms import T
from sa.pyfront import Program
from sa.symex import Interp, flat_guards

RULES = {
    "R-C01-l": "correct caller-supplied counts are accepted for every input shape: no exception of from_array compares the counts with the number of rows (counts describe cells)",
    "R-C01-k": "the union kernel that merges the row sets of input values mapped to one category is a correct sorted-set union (imported from the C08 decision-table analysis: branches, no-overlap shortcuts, tail copies, returned prefix)",
    "R-C01-j": "from_array never divides by the share of uncommon rows while that share can be zero (every row at the common value, e.g. all values mapped onto it): the strategy choice is guarded against it",
    "R-C01-i": "the value mapping is applied exactly when one is given: with a mapping, the key of every construction store, the caller's explicit common value and the counts that elect the common value all go through it (counts by accumulation); without one, none does; to_array sizes its dtype from the entries' VALUES (coords[0])",
    "R-C01-h": "from_array and to_array leave the array, the counts mapping and the value mapping passed to them unchanged (imported from the C17 frame analysis): a second construction from the same caller-supplied counts then sees what the caller built",
    "R-C01-g": "from_array builds its result in one place: no early return of a ready-made index (an entry-less index returned because the data has a single distinct value is wrong whenever the caller-chosen common value is another one)",
    "R-C01-f": "the dtype ladder that to_array relies on (fit_dtype) contains [min, max] in every leaf - imported from the C19 analysis",
    "R-C01-a": "fit_dtype receives a minimum whenever its argument is a category value that may be negative (to_array, both branches)",
    "R-C01-b": "a store keyed by a mapped value accumulates (membership/get test with a merging sibling branch, or defaultdict(list).append)",
    "R-C01-c": "a caller-chosen common value is not used as a subscript load into a data-keyed plain dict",
    "R-C01-e": "to_array: the output has the index's shape and is pre-filled with the (mapped) common value; every entry writes its (mapped) first coordinate at (its rows[, its own column]); the filled array is what is returned",
    "R-C01-d": "both construction branches skip exactly `mapped value == common`, key by (mapped value[, column]) and store row positions of the same column",
}


def c06_alts_cond(t, conds=None):
    conds = conds or []
    if t.op == "ifexp":
        c, a, b = t.args
        return c06_alts_cond(a, conds + [(c, True)]) + c06_alts_cond(b, conds + [(c, False)])
    if t.op == "phi":
        out = []
        for a in t.args:
            out += c06_alts_cond(a, conds)
        return out
    return [(t, conds)]


def run_from_array(prog):
    fi = prog.func("iindexes", "iindex.from_array")
    I = Interp(prog, hints.param_types_for("iindexes"), hints.FIELD_TYPES, inline=False)
    fr = I.run(fi)
    return fi, I, fr


def is_mapped(t):
    m = tm.param("mapping")
    return tm.contains(t, lambda x: (x.op == "sub" and m in tm.alts(x.args[0])) or (x.op == "call" and tm.callee_name(x) == ".get" and m in tm.alts(x.args[0].args[0])))


def rule_b(prog, rep):
    n = 0
    for qual in ("iindex.from_array", "iindex.reindexed", "iindex.collapsed"):
        fi = prog.func("iindexes", qual)
        I = Interp(prog, hints.param_types_for("iindexes"), hints.FIELD_TYPES, inline=False)
        I.run(fi)
        for ev in I.events:
            if ev.kind != "store_sub" or not ev.loops:
                continue
            base, key = ev["base"], ev["index"]
            if not any(b.op == "alloc" and b.args[0] == "dict" for b in tm.alts(base)):
                continue
            if not is_mapped(key):
                continue
            n += 1
            where = "%s@%d" % (fi.fq, ev.line)
            cons = "%s: store keyed by a mapped value" % qual
            # accumulate-style: guarded by `D.get(key) is None` / `key not in D` with a merging sibling
            ok = False
            for c, pol in flat_guards(ev.guards):
                if c.op == "cmp" and c.args[0] in ("is", "is not") and tm.NONE in c.args[1:]:
                    x = c.args[1] if c.args[2] == tm.NONE else c.args[2]
                    if x.op == "call" and tm.callee_name(x) == ".get" and x.args[0].args[0] in tm.alts(base) + [base]:
                        absent = pol if c.args[0] == "is" else not pol
                        if absent:
                            # the sibling branch must merge: an append/extend on the fetched value or a store of a union
                            merges = [e for e in I.events if e.kind == "call" and e["method"] in ("append", "extend") and e["recv"] == x]
                            ok = bool(merges)
                if c.op == "cmp" and c.args[0] in ("in", "not in") and c.args[2] in tm.alts(base) + [base]:
                    absent = (not pol) if c.args[0] == "in" else pol
                    if absent:
                        ok = True
            # `m = D.get(key); if m is not None: v = union(m, v); D[key] = v`: the stored value merges the
            # previous one on the path where it exists
            if not ok:
                fetched = [x for x in tm.walk(ev["value"]) if x.op == "call" and tm.callee_name(x) == ".get" and x.args[0].args[0] in tm.alts(base) + [base]
                           and x.args[1] and x.args[1][0] == key]
                for x in fetched:
                    alts = c06_alts_cond(ev["value"])
                    present = [a for a, cs in alts if any(c.op == "cmp" and tm.NONE in c.args[1:] and x in c.args[1:] and ((c.args[0] == "is not" and p) or (c.args[0] == "is" and not p)) for c, p in cs)]
                    if present and all(tm.contains(a, lambda y: y == x) and a.op == "call" for a in present):
                        ok = True
            # re-store of a merged value under a key taken from the same dict
            if key.op == "unpack" and tm.contains(key, lambda x: x in tm.alts(base)):
                ok = True
            rep.check(ok, "R-C01-b", where, cons, "the store happens only when the key is absent; the other branch merges",
                      "the store overwrites: when the mapping sends two input values to the same output, the rows of all but the last are lost",
                      witness={"inputs": "from_array([0, 1, 2, 1], mapping={0: 0, 1: 5, 2: 5}): the rows of value 1 are dropped"})
        # defaultdict(list).append sites count as accumulate-style
        for ev in I.events:
            if ev.kind == "call" and ev["method"] == "append" and ev["recv"] is not None and ev["recv"].op == "sub" and is_mapped(ev["recv"].args[1]) \
                    and any(b.op == "call" and tm.callee_name(b) == "collections.defaultdict" for b in tm.alts(ev["recv"].args[0])):
                n += 1
                rep.proved("R-C01-b", "%s@%d" % (fi.fq, ev.line), "%s: defaultdict(list)[mapped key].append(row)" % qual, "accumulates")
        # a dict COMPREHENSION keyed by a mapped value cannot accumulate: a later pair overwrites an earlier one
        seen = set()
        for ev in I.events:
            for v in list(ev.d.values()) + [c for c, p in ev.guards]:
                if not isinstance(v, T):
                    continue
                for x in tm.walk(v):
                    if x.op == "comp" and x.args[0] == "dict" and x not in seen and x.args[1].op == "tuple" and len(x.args[1].args) == 2 and is_mapped(x.args[1].args[0]):
                        seen.add(x)
                        n += 1
                        rep.violated("R-C01-b", "%s@%d" % (fi.fq, ev.line), "%s: dict comprehension keyed by a mapped value" % qual,
                                     "{mapping[k]: v for ...} keeps only the LAST pair for an output value that several input values map to; the docstring allows many-to-one mappings, which need the values added / merged",
                                     witness={"inputs": "from_array([0,0,0,0,1,1,1,2,2,2], mapping={0: 0, 1: 5, 2: 5}): the count of 5 is 3, not 6, so 0 is chosen as common although 5 is more frequent"})
    rep.floor("R-C01-b", 5, n)


def rule_c(prog, rep):
    fi, I, fr = run_from_array(prog)
    common = tm.param("common")
    seen = set()
    n = 0
    for ev in I.events:
        for v in list(ev.d.values()) + [c for c, p in ev.guards]:
            if not isinstance(v, T):
                continue
            for x in tm.walk(v):
                if x.op == "sub" and x not in seen and tm.contains(x.args[1], lambda y: y == common) and x.args[0] != tm.param("mapping"):
                    seen.add(x)
                    plain = [b for b in tm.alts(x.args[0]) if not (b.op == "call" and tm.callee_name(b) == "collections.defaultdict")]
                    datakeyed = [b for b in plain if b == tm.param("counts") or b.op in ("comp", "call", "alloc")]
                    if not datakeyed:
                        continue
                    n += 1
                    guarded = any(c.op == "cmp" and c.args[0] == "in" and pol and tm.contains(c.args[1], lambda y: y == common) for c, pol in flat_guards(ev.guards))
                    rep.check(guarded, "R-C01-c", "%s@%d" % (fi.fq, ev.line), "subscript load <counts>[common]",
                              "guarded by a membership test", "a plain dict keyed by the values present in the data is subscripted with the caller's common value, which need not be present: KeyError",
                              witness={"inputs": "from_array(numpy.arange(10) % 6, common=9)"})
    if n == 0:
        rep.proved("R-C01-c", fi.fq, "no plain subscript load with the caller's common value", "the count of the common value is obtained with .get / from a defaultdict")


def rule_d(prog, rep):
    fi, I, fr = run_from_array(prog)
    where = fi.fq
    common_t = None
    # stores of the where branch and appends of the scan branch
    def _selects_by_value(x):
        """numpy.where(<a> == <v>) / flatnonzero / nonzero, or (<a> == <v>).nonzero(): the positions where the input equals a value"""
        if x.op != "call" or tm.callee_name(x) not in ("numpy.where", "numpy.flatnonzero", "numpy.nonzero", ".nonzero"):
            return False
        operands = list(x.args[1]) + ([x.args[0].args[0]] if tm.callee_name(x) == ".nonzero" else [])
        return any(tm.contains(a, lambda y: y.op == "cmp" and y.args[0] == "==") for a in operands)

    stores = [e for e in I.events if e.kind == "store_sub" and any(b.op == "alloc" and b.args[0] == "dict" for b in tm.alts(e["base"]))]
    wh = [e for e in stores if tm.contains(e["value"], _selects_by_value)]
    for e in stores:
        if e not in wh and e["index"].op == "tuple" and tm.contains(e["value"], lambda y: y.op == "sub" and y.args[1].op == "slice" and tm.contains(y.args[0], lambda z: z.op == "call" and (tm.callee_name(z) or "") in ("numpy.argsort", ".argsort", "numpy.lexsort"))):
            # consecutive runs of a sort order, delimited by running totals of the per-value counts: right only when the
            # values are visited in ascending order - the order of a caller-supplied `counts` dict is the caller's
            loops = [I.loopinfo[l]["iter"] for l in e.loops if l in I.loopinfo]
            from_caller = any(tm.contains(it, lambda z: z == tm.param("counts")) for it in loops)
            if from_caller:
                rep.violated("R-C01-d", "%s@%d" % (where, e.line), "the rows stored under a value are the positions where the input equals that value",
                             "the rows are the next count(value) elements of ONE argsort of the input, taken in the iteration order of `counts`: a caller-supplied counts dict need not iterate in ascending key order "
                             "(dict(Counter(a)) is first-seen order), and then each value receives another value's rows", witness={"inputs": "from_array(a, counts={2: 3, 0: 5, 1: 2}) with correct but unsorted counts"})
                continue
        if e not in wh and e["index"].op == "tuple":
            rep.undecided("R-C01-d", "%s@%d" % (where, e.line), "the rows stored under a value are the positions where the input equals that value",
                          "entry %s is not filled from a selection numpy.where(<input> == <value>): %s" % (tm.show(e["index"])[:40], tm.show(e["value"])[:60]))
    sc = [e for e in I.events if e.kind == "call" and e["method"] == "append" and e["recv"] is not None and e["recv"].op == "sub"
          and any(b.op == "call" and tm.callee_name(b) == "collections.defaultdict" for b in tm.alts(e["recv"].args[0]))]
    if len(wh) != 2 or len(sc) != 2:
        rep.undecided("R-C01-d", where, "construction branches", "expected 2 numpy.where stores and 2 row-scan appends, found %d and %d" % (len(wh), len(sc)))
        return

    def _key0(ev):
        key = ev["index"] if ev.kind == "store_sub" else ev["recv"].args[1]
        k0 = key.args[0] if key.op == "tuple" else key
        stripped = k0.args[1][0] if (k0.op == "call" and tm.callee_name(k0) == "builtins.int") else k0
        return k0, stripped

    def skip_guard(ev):
        """(value term, common term) of the `value == common: continue` guard dominating ev, whichever way round the
        comparison is written: the value side is the one that is the key's value."""
        k0, stripped = _key0(ev)
        first = None
        for c, pol in flat_guards(ev.guards):
            if c.op == "cmp" and c.args[0] == "==" and not pol:
                a, b = c.args[1], c.args[2]
                if a in (k0, stripped) or stripped in tm.alts(a):
                    return a, b
                if b in (k0, stripped) or stripped in tm.alts(b):
                    return b, a
                first = first or (a, b)
        return first

    for ev in wh + sc:
        key = ev["index"] if ev.kind == "store_sub" else ev["recv"].args[1]
        sg = skip_guard(ev)
        two_d = key.op == "tuple" and len(key.args) == 2
        cons = "%s branch, %s" % ("numpy.where" if ev.kind == "store_sub" else "row scan", "2-D" if two_d else "1-D")
        w = "%s@%d" % (where, ev.line)
        if sg is None:
            rep.violated("R-C01-d", w, cons + ": skips the common value", "no `mapped value == common -> continue` test dominates the store", witness={"inputs": "any array: the common value gets explicit entries"})
            continue
        k0 = key.args[0] if key.op == "tuple" else key
        stripped = k0.args[1][0] if (k0.op == "call" and tm.callee_name(k0) == "builtins.int") else k0
        rep.check(sg[0] in (k0, stripped) or stripped in tm.alts(sg[0]), "R-C01-d", w, cons + ": the value tested against common is the value used in the key", "",
                  "skip test is on %s, key uses %s" % (tm.show(sg[0])[:40], tm.show(k0)[:40]))
        if two_d:
            col = key.args[1]
            colsrc = col.args[0] if col.op == "enumidx" else None
            okT = colsrc is not None and colsrc.op == "attr" and colsrc.args[1] == "T"
            rep.check(col.op == "enumidx" and okT, "R-C01-d", w, cons + ": column index enumerates values.T", "",
                      "column coordinate is %s" % tm.show(col)[:60], witness={"inputs": "a non-square 2-D array: rows and columns are exchanged"})
            # the rows stored come from that same column
            lid = col.args[1] if col.op == "enumidx" else None
            if ev.kind == "store_sub":
                same = tm.contains(ev["value"], lambda x: x.op == "iter" and x.args[1] == lid)
            else:
                a = ev["args"][0]
                same = a.op == "enumidx" and tm.contains(a.args[0], lambda x: x.op == "iter" and x.args[1] == lid)
            rep.check(same, "R-C01-d", w, cons + ": stored row positions are those of the same column", "", "rows are not taken from the column named in the key")
    # both branches skip on the same common term
    commons = {tm.show(skip_guard(e)[1]) for e in wh + sc if skip_guard(e)}
    rep.check(len(commons) == 1, "R-C01-d", where, "both branches compare with the same (mapped) common value", "", "different common terms: %s" % sorted(commons)[:2])


def _key_comp(t, i):
    """Is t the i-th component of an entry key?  key[i] or the i-th name of a tuple-unpacked key."""
    if t.op == "sub" and t.args[0].op == "dkey" and tm.is_const(t.args[1], i):
        return t.args[0]
    if t.op == "unpack" and t.args[0].op == "dkey" and t.args[1] == i:
        return t.args[0]
    return None


def rule_e(prog, rep):
    fi = prog.func("iindexes", "iindex.to_array")
    I = Interp(prog, hints.param_types_for("iindexes"), hints.FIELD_TYPES, inline=False)
    fr = I.run(fi)
    where = fi.fq
    self_t, mapping = tm.param("self"), tm.param("mapping")
    st = [e for e in I.events if e.kind == "store_sub" and not e.stack and e["base"].op == "call" and tm.callee_name(e["base"]) in ("numpy.full", "numpy.empty", "numpy.zeros")]
    if len(st) != 4:
        rep.undecided("R-C01-e", where, "to_array schema", "expected four entry stores (mapped/unmapped x 1-D/2-D), found %d" % len(st))
        return
    bases = set()
    for e in st:
        base = e["base"]
        bases.add(base)
        mapped = any(tm.contains(c, lambda x: x == mapping) and not pol for c, pol in e.guards if c.op == "unop" or True if c.op == "unop" and c.args[0] == "not") or tm.contains(e["value"], lambda x: x == mapping)
        two_d = e["index"].op == "tuple"
        cons = "to_array, %s, %s" % ("with mapping" if mapped else "no mapping", "2-D" if two_d else "1-D")
        w = "%s@%d" % (where, e.line)
        # pre-fill
        okfill = tm.callee_name(base) == "numpy.full" and len(base.args[1]) >= 2 and base.args[1][0] == tm.T("attr", self_t, "shape")
        if okfill:
            fill = base.args[1][1]
            common = tm.T("attr", self_t, "common")
            if mapped:
                okfill = (fill.op == "call" and tm.callee_name(fill) == ".get" and fill.args[0].args[0] == mapping and fill.args[1] and fill.args[1][0] == common) or fill == tm.T("sub", mapping, common)
            else:
                okfill = fill == common
        rep.check(okfill, "R-C01-e", w, cons + ": output = full(self.shape, %scommon)" % ("mapped " if mapped else ""), "", "output is %s" % tm.show(base)[:70],
                  witness={"inputs": "any index: the rows of the common value read something else"})
        # value
        v = e["value"]
        if mapped:
            okv = v.op == "sub" and v.args[0] == mapping and _key_comp(v.args[1], 0) is not None
            dk = _key_comp(v.args[1], 0) if okv else None
        else:
            dk = _key_comp(v, 0)
            okv = dk is not None
        rep.check(okv, "R-C01-e", w, cons + ": value written = %sfirst coordinate of the entry" % ("mapping of the " if mapped else ""), "", "value written is %s" % tm.show(v)[:60],
                  witness={"inputs": "2-D index: the column number is written instead of the category"})
        # index
        idx = e["index"]
        if two_d:
            oki = len(idx.args) == 2 and idx.args[0].op == "dval" and _key_comp(idx.args[1], 1) is not None and dk is not None and idx.args[0].args[:2] == dk.args[:2] and _key_comp(idx.args[1], 1) == dk
        else:
            oki = idx.op == "dval" and dk is not None and idx.args[:2] == dk.args[:2]
        rep.check(oki, "R-C01-e", w, cons + ": written at (the entry's rows%s)" % (", the entry's column" if two_d else ""), "", "written at %s" % tm.show(idx)[:60],
                  witness={"inputs": "a 2-D index with two columns"})
        if dk is not None:
            rep.check(dk.args[0] == self_t, "R-C01-e", w, cons + ": iterates the receiver's entries", "", "iterates %s" % tm.show(dk.args[0])[:40])
    rets = {a for v, g in fr.returns for a in tm.alts(v)}
    rep.check(rets and rets <= bases, "R-C01-e", where, "to_array returns the array it filled", "", "returns %s" % [tm.show(r)[:40] for r in rets - bases][:2])
    # dimensionality test selects the 2-D form exactly when the index has more than one axis
    for e in st:
        two_d = e["index"].op == "tuple"
        g = [(c, pol) for c, pol in flat_guards(e.guards) if c.op == "cmp" and tm.contains(c, lambda x: x.op == "attr" and x.args[1] == "shape")]
        ok = len(g) == 1 and g[0][0].args[0] == ">" and tm.is_const(g[0][0].args[2], 1) and g[0][1] == two_d
        rep.check(ok, "R-C01-e", "%s@%d" % (where, e.line), "the %s store is selected by len(self.shape) > 1 being %s" % ("2-D" if two_d else "1-D", two_d), "", "selected by %s" % [(tm.show(c)[:30], p) for c, p in g])


def rule_g(prog, rep):
    import ast as _ast
    fi, I, fr = run_from_array(prog)
    where = fi.fq
    rets = [e for e in I.events if e.kind == "return" and not e.stack and isinstance(e.node, _ast.Return)]
    if not rets:
        rep.undecided("R-C01-g", where, "returns of from_array", "no return statement found")
        return
    last = max(rets, key=lambda e: e.seq)
    rep.proved("R-C01-g", "%s@%d" % (where, last.line), "from_array returns the index built from the scanned entries", "final return")
    values = tm.param("values")
    for e in rets:
        if e is last:
            continue
        g = flat_guards(e.guards)
        w = "%s@%d" % (where, e.line)
        cons = "from_array: early return %s" % e.src()[:50]
        v = e["value"]
        ctor_args = None
        if v.op == "call" and v.args[1]:
            ctor_args = v.args[1]
        else:
            for ce in I.events:
                if ce.kind == "call" and ce["result"] is not None and ce["result"] == v and ce["args"]:
                    ctor_args = ce["args"]
        empty_entries = bool(ctor_args) and any(a.op == "alloc" and a.args[0] == "dict" and not I.heap.get(a, {}).get("items") for a in tm.alts(ctor_args[0]))
        no_rows = any((c.op == "cmp" and c.args[0] == "==" and pol and tm.is_const(c.args[2], 0) and tm.contains(c.args[1], lambda x: x == values or (x.op == "call" and tm.contains(x, lambda y: y == values))))
                      or (not pol and c.op == "call" and tm.callee_name(c) == "builtins.len" and tm.contains(c, lambda y: y == values)) for c, pol in g)
        def _is_common(x):
            return x == tm.param("common") or (x.op == "loopvar" and x.args[0] == "common") or (x.op in ("phi", "ifexp") and tm.param("common") in tm.alts(x))
        relates_common = any(c.op == "cmp" and c.args[0] in ("in", "not in", "==", "!=") and tm.NONE not in c.args[1:] and tm.contains(c, _is_common) for c, pol in g)
        def _is_rows(x):  # the input itself (or a reshaped / flattened view of it), as opposed to a table of its distinct values
            while x.op == "attr" and x.args[1] in ("flat", "T", "shape"):
                x = x.args[0]
            return x == values or (x.op == "call" and tm.callee_name(x) in ("numpy.asarray", ".ravel", ".flatten", ".reshape") and tm.contains(x, lambda y: y == values) and not tm.contains(x, lambda y: y.op == "call" and (tm.callee_name(y) or "") in ("numpy.bincount", "numpy.unique")))
        few_values = any(c.op == "cmp" and c.args[0] in ("<", "<=", "==") and pol and c.args[1].op == "call" and tm.callee_name(c.args[1]) == "builtins.len"
                         and c.args[1].args[1] and not all(_is_rows(a) for a in tm.alts(c.args[1].args[1][0])) for c, pol in g)
        if no_rows:
            rep.proved("R-C01-g", w, cons, "taken only when the input has no rows")
        elif empty_entries and few_values and not relates_common:
            rep.violated("R-C01-g", w, cons, "an entry-less index is returned because the data has at most one distinct value, without checking that this value IS the common value: with a caller-chosen common value every row is uncommon and is lost",
                         witness={"inputs": "iindex.from_array([7, 7, 7, 7], common=0).to_array() -> [0, 0, 0, 0]"})
        else:
            rep.undecided("R-C01-g", w, cons, "an early return whose index is not the one built from the scan; cannot decide that it holds every uncommon row")


def rule_g_breaks(prog, rep):
    """No scan loop of from_array is left early: every (value, column) pair has to be looked at.  A `break` that claims
    `all occurrences found` rests on a running count; it is VIOLATED when that count is fed by an array that also holds
    the rows of other values (the result of a union with an earlier entry), UNDECIDED otherwise."""
    fi, I, fr = run_from_array(prog)
    where = fi.fq
    brs = [e for e in I.events if e.kind == "break" and not e.stack]
    n = 0
    for e in brs:
        n += 1
        w = "%s@%d" % (where, e.line)
        cons = "from_array: `break` out of a scan loop"
        g = flat_guards(e.guards)
        merged = any(tm.contains(c, lambda x: x.op == "call" and (tm.callee_name(x) or "").split(":")[-1] in ("union", "set_union_merge_np", "numpy.union1d", "union1d", "numpy.concatenate")) for c, pol in g)
        if merged:
            rep.violated("R-C01-g", w, cons, "the loop over the columns stops when a running count is used up, but the count is reduced by the length of a MERGED row list (this value's rows united with an earlier value's): "
                         "with a many-to-one mapping the loop stops too soon and the later columns are never scanned for this value",
                         witness={"inputs": "a 2-D array with two codes mapped onto one value: cells of the later columns come back as the common value"})
        else:
            rep.undecided("R-C01-g", w, cons, "an early exit from a scan loop: cannot show that every occurrence has been seen")
    if not brs:
        rep.proved("R-C01-g", where, "from_array: no scan loop is left early", "no break statement in the construction")


def rule_j(prog, rep):
    """R-C01-j: from_array divides by the share of uncommon rows to choose its construction strategy.  That share is
    (total - count(common)) / size: it is ZERO whenever every row holds the common value - which a many-to-one mapping
    onto the common value produces for any number of distinct input values.  The division must therefore sit behind a
    test that excludes zero (`ratio == 0 or ...`, `ratio and ...`, `if ratio > 0:`), else ZeroDivisionError."""
    fi, I, fr = run_from_array(prog)
    where = fi.fq
    common = tm.param("common")

    def can_be_zero(d):
        """a difference `sum(<counts>) - <counts>.get(common ...)` (possibly scaled by a division / float())"""
        for x in tm.walk(d):
            if x.op == "binop" and x.args[0] == "-":
                l, r = x.args[1], x.args[2]
                if l.op == "call" and tm.callee_name(l) in ("builtins.sum", "numpy.sum") and r.op == "call" and tm.callee_name(r) in (".get", ".__getitem__") and tm.contains(r, lambda y: y == common or (y.op in ("phi", "ifexp", "loopvar") and tm.contains(y, lambda z: z == common))):
                    return True
                if l.op == "call" and tm.callee_name(l) in ("builtins.sum", "numpy.sum") and r.op == "sub" and tm.contains(r.args[1], lambda y: y == common or tm.contains(y, lambda z: z == common)):
                    return True
        return False

    def zero_test(c, den):
        """c decides den == 0 / den != 0 (any spelling); returns the truth value c has when den IS zero, or None"""
        if c == den:
            return False
        if c.op == "not" and c.args[0] == den:
            return True
        if c.op == "cmp" and den in c.args[1:]:
            other = c.args[2] if c.args[1] == den else c.args[1]
            if tm.is_const(other) and other.args[1] in (0, 0.0):
                op = c.args[0] if c.args[1] == den else {"<": ">", ">": "<", "<=": ">=", ">=": "<="}.get(c.args[0], c.args[0])
                return {"==": True, "!=": False, ">": False, "<": False, "<=": True, ">=": True}.get(op)
        return None

    seen = set()
    n = 0
    terms = []
    for e in I.events:
        for c, pol in e.guards:
            terms.append((c, e))
        for v in ([e["value"]] if e.kind in ("store_sub", "return", "store_attr") else []):
            terms.append((v, e))
    for t, e in terms:
        for x in tm.walk(t):
            if x.op == "binop" and x.args[0] in ("/", "//", "%") and can_be_zero(x.args[2]) and x not in seen:
                seen.add(x)
                n += 1
                den = x.args[2]
                w = "%s@%d" % (where, getattr(x, "node", None).lineno if getattr(x, "node", None) is not None else e.line)
                cons = "from_array: the share of uncommon rows is not divided by while it is zero"
                protected = False
                # (a) short-circuit: `den == 0 or <... / den ...>`, `den and <... / den ...>`
                for y in tm.walk(t):
                    if y.op == "bool" and any(tm.contains(a, lambda z: z is x or z == x) for a in y.args[1:]):
                        idx = [i for i, a in enumerate(y.args[1:]) if tm.contains(a, lambda z: z == x)][0]
                        for a in y.args[1:][:idx]:
                            zt = zero_test(a, den)
                            if zt is not None and ((y.args[0] == "or" and zt is True) or (y.args[0] == "and" and zt is False)):
                                protected = True
                # (b) an enclosing guard excludes zero
                for c, pol in flat_guards(e.guards):
                    zt = zero_test(c, den)
                    if zt is not None and zt != pol:
                        protected = True
                # (c) the division was evaluated in one branch of an if whose test excludes zero: the joined value is
                #     ifexp(test, then-value, else-value)
                def under(tt, conds):
                    nonlocal protected
                    if tt == x:
                        for c, pol in conds:
                            zt = zero_test(c, den)
                            if zt is not None and zt != pol:
                                protected = True
                        return
                    if tt.op == "ifexp":
                        under(tt.args[1], conds + [(tt.args[0], True)])
                        under(tt.args[2], conds + [(tt.args[0], False)])
                        return
                    for a in tt.args:
                        if isinstance(a, tm.T):
                            under(a, conds)
                        elif isinstance(a, (tuple, list)):
                            for b in a:
                                if isinstance(b, tm.T):
                                    under(b, conds)
                under(t, [])
                rep.check(protected, "R-C01-j", w, cons, "a test for zero precedes the division",
                          "`%s` is evaluated whenever there are 5 or more distinct input values; its denominator is 0 when every row holds the common value - e.g. a mapping that sends all values to the common one - and the construction raises ZeroDivisionError"
                          % tm.show(x)[:70], witness={"inputs": "iindex.from_array([1, 2, 3, 4, 5, 6], mapping={1: 0, 2: 0, 3: 0, 4: 0, 5: 0, 6: 0}) -> ZeroDivisionError instead of an all-common index"})
    if n == 0:
        rep.proved("R-C01-j", where, "from_array: no division by the share of uncommon rows", "no such division in the construction")


def rule_i(prog, rep):
    fi = prog.func("iindexes", "iindex.from_array")
    where = fi.fq
    mapping, common = tm.param("mapping"), tm.param("common")
    for given in (True, False):
        def oracle(t, given=given):
            if t.op == "cmp" and t.args[0] in ("is", "is not") and mapping in t.args[1:] and tm.NONE in t.args[1:]:
                return (t.args[0] == "is") != given
            if t == mapping:
                return given
            return None
        I = Interp(prog, hints.param_types_for("iindexes"), hints.FIELD_TYPES, inline=False, oracle=oracle)
        I.run(fi)
        label = "with a mapping" if given else "without a mapping"
        wh = [e for e in I.events if e.kind == "store_sub" and any(b.op == "alloc" and b.args[0] == "dict" for b in tm.alts(e["base"])) and tm.contains(e["value"], lambda x: x.op == "call" and tm.callee_name(x) in ("numpy.where", "numpy.flatnonzero", "numpy.nonzero", ".nonzero"))]
        sc = [e for e in I.events if e.kind == "call" and e["method"] == "append" and e["recv"] is not None and e["recv"].op == "sub"
              and any(b.op == "call" and tm.callee_name(b) == "collections.defaultdict" for b in tm.alts(e["recv"].args[0]))]
        if len(wh) != 2 or len(sc) != 2:
            rep.undecided("R-C01-i", where, "construction stores (%s)" % label, "expected 2 + 2 stores, found %d + %d" % (len(wh), len(sc)))
            continue
        for ev in wh + sc:
            key = ev["index"] if ev.kind == "store_sub" else ev["recv"].args[1]
            k0 = key.args[0] if key.op == "tuple" else key
            m = is_mapped(k0)
            branch = "numpy.where" if ev.kind == "store_sub" else "row scan"
            rep.check(m == given, "R-C01-i", "%s@%d" % (where, ev.line), "%s branch, %s: the stored key %s the mapped value" % (branch, label, "is" if given else "is not"), "",
                      "the key is %s although %s" % ("NOT mapped" if given else "mapped", "a mapping was given" if given else "no mapping was given") + (": the index holds the raw input values" if given else ": mapping[value] on None raises"),
                      witness={"inputs": "a long sparse array (row-scan path) with mapping={0: 10, 1: 11, ...}: to_array returns the unmapped values" if given else "from_array without a mapping"})
        if given:
            # the explicit common value is mapped
            sg = None
            for ev in wh + sc:
                for c, pol in flat_guards(ev.guards):
                    if c.op == "cmp" and c.args[0] == "==" and not pol:
                        sg = c.args[2]
            okc = sg is not None and all(is_mapped(a) or not tm.contains(a, lambda x: x == common) for a in tm.alts(sg)) and any(is_mapped(a) for a in tm.alts(sg))
            rep.check(okc, "R-C01-i", where, "with a mapping, a caller-chosen common value is mapped too before it is compared with mapped values", "common = mapping[common]",
                      "the common value compared with the mapped values is %s" % (tm.show(sg)[:60] if sg is not None else "?"),
                      witness={"inputs": "from_array([0, 1, 1], common=0, mapping={0: 5, 1: 6}): rows of value 0 are stored under 5 although 5 is the common value"})
            # counts are accumulated per mapped value
            acc = [e for e in I.events if e.kind == "store_sub" and e["aug"] == "+" and is_mapped(e["index"]) and any(b.op == "call" and tm.callee_name(b) == "collections.defaultdict" for b in tm.alts(e["base"]))]
            rep.check(len(acc) >= 1 and all(e.loops for e in acc), "R-C01-i", where, "with a mapping, the counts that elect the common value are accumulated per mapped value", "final_counts[mapping[v]] += c",
                      "no accumulating store keyed by the mapped value: the election runs over an empty / unmapped table",
                      witness={"inputs": "from_array(a, mapping=m) without common: the lowest mapped value is taken instead of the most frequent one"})
    # to_array: the list that sizes the dtype holds the entries' values
    fi2 = prog.func("iindexes", "iindex.to_array")
    I2 = Interp(prog, hints.param_types_for("iindexes"), hints.FIELD_TYPES, inline=False)
    I2.run(fi2)
    comps = set()
    for e in I2.events:
        if e.kind == "call" and e["name"] == "iindexes:fit_dtype":
            for a in e["args"]:
                for x in tm.walk(a):
                    if x.op == "comp" and x.args[0] == "list" and tm.contains(x.args[1], lambda y: y.op == "iter" and y.args[0] == tm.param("self")):
                        comps.add(x)
    for x in comps:
        el = x.args[1]
        ok = el.op == "sub" and tm.is_const(el.args[1], 0)
        rep.check(ok, "R-C01-i", fi2.fq, "to_array: the dtype is sized from the entries' values (coords[0] for coords in self)", "", "the list holds %s" % tm.show(el)[:40],
                  witness={"inputs": "a 2-D index whose values exceed its column numbers: the dtype is chosen from the column numbers and the values overflow"})
    if not comps:
        rep.undecided("R-C01-i", fi2.fq, "to_array: values that size the dtype", "no list of entry values reaches fit_dtype")
    # the fill value of the output (self.common) is ALWAYS among the values that size the default dtype: the array is
    # pre-filled with it even when no cell holds it (a caller-chosen common value that is absent from the data)
    I3 = Interp(prog, hints.param_types_for("iindexes"), hints.FIELD_TYPES, max_depth=2)
    I3.run(fi2)
    common_t = T("attr", tm.param("self"), "common")
    ORDER = {"never": 0, "cond": 1, "always": 2}

    def includes_common(X, base_guards):
        if X.op == "alloc" and X in I3.heap:
            els = I3.heap[X].get("elts", []) or I3.heap[X].get("literal", [])
            if any(el == common_t for el in els):
                return "always"
        if X.op in ("comp", "alloc"):
            best = "never"
            for e in I3.events:
                if e.kind == "call" and e["method"] in ("add", "append", "insert") and e["recv"] == X and any(a == common_t for a in e["args"]):
                    extra = [g for g in e.guards if g not in base_guards]
                    v = "always" if not extra else "cond"
                    best = v if ORDER[v] > ORDER[best] else best
            return best
        if X.op == "call" and tm.callee_name(X) in ("builtins.list", "builtins.set", "builtins.sorted", "builtins.tuple", "builtins.frozenset") and X.args[1]:
            return includes_common(X.args[1][0], base_guards)
        if X.op == "binop" and X.args[0] in ("+", "|"):
            vs = [includes_common(a, base_guards) for a in X.args[1:]]
            known = [v for v in vs if v is not None]
            if "always" in known:
                return "always"
            return None if None in vs else max(known, key=ORDER.get)
        if X.op == "bool":
            vs = [includes_common(a, base_guards) for a in X.args[1:]]
            return None if None in vs else min(vs, key=ORDER.get)
        if X.op in ("list", "tuple", "set"):
            return "always" if any(a == common_t for a in X.args) else "never"
        return None

    seen_x = set()
    for e in I3.events:
        if e.kind == "call" and e["name"] == "iindexes:fit_dtype" and not e.stack:
            for a in e["args"]:
                if a.op == "call" and tm.callee_name(a) in ("builtins.max", "builtins.min") and a.args[1] and tm.contains(a, lambda y: y.op == "iter" and y.args[0] == tm.param("self")):
                    X = a.args[1][0]
                    if X in seen_x:
                        continue
                    seen_x.add(X)
                    v = includes_common(X, e.guards)
                    cons = "to_array: the common value (the fill value of the output) always takes part in sizing the default dtype"
                    if v is None:
                        rep.undecided("R-C01-i", "%s@%d" % (fi2.fq, e.line), cons, "cannot tell whether %s contains self.common" % tm.show(X)[:60])
                    else:
                        rep.check(v == "always", "R-C01-i", "%s@%d" % (fi2.fq, e.line), cons, "self.common is an unconditional element",
                                  "self.common is %s: the output is pre-filled with it all the same, so numpy.full raises OverflowError (or wraps) when it lies outside the dtype of the listed values"
                                  % ("only included when some cell holds it" if v == "cond" else "not among the values"),
                                  witness={"inputs": "iindex.from_array([0, 1, 2, 1], common=-1).to_array() -> OverflowError instead of the array"})


def rule_l(prog, rep):
    """R-C01-l: from_array accepts correct caller-supplied counts for every input shape.  Counts describe CELLS
    (values.size); a validation that compares them with the number of ROWS (len(values), values.shape[0]) rejects exact
    counts for every array with two or more columns."""
    import ast
    fi = prog.func("iindexes", "iindex.from_array")
    where = fi.fq
    found = 0
    for st in ast.walk(fi.node):
        if not isinstance(st, ast.If) or not any(isinstance(x, ast.Raise) for b in st.body for x in ast.walk(b)):
            continue
        t = st.test
        mentions_counts = any(isinstance(n, ast.Name) and n.id == "counts" for n in ast.walk(t))
        if not mentions_counts:
            continue
        found += 1
        rows = [n for n in ast.walk(t) if (isinstance(n, ast.Call) and isinstance(n.func, ast.Name) and n.func.id == "len" and n.args and isinstance(n.args[0], ast.Name) and n.args[0].id == "values")
                or (isinstance(n, ast.Subscript) and isinstance(n.value, ast.Attribute) and n.value.attr == "shape" and isinstance(n.slice, ast.Constant) and n.slice.value == 0)]
        cells = [n for n in ast.walk(t) if isinstance(n, ast.Attribute) and n.attr == "size"]
        cons = "from_array: caller-supplied counts are validated against the number of cells"
        w = "%s@%d" % (where, st.lineno)
        if rows and not cells:
            rep.violated("R-C01-l", w, cons, "`%s` compares the counts with the number of ROWS: exact counts of a 2-D array (rows x columns cells) are rejected with an exception" % ast.unparse(t)[:70],
                         witness={"inputs": "a = [[1, 2, 0], [0, 0, 1], [2, 0, 0], [0, 1, 0]]; from_array(a, counts={0: 7, 1: 3, 2: 2}) raises instead of building the index"})
        elif cells:
            rep.proved("R-C01-l", w, cons, ast.unparse(t)[:70])
        else:
            rep.undecided("R-C01-l", w, cons, "a raise depends on the supplied counts: `%s`" % ast.unparse(t)[:70])
    if not found:
        rep.proved("R-C01-l", where, "from_array raises nothing that depends on caller-supplied counts", "no such test", nontrivial=False)


def main(tier):
    rep = core.Report("C01", level="other", rules=RULES, tier=tier,
                      declined="the round trip equals the input element for element, for every array and option (values); only four structural necessary conditions are decided")
    rep.trusted_base = ["CPython ast", "symbolic walker", "category-vs-extent classification (checks/c06.py value_class)"]
    prog = Program()
    n = c06.fit_dtype_sites(prog, ["iindex.to_array"], rep, "R-C01-a", lambda q: {"inputs": "iindex.from_array([-1, 0, 3, 3]).to_array() raises OverflowError"})
    rep.floor("R-C01-a", 2, n)
    rule_b(prog, rep)
    rule_c(prog, rep)
    rule_d(prog, rep)
    rule_e(prog, rep)
    rule_g(prog, rep)
    rule_g_breaks(prog, rep)
    rule_j(prog, rep)
    rule_i(prog, rep)
    rule_l(prog, rep)
    import c17
    st17 = {"events": 0, "mods": 0, "diagnostic": {}, "exceptions": {}, "regions": 0, "shortcuts": 0}
    for q17 in ("iindex.from_array", "iindex.to_array"):
        c17.analyse_root(prog, prog.func("iindexes", q17), "pure", rep, st17, RA="R-C01-h", RB="R-C01-h", extra=False)
    # R-C01-k: a many-to-one mapping merges the row sets of several input values through set_operations.union; the
    # kernel's decision tables, shortcuts and tail copies are C08's rules
    import c08
    sub8 = core.Report("C08", level="other", rules=c08.RULES, tier=tier)
    n8 = c08.analyse_op(sub8, prog, "union")
    for o in sub8.obls:
        rep.add("R-C01-k", o.where, "[%s] %s" % (o.rule, o.construct), o.status, o.detail, True,
                o.witness if o.status != "VIOLATED" else dict(o.witness or {}, history="from_array(a, mapping={1: 7, 2: 7}): the rows of 1 and 2 are merged by union() - a wrong union loses or duplicates rows of category 7"))
    rep.floor("R-C01-k", 15, len(sub8.obls))
    import c19
    sub = core.Report("C19", level="proof", rules=c19.RULES, tier=tier)
    c19.analyse(prog, sub, False)
    for o in sub.obls:
        if o.rule in ("R-C19-contain", "R-C19-coverage", "R-C19-sign", "R-C19-tree"):
            rep.add("R-C01-f", o.where, "[%s] %s" % (o.rule, o.construct), o.status, o.detail, True, o.witness)
    return rep.finish()


if __name__ == "__main__":
    core.run_main("C01", main)
