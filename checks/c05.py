#!/venv/bin/python
"""C05 - results are independent of which category is stored as common.

Declined: cell-by-cell invariance of every aggregate under re-encoding (values).
Decided (reachability questions over terms, engine F taints):
  R-C05-a  in marginal differencing the written slice sits, on the differenced axis, at THAT
           dimension's common coordinate (every test fixture uses common 0, so `0` instead
           of `dim.common` passes the suite);
  R-C05-b  the grand totals stored in the corner depend only on the fact / weight arrays
           and the row count, never on a dimension's entries or common value;
  R-C05-c  the walk, the fill closures and reduce never compare a coordinate with an integer
           literal other than the margin marker -1 and never read .common;
  R-C05-d  shift_common materialises the rows of the old common value before it deletes the
           entries of the new one and before it rebinds .common; per column in the 2-D branch.
"""
import os
import sys

sys.path.insert(0, os.path.dirname(os.path.dirname(os.path.abspath(__file__))))
from sa import core, hints, aggr, aggtables as AT, terms as tm
from sa.terms import T
from sa.pyfront import Program
from sa.symex import Interp

RULES = {
    "R-C05-j": "the reconstructed cell at a common category is exactly margin - sum(uncommon cells), unclamped and untolerated, for every region (imported from C02 R-C02-e): otherwise a category's value depends on whether it is the one encoded as common",
    "R-C05-i": "every sub-cube task walks its dimensions unconditionally - also when a dimension has no stored entry, which happens exactly when all its rows hold the common value (imported from C02 R-C02-g): otherwise the margins that differencing needs are never written for that encoding only",
    "R-C05-h": "the walk presents every non-empty uncommon and marginal combination exactly once (imported from the C14 schema analysis): the split between visited cells and differenced cells is the only place where the choice of common value enters",
    "R-C05-g": "the index methods the cubes read a dimension through (slices1d, sliced, items, get, common_rowids, copy) write nothing on the index (imported from the C17 frame analysis): a memo kept on the index survives an in-place shift_common and feeds the old entry set to the next cube",
    "R-C05-f": "every near-zero test that decides 'this differenced counter is zero' (adjust_zeros' default, ffunc_count/xfunc_count.reduce) uses isclose(x, 0) with NumPy's default absolute tolerance, as documented - not a narrower one",
    "R-C05-e": "every index-cube grand total is the all-rows instance of its per-cell value (per fact column), so the cell reconstructed at the common coordinate does not depend on which category is common",
    "R-C05-a": "differencing writes at dim.common of the dimension whose axis is being differenced",
    "R-C05-b": "corner (grand total) values carry no dependence on any dimension's encoding",
    "R-C05-c": "no coordinate is compared with an integer literal other than -1; .common is not read by walk / fill / reduce",
    "R-C05-d": "shift_common: old-common rows are stored before new-common entries are deleted and before .common is rebound",
}


def rule_a(prog, rep):
    fi = prog.func("ccubes", "ccube._compute_common_cells_from_marginal_diffs")
    I = Interp(prog, hints.param_types_for("ccubes"), hints.FIELD_TYPES)
    I.run(fi)
    where = fi.fq
    REGION = tm.param([a for a in fi.params() if a not in ("self", "cls")][0])  # first parameter, whatever its name
    st = [e for e in I.events if e.kind == "store_sub" and e["base"] == REGION]
    if len(st) != 1:
        # the routine was rewritten: take the verdict of the shared shape rule (R-C02-e), which also knows the
        # accumulate-into-a-view form
        import c02
        sub2 = core.Report("C02", level="other", rules=c02.RULES, tier="quick")
        c02.rule_e(prog, sub2)
        bad = [o for o in sub2.obls if o.status == "VIOLATED"]
        for o in bad:
            rep.add("R-C05-a", o.where, "[%s] %s" % (o.rule, o.construct), o.status, o.detail, True, o.witness)
        if not bad:
            rep.undecided("R-C05-a", where, "differencing store", "%d stores into the region" % len(st))
        return
    idx = st[0]["index"]
    # scaffold + tuple(<per-dim element> for a, dim in enumerate(self.dims))
    comp = None
    for x in tm.walk(idx):
        if x.op == "comp":
            comp = x
    if comp is None or len(comp.args[2]) != 1:
        rep.undecided("R-C05-a", where, "written slice", "index is not scaffold + tuple(<generator over dims>): %s" % tm.show(idx)[:80])
        return
    lid = comp.args[2][0]
    it = I.loopinfo[lid]["iter"]
    dims = T("attr", tm.param("self"), "dims")
    over_dims = tm.contains(it, lambda x: x == dims)
    elt = comp.args[1]
    ok = None
    why = "per-dimension element is %s" % tm.show(elt)[:80]
    if elt.op == "ifexp":
        c, a, b = elt.args
        in_loop = lambda x: (x.op in ("enumidx", "iter") and x.args[1] == lid)
        on_axis = c.op == "cmp" and c.args[0] == "==" and any(in_loop(x) for x in c.args[1:]) and any(x.op == "iter" and x.args[1] != lid for x in c.args[1:])
        dim_common = a.op == "attr" and a.args[1] == "common" and a.args[0].op == "iter" and a.args[0].args[1] == lid and tm.contains(a.args[0].args[0], lambda x: x == dims)
        whole = b.op == "call" and tm.callee_name(b) == "builtins.slice"
        if on_axis and dim_common and whole and over_dims:
            ok = True
        elif on_axis and whole and not tm.contains(a, lambda x: x.op == "attr" and x.args[1] == "common"):
            ok = False
            why = "on the differenced axis the write goes to %s, which does not depend on that dimension's common value" % tm.show(a)[:40]
    if ok is None:
        rep.undecided("R-C05-a", where, "common slice = (dim.common if a == axis else slice(None)) per dimension", why)
    else:
        rep.check(ok, "R-C05-a", where, "common slice = (dim.common if a == axis else slice(None)) per dimension", "depends on COMMON(d) of the differenced dimension", why,
                  witness={"inputs": "re-encode a dimension with common value 1: its common cell moves, the write does not"})


def rule_b(prog, rep):
    n = 0
    for name in AT.SHARED:
        for w in AT.weight_modes(name):
            cfg = aggr.Config(weights=w)
            m = AT.model(prog, "ffuncs", "ffunc_" + name, cfg)
            fi, I, fr = m.gir
            cube = tm.param("cube")
            for ev in I.events:
                if ev.kind == "store_sub" and ev["index"] == T("attr", cube, "corner"):
                    v = ev["value"]
                    n += 1
                    bad = None
                    for x in tm.walk(v):
                        if x.op == "attr" and x.args[1] == "common":
                            bad = "a common value"
                        if x.op in ("dkey", "dval") or (x.op == "call" and tm.callee_name(x) in (".items", ".keys", ".values") and tm.contains(x, lambda y: y == cube)):
                            bad = "a dimension's entries"
                        if x.op == "attr" and x.args[0] == cube and x.args[1] not in ("dims", "working_shape", "corner"):
                            bad = "cube.%s" % x.args[1]
                        if x.op == "sub" and x.args[0].op == "attr" and x.args[0].args[1] == "dims" and x.args[0].args[0] == cube:
                            pass
                    # cube.dims may only be used as dims[0].shape[0] (row count)
                    for x in tm.walk(v):
                        if x.op == "attr" and x.args[0].op == "sub" and x.args[0].args[0] == T("attr", cube, "dims") and x.args[1] != "shape":
                            bad = "dims[...].%s" % x.args[1]
                    rep.check(bad is None, "R-C05-b", "%s@%d" % (fi.fq, ev.line), "%s corner value, weights %s" % (name, w), "depends only on fact / weight arrays and the row count",
                              "the grand total depends on %s" % bad, witness={"inputs": "re-encode a dimension: the corner, and with it every reconstructed common cell, changes"})
    rep.floor("R-C05-b", 12, n)


def rule_c(prog, rep):
    # _walk
    fi = prog.func("ccubes", "ccube._walk")
    I = Interp(prog, hints.param_types_for("ccubes"), hints.FIELD_TYPES, inline=False)
    I.run(fi)
    bad = []
    for ev in I.events:
        for c, pol in ev.guards:
            for x in tm.walk(c):
                if x.op == "cmp" and any(tm.contains(a, lambda y: y.op == "dkey" or y == tm.param("base_coords")) for a in x.args[1:]) and any(a.op == "const" and isinstance(a.args[1], int) and a.args[1] != -1 for a in x.args[1:]):
                    bad.append(tm.show(x)[:60])
    rep.check(not bad, "R-C05-c", fi.fq, "walk does not test coordinates against integer literals", "", "coordinate compared with a literal: %s" % bad[:2],
              witness={"inputs": "a dimension whose common value is not the literal"})
    # fill closures and reduce of every ffunc
    n = 0
    for name in AT.SHARED:
        for w in AT.weight_modes(name):
            m = AT.model(prog, "ffuncs", "ffunc_" + name, aggr.Config(weights=w))
            for label, (f, II, fr) in (("fill_func", m.fill), ("reduce", m.red)):
                n += 1
                reads = [ev for ev in II.events for v in AT._terms(ev) if tm.contains(v, lambda x: x.op == "attr" and x.args[1] == "common")]
                cmps = []
                for ev in II.events:
                    for c, pol in ev.guards:
                        for x in tm.walk(c):
                            if x.op == "cmp" and any(a == tm.param("x_coords") or tm.contains(a, lambda y: y == tm.param("x_coords")) for a in x.args[1:]):
                                cmps.append(x)
                rep.check(not reads and not cmps, "R-C05-c", f.fq, "%s.%s (weights %s) neither reads .common nor branches on coordinates" % (name, label, w), "",
                          "%s" % ("reads a dimension's common value" if reads else "branches on the cell coordinates"))
    rep.floor("R-C05-c", 18, n)


def rule_d(prog, rep):
    fi = prog.func("iindexes", "iindex.shift_common")
    I = Interp(prog, hints.param_types_for("iindexes"), hints.FIELD_TYPES)
    I.run(fi, args={"new_common": tm.param("new_common")})
    self_t = tm.param("self")
    stores = [e for e in I.events if e.kind == "store_sub" and e["base"] == self_t and not e.stack]
    dels = [e for e in I.events if e.kind == "del_sub" and e["base"] == self_t and not e.stack]
    rebind = [e for e in I.events if e.kind == "store_attr" and e["attr"] == "common" and e["base"] == self_t and not e.stack]
    where = fi.fq
    if not stores or not dels or not rebind:
        rep.undecided("R-C05-d", where, "event order", "expected stores of the old common rows, a deletion loop and a rebind of .common")
        return
    ok = max(s.seq for s in stores) < min(d.seq for d in dels) and max(d.seq for d in dels) < min(r.seq for r in rebind)
    rep.check(ok, "R-C05-d", where, "materialise old common rows -> delete new common entries -> rebind .common", "", "the three steps are not in this order",
              witness={"history": "shift_common(v): rows of the old common value are computed after .common changed, so they are the complement of the wrong thing"})
    # keys of the stores: the OLD common value
    okk = all(tm.contains(s["index"], lambda x: x == T("attr", self_t, "common")) for s in stores)
    rep.check(okk, "R-C05-d", where, "the materialised rows are filed under the old common value", "", "stored under %s" % tm.show(stores[0]["index"])[:50])
    # deletion guarded by coords[0] == new_common
    okd = all(any(c.op == "cmp" and c.args[0] == "==" and pol and tm.contains(c, lambda x: x == tm.param("new_common") or x.op == "ifexp") for c, pol in d.guards) for d in dels)
    rep.check(okd, "R-C05-d", where, "exactly the entries of the new common value are deleted", "", "deletion is not guarded by coords[0] == new_common")
    # 2-D branch: per column complement
    two_d = [s for s in stores if any(c.op == "cmp" and c.args[0] == ">" and pol for c, pol in s.guards if tm.contains(c, lambda x: x.op == "attr" and x.args[1] == "shape"))]
    # the column label is a position that runs over ALL columns - enumerate over the transposed mask (one item per column) or
    # range(self.shape[1]) - and the rows stored under it come from that same column
    if not two_d:
        rep.undecided("R-C05-d", where, "2-D branch: one complement per column, keyed (old common, column)", "no store under a `len(self.shape) > 1` guard")
    for s in two_d:
        cons = "2-D branch: one complement per column, keyed (old common, column)"
        ix = s["index"]
        if not (s.loops and ix.op == "tuple" and len(ix.args) == 2):
            rep.violated("R-C05-d", where, cons, "the 2-D branch stores under %s outside a per-column loop: the rows of all columns are filed under one key" % tm.show(ix)[:40],
                         witness={"history": "2-D index, shift_common(v): to_array() differs afterwards"})
            continue
        col = ix.args[1]
        shape1 = T("sub", T("attr", self_t, "shape"), tm.const(1))
        mask_like = lambda m: m.op == "call" and tm.callee_name(m) in ("numpy.ones", "numpy.zeros", "numpy.full") and m.args[1] and m.args[1][0] == T("attr", self_t, "shape")
        if col.op == "enumidx":
            X = col.args[0]
            per_column = X.op == "attr" and X.args[1] == "T" and mask_like(X.args[0])
            same_item = tm.contains(s["value"], lambda x: x.op == "iter" and x.args[0] == X and x.args[1] == col.args[1])
            data_dep = [tm.callee_name(x) for x in tm.walk(X) if x.op == "call" and tm.callee_name(x) in ("numpy.split", "numpy.array_split", "numpy.unique", "numpy.flatnonzero", "numpy.nonzero", "numpy.where", ".nonzero")]
            if per_column and same_item:
                rep.proved("R-C05-d", where, cons, "enumerate(<mask of shape self.shape>.T), rows taken from the same item")
            elif data_dep:
                rep.violated("R-C05-d", where, cons, "the labels are positions in %s(...), whose number of items depends on the data (one per column that HAS rows at the old common value), not on shape[1]: "
                             "a column without such rows shifts the label of every later column, and the last one's rows are never stored" % data_dep[0],
                             witness={"history": "2-D index whose column 0 never takes the common value: shift_common(v) files column 1's old-common rows under column 0"})
            else:
                rep.undecided("R-C05-d", where, cons, "iterable %s not recognised as one item per column" % tm.show(X)[:60])
        elif col.op == "iter" and col.args[0].op == "call" and tm.callee_name(col.args[0]) == "builtins.range" and col.args[0].args[1] == (shape1,):
            # range(self.shape[1]): the rows must be the column `col` of the mask
            sel = tm.contains(s["value"], lambda x: x.op == "sub" and mask_like(x.args[0]) and x.args[1].op == "tuple" and len(x.args[1].args) == 2 and x.args[1].args[1] == col)
            if sel:
                rep.proved("R-C05-d", where, cons, "for col in range(self.shape[1]): rows of mask[:, col]")
            else:
                rep.undecided("R-C05-d", where, cons, "rows stored under column `col` are not recognised as column `col` of the mask")
        elif col.op in ("dkey", "dval") or (col.op == "iter" and tm.contains(col.args[0], lambda x: x.op == "alloc" or (x.op == "call" and (tm.callee_name(x) or "") in (".keys", ".items", "builtins.sorted", "builtins.set")))):
            rep.violated("R-C05-d", where, cons, "the column labels are the keys of a collection built from the stored entries (%s): a column that stores no entry - every row at the old common value - is never visited, "
                         "so its rows are not written out and read as the NEW common value afterwards" % tm.show(col)[:40],
                         witness={"history": "2-D index with one column entirely at the common value: shift_common(v) turns that column into v"})
        else:
            rep.undecided("R-C05-d", where, cons, "column label %s not recognised" % tm.show(col)[:50])


def main(tier):
    rep = core.Report("C05", level="other", rules=RULES, tier=tier,
                      declined="cell-by-cell invariance of every aggregate under re-encoding and re-normalisation (values); decided are reachability facts that are necessary for it")
    rep.trusted_base = ["CPython ast", "symbolic walker", "configuration oracle"]
    prog = Program()
    rule_a(prog, rep)
    rule_b(prog, rep)
    rule_c(prog, rep)
    rule_d(prog, rep)
    # R-C05-e: the reconstructed common cell is corner - (sum of the uncommon cells); it holds that cell's own
    # contribution, whichever category happens to be common, only if the corner is the all-rows instance
    # of what the cells hold (column by column for several fact columns)
    C = AT.Collector()
    n = AT.rule_corner_cell(prog, C, "R-C05-e")
    n_t = AT.rule_zero_snap_tolerance(prog, C, "R-C05-f")
    for rule, status, where, cons, detail, wit in C.items:
        rep.add(rule, where, cons, status, detail, True, wit)
    rep.floor("R-C05-e", 30, n)
    import c17
    st17 = {"events": 0, "mods": 0, "diagnostic": {}, "exceptions": {}, "regions": 0, "shortcuts": 0}
    k17 = 0
    ii17 = prog.cls("iindexes", "iindex")
    for n17 in ("slices1d", "sliced", "items", "get", "common_rowids", "copy", "to_dict", "abscissae"):
        f17 = ii17.methods.get(n17)
        if f17 is not None:
            c17.analyse_root(prog, f17, "pure", rep, st17, RA="R-C05-g", RB="R-C05-g", extra=False)
            k17 += 1
    rep.floor("R-C05-g", 5, k17)
    # R-C05-h: which category is encoded as `common` decides which combinations the walk visits and which it leaves to
    # marginal differencing; the result is encoding-independent only if the walk presents EVERY non-empty uncommon and
    # marginal combination exactly once, for every dimension count: the C14 schema analysis
    import c14
    sub14 = core.Report("C14", level="other", rules=c14.RULES, tier=tier)
    c14.analyse(prog, sub14)
    c14.walk_rules(prog, sub14)
    for o in sub14.obls:
        rep.add("R-C05-h", o.where, "[%s] %s" % (o.rule, o.construct), o.status, o.detail, True,
                o.witness if o.status != "VIOLATED" else {"history": "three dimensions, the middle one re-encoded to a rare common value: marginal cells are never written and the differenced common cells come out negative"})
    rep.floor("R-C05-h", 30, len(sub14.obls))
    # R-C05-i: which cells a sub-cube task leaves to differencing depends on the encoding (a dimension all of whose rows
    # hold the common value has NO entry at all): the task must still walk, so that the margins of the other dimensions
    # are written - C02's rule R-C02-g (no early return from the task, the walk unconditional)
    import c02
    sub2g = core.Report("C02", level="other", rules=c02.RULES, tier=tier)
    c02.rule_g(prog, sub2g)
    for o in sub2g.obls:
        rep.add("R-C05-i", o.where, "[%s] %s" % (o.rule, o.construct), o.status, o.detail, True,
                o.witness if o.status != "VIOLATED" else dict(o.witness or {}, history="a dimension whose rows all hold category c, encoded with c as common, crossed with another dimension: every cell but the all-common one reads as missing; any other encoding is right"))
    rep.floor("R-C05-i", 2, len(sub2g.obls))
    # R-C05-j: a category's cell is the same whether it is stored (filled directly) or is the common one (reconstructed):
    # the reconstruction is exactly margin - sum(uncommon), for every region alike - signed sums too (C02's rule R-C02-e)
    sub2e = core.Report("C02", level="other", rules=c02.RULES, tier=tier)
    c02.rule_e(prog, sub2e)
    for o in sub2e.obls:
        rep.add("R-C05-j", o.where, "[%s] %s" % (o.rule, o.construct), o.status, o.detail, True,
                o.witness if o.status != "VIOLATED" else dict(o.witness or {}, history="facts with a negative total in one category: ccube.sum differs between the encoding where that category is common (reconstructed, altered) and one where it is stored"))
    rep.floor("R-C05-j", 3, len(sub2e.obls))
    return rep.finish()


if __name__ == "__main__":
    core.run_main("C05", main)
