#!/venv/bin/python
"""C14 - walk presents exactly the non-empty uncommon and marginal intersections.

Declined: equality of the delivered row ids with a brute-force oracle (values).
Decided: the WALK SCHEMA (engine P over ccube._walk, loop bodies symbolic): which
(coordinates, rows) pairs are emitted or recursed on, under which branch conditions,
inside which loop, and behind which non-emptiness test - compared with the six cases
the property requires, no more, no fewer.
"""
import os
import sys

sys.path.insert(0, os.path.dirname(os.path.dirname(os.path.abspath(__file__))))
from sa import core, hints, terms as tm
from sa.terms import T
from sa.pyfront import Program
from sa.symex import Interp, flat_guards

RULES = {
    "R-C14-j": "the dimensions the walk reads are well-formed whenever the library built them: every operation that stores row ids stores them strictly increasing and non-empty (imported from C07 rules a and b) - the merge-based intersections and the row lists handed to callbacks depend on it",
    "R-C14-i": "the intersection kernel the walk calls accepts the row-id arrays of any well-formed index, strided views included (general [:] memoryview parameters)",
    "R-C14-a": "every callback invocation / recursion carries (base ++ entry coords, entry rows | INTERSECT(base rows, entry rows)) from one loop iteration, or (base ++ (-1,), base rows)",
    "R-C14-b": "every emission, and every recursion on an intersection, is dominated by a truthiness test of len(rows)",
    "R-C14-c": "margins: on the multi-dimension path the marginal recursion happens once per activation, unconditionally; on the last dimension the marginal emission happens iff base rows exist and are non-empty",
    "R-C14-d": "exactly once: the cases are pairwise distinct and the branch conditions (len(dims) > 1, base_rowids is None) partition",
    "R-C14-e": "the common category is never presented: entries are iterated without force and .common is never read",
    "R-C14-f": "INTERSECT is the set_intersect_merge_np kernel (exact by C08) with (base rows, entry rows)",
    "R-C14-h": "no early exit: _walk has no return / break / raise inside an entry loop and no explicit return before the margin sites, so every entry is visited and every activation reaches its margin",
    "R-C14-g": "walk wraps a single callable and starts at ((), None) over self.dims; interactions collects exactly the delivered pairs",
}
REQUIRED = {
    # (kind, coords, rows, base, dims): needs_len_guard
    ("recurse", "entry", "entry-rows", "none", "multi"): False,  # entry rows of a well-formed index are non-empty (C07)
    ("recurse", "entry", "intersect", "notnone", "multi"): True,
    ("recurse", "margin", "base", "any", "multi"): False,
    ("emit", "entry", "entry-rows", "none", "last"): False,
    ("emit", "entry", "intersect", "notnone", "last"): True,
    ("emit", "margin", "base", "notnone", "last"): True,
}
KERNEL = "set_operations:set_intersect_merge_np"


def alts_cond(t, conds=None):
    conds = conds or []
    if t.op == "ifexp":
        c, a, b = t.args
        return alts_cond(a, conds + [(c, True)]) + alts_cond(b, conds + [(c, False)])
    if t.op == "phi":
        out = []
        for a in t.args:
            out += alts_cond(a, conds)
        return out
    return [(t, conds)]


def analyse(prog, rep):
    fi = prog.func("ccubes", "ccube._walk")
    where = fi.fq
    I = Interp(prog, hints.param_types_for("ccubes"), hints.FIELD_TYPES, inline=False)
    I.run(fi)
    P = {n: tm.param(n) for n in fi.params()}
    names = fi.params()
    self_t, dims, base_coords, base_rowids, funcs = (P[n] for n in names[:5])
    cases = []
    unknown = []
    for ev in I.events:
        if ev.kind != "call":
            continue
        kind = None
        if ev["method"] == "_walk" and ev["recv"] == self_t:
            kind = "recurse"
            if len(ev["args"]) < 4:
                unknown.append((ev, "recursive call with %d arguments" % len(ev["args"])))
                continue
            dims_arg, C, R, fa = ev["args"][:4]
            ok_dims = dims_arg.op == "sub" and dims_arg.args[0] == dims and dims_arg.args[1].op == "slice" and tm.is_const(dims_arg.args[1].args[0], 1) and dims_arg.args[1].args[1] == tm.NONE
            rep.check(ok_dims, "R-C14-a", "%s@%d" % (where, ev.line), "recursion continues with the remaining dimensions dims[1:]", "", "recursion is on %s" % tm.show(dims_arg)[:40])
            rep.check(fa == funcs, "R-C14-a", "%s@%d" % (where, ev.line), "recursion passes the callbacks on unchanged", "", "callbacks argument is %s" % tm.show(fa)[:40])
        elif any(a.op == "iter" and a.args[0] == funcs for a in tm.alts(ev["f"])):
            kind = "emit"
            if len(ev["args"]) != 2:
                unknown.append((ev, "callback called with %d arguments" % len(ev["args"])))
                continue
            C, R = ev["args"]
        else:
            continue
        # coordinates
        cform = None
        cl = None
        if C.op == "binop" and C.args[0] == "+" and C.args[1] == base_coords:
            x = C.args[2]
            if x.op == "dkey":
                cform, cl = "entry", (x.args[0], x.args[1])
            elif x.op == "tuple" and len(x.args) == 1 and tm.is_const(x.args[0], -1):
                cform = "margin"
        if cform is None:
            # recognisably wrong combinations of the SAME two operands (anything else is not decided)
            def is_part(x):
                return x.op == "dkey" or (x.op == "tuple" and len(x.args) == 1 and tm.is_const(x.args[0], -1))
            wrong = None
            if C.op == "binop" and {C.args[1] == base_coords, C.args[2] == base_coords} == {True, False} and is_part(C.args[2] if C.args[1] == base_coords else C.args[1]):
                if C.args[0] != "+":
                    wrong = "the prefix and this dimension's coordinates are combined with `%s` (tuples concatenate with + only)" % C.args[0]
                else:
                    wrong = "this dimension's coordinates are put BEFORE the prefix: the cell's coordinates come out in reverse dimension order"
            elif C == base_coords:
                wrong = "this dimension's coordinates are dropped: every entry of the dimension is presented under its parent's coordinates"
            elif is_part(C):
                wrong = "the prefix (the outer dimensions' coordinates) is dropped"
            if wrong:
                rep.violated("R-C14-a", "%s@%d" % (where, ev.line), "coordinates = prefix + this dimension's coordinates", wrong + ": %s" % tm.show(C)[:60],
                             witness={"inputs": "three dimensions with at least one uncommon intersection in all three"})
                continue
            unknown.append((ev, "coordinates %s" % tm.show(C)[:60]))
            continue
        g0 = list(ev.guards)
        for r, cs in alts_cond(R):
            g = flat_guards(g0 + cs)
            rform = None
            rl = None
            if r.op == "dval":
                rform, rl = "entry-rows", (r.args[0], r.args[1])
            elif r.op == "call" and tm.callee_name(r) == KERNEL and len(r.args[1]) == 2:
                a, b = r.args[1]
                if a == base_rowids and b.op == "dval":
                    rform, rl = "intersect", (b.args[0], b.args[1])
                elif b == base_rowids and a.op == "dval":
                    rform, rl = "intersect", (a.args[0], a.args[1])
                    rep.note("intersection called with (entry rows, base rows): symmetric, accepted")
                else:
                    unknown.append((ev, "intersection of %s" % tm.show(r)[:80]))
                    continue
            elif r == base_rowids:
                rform = "base"
            elif r.op == "call" and tm.callee_name(r) in ("set_operations:intersection",):
                unknown.append((ev, "wrapper intersection() returns None for empty results: rows %s" % tm.show(r)[:60]))
                continue
            else:
                unknown.append((ev, "rows %s" % tm.show(r)[:80]))
                continue
            base = "any"
            for c, pol in g:
                if c.op == "cmp" and c.args[0] in ("is", "is not") and base_rowids in c.args[1:] and tm.NONE in c.args[1:]:
                    isnone = pol if c.args[0] == "is" else not pol
                    base = "none" if isnone else "notnone"
            dm = None
            for c, pol in g:
                if c.op == "cmp" and c.args[0] == ">" and c.args[1].op == "call" and tm.callee_name(c.args[1]) == "builtins.len" and c.args[1].args[1][0] == dims and tm.is_const(c.args[2], 1):
                    dm = "multi" if pol else "last"
                if c.op == "cmp" and c.args[0] in ("==",) and c.args[1].op == "call" and tm.callee_name(c.args[1]) == "builtins.len" and c.args[1].args[1][0] == dims and tm.is_const(c.args[2], 1) and pol:
                    dm = "last"
            lenguard = any(pol and ((c.op == "call" and tm.callee_name(c) == "builtins.len" and c.args[1][0] == r) or
                                    (c.op == "cmp" and c.args[0] in (">", "!=") and c.args[1].op == "call" and tm.callee_name(c.args[1]) == "builtins.len" and c.args[1].args[1][0] == r and tm.is_const(c.args[2], 0)))
                           for c, pol in g)
            # loop context
            loops = [l for l in ev.loops if I.loopinfo[l].get("iter") is not None and not tm.contains(I.loopinfo[l]["iter"], lambda x: x == funcs)]
            cases.append({"kind": kind, "coords": cform, "rows": rform, "base": base, "dims": dm, "lenguard": lenguard, "ev": ev, "loops": loops, "cl": cl, "rl": rl, "r": r})
    for ev, why in unknown:
        rep.undecided("R-C14-a", "%s@%d" % (where, ev.line), "unrecognised case", why)
    # ---- compare with the required case set
    seen = {}
    for c in cases:
        key = (c["kind"], c["coords"], c["rows"], c["base"], c["dims"])
        w = "%s@%d" % (where, c["ev"].line)
        cons = "%s (%s coords, %s) when base rows %s, %s dimension" % (c["kind"], c["coords"], c["rows"], c["base"], c["dims"])
        match = None
        for rk in REQUIRED:
            if rk[:3] == key[:3] and rk[4] == key[4] and (rk[3] == key[3] or rk[3] == "any" or (key[3] == "any" and rk[3] == "any")):
                match = rk
        if match is None:
            # a case the property forbids, or a base/dims condition the schema does not know
            if c["dims"] is None:
                rep.undecided("R-C14-d", w, cons, "not under a recognised `len(dims) > 1` test")
                continue
            why = "this combination must not be presented"
            if c["coords"] == "margin" and c["rows"] != "base":
                why = "a marginal coordinate is paired with the rows of one entry instead of the unintersected base rows"
            elif c["coords"] == "margin" and c["base"] in ("none", "any") and c["kind"] == "emit":
                why = "the all-marginal combination (base rows None) is emitted"
            elif c["rows"] == "entry-rows" and c["base"] != "none":
                why = "entry rows are used without intersecting them with the base rows"
            rep.violated("R-C14-a", w, cons, why, witness={"inputs": "two 1-D dimensions with at least one uncommon entry each"})
            continue
        if match in seen and match[1] != "margin" and False:
            pass
        seen.setdefault(match, []).append(c)
        rep.proved("R-C14-a", w, cons, "one of the six required cases")
        # same loop iteration for coordinates and rows
        if c["coords"] == "entry":
            it_ok = c["cl"] is not None and c["rl"] is not None and c["cl"] == c["rl"] and c["cl"][1] in c["ev"].loops
            src = c["cl"][0] if c["cl"] else None
            first_dim = src is not None and src.op == "sub" and src.args[0] == dims and tm.is_const(src.args[1], 0)
            rep.check(it_ok and first_dim, "R-C14-a", w, "%s: coordinates and rows come from the same entry of dims[0]" % cons, "",
                      "coordinates from %s, rows from %s" % (c["cl"] and tm.show(c["cl"][0])[:30], c["rl"] and tm.show(c["rl"][0])[:30]))
        # non-emptiness
        need = REQUIRED[match]
        if need:
            rep.check(c["lenguard"], "R-C14-b", w, "%s is dominated by a test of len(rows)" % cons, "", "no non-emptiness test dominates this %s: empty combinations are presented" % c["kind"],
                      witness={"inputs": "dimensions whose entries do not intersect"})
        elif c["rows"] == "entry-rows":
            rep.proved("R-C14-b", w, "%s: entry rows" % cons, "guarded by len()" if c["lenguard"] else "entries of a well-formed index are non-empty (C07)", nontrivial=c["lenguard"])
        # margins
        if c["coords"] == "margin":
            if c["kind"] == "recurse":
                extra = [g for g in flat_guards(c["ev"].guards) if not _is_dims_test(g[0], dims)]
                rep.check(not c["loops"] and not extra, "R-C14-c", w, "marginal recursion is unconditional and outside the entry loop", "",
                          "marginal recursion is %s" % ("inside the entry loop (repeated per entry)" if c["loops"] else "conditional on %s" % [tm.show(g[0])[:40] for g in extra]),
                          witness={"inputs": "dimension with two entries: the margin is visited twice"})
            else:
                rep.check(not c["loops"] and c["base"] == "notnone", "R-C14-c", w, "marginal emission happens once, only when base rows exist", "",
                          "marginal emission is %s" % ("inside the entry loop" if c["loops"] else "not restricted to base rows that exist"))
    # ---- exactly once / completeness
    # decided only when the whole walk is in this one function: a walk that hands its callbacks on to helper methods
    # (a split into `all rows` / `within base rows` walkers, an iterative margin loop) presents its cases elsewhere
    delegates = [ev for ev in I.events if ev.kind == "call" and ev["method"] not in ("_walk", None) and ev["recv"] == self_t and any(a == funcs for a in ev["args"])]
    if delegates or unknown:
        rep.undecided("R-C14-d", where, "every case is presented exactly once", "the walk %s: the six cases are not all visible in this function" %
                      ("delegates to %s" % sorted({ev["method"] for ev in delegates}) if delegates else "has %d unrecognised presentation(s)" % len(unknown)))
    for rk in (REQUIRED if not (delegates or unknown) else ()):
        got = seen.get(rk, [])
        cons = "%s (%s coords, %s) when base rows %s, %s dimension" % rk
        if len(got) == 1:
            rep.proved("R-C14-d", where, "exactly one site for: " + cons, "line %d" % got[0]["ev"].line)
        elif not got:
            rep.violated("R-C14-d", where, "missing case: " + cons, "the walk never presents this combination", witness={"inputs": "any cube where this combination has rows"})
        else:
            rep.violated("R-C14-d", where, "duplicated case: " + cons, "presented at lines %s: delivered more than once" % [g["ev"].line for g in got])
    # ---- R-C14-h: abrupt exits
    def lens_true(g):
        """terms X for which `len(X)` is known truthy on this path"""
        out = []
        for c, pol in g:
            if pol and c.op == "call" and tm.callee_name(c) == "builtins.len":
                out.append(c.args[1][0])
            if c.op == "cmp" and c.args[0] in (">", "!=") and pol and c.args[1].op == "call" and tm.callee_name(c.args[1]) == "builtins.len" and tm.is_const(c.args[2], 0):
                out.append(c.args[1].args[1][0])
        return out

    def base_nonempty(g):
        for x in lens_true(g):
            if x == base_rowids or any(a.op == "call" and tm.callee_name(a) == KERNEL and base_rowids in a.args[1] for a in tm.alts(x)):
                return True
        # base rows absent (top level): the margin stands for all rows
        return any(c.op == "cmp" and c.args[0] == "is" and pol and base_rowids in c.args[1:] and tm.NONE in c.args[1:] for c, pol in g)

    def base_empty(g):
        for c, pol in g:
            if not pol and c.op == "call" and tm.callee_name(c) == "builtins.len" and c.args[1][0] == base_rowids:
                return True
            if pol and c.op == "cmp" and c.args[0] == "==" and c.args[1].op == "call" and tm.callee_name(c.args[1]) == "builtins.len" and c.args[1].args[1][0] == base_rowids and tm.is_const(c.args[2], 0):
                return True
        return False

    def exhausted(g):
        """`len(INTERSECT(base, entry)) == len(base)`: every base row is in this entry; entries of a
        1-D dimension are disjoint (C07), so the remaining entries cannot intersect."""
        for c, pol in g:
            if pol and c.op == "cmp" and c.args[0] in ("==", ">=") and all(x.op == "call" and tm.callee_name(x) == "builtins.len" for x in c.args[1:]):
                xs = [x.args[1][0] for x in c.args[1:]]
                if base_rowids in xs and any(a.op == "call" and tm.callee_name(a) == KERNEL for x in xs for a in tm.alts(x)):
                    return True
        return False

    exits = [ev for ev in I.events if not ev.stack and ev.kind in ("return", "break", "raise") and (ev.loops or ev.node.__class__.__name__ in ("Return", "Raise"))]
    seen_k = set()
    for ev in exits:
        k = (ev.kind, ev.line)
        if k in seen_k:
            continue
        seen_k.add(k)
        g = flat_guards(ev.guards)
        w = "%s@%d" % (where, ev.line)
        cons = "early exit from the walk: %s%s" % (ev.kind, " inside an entry loop" if ev.loops else "")
        def compatible(g2):
            """no condition of the exit's path is negated on the other path (the margin it would skip must be reachable
            from where the exit is taken: a later margin under `base_rowids is not None` is not skipped by a return
            taken under `base_rowids is None`)"""
            have = set(g)
            return not any((c2, not p2) in have for c2, p2 in flat_guards(g2))
        margin_after = any(c["coords"] == "margin" and c["ev"].seq > ev.seq and compatible(c["ev"].guards) for c in cases)
        if ev.kind == "break":
            if exhausted(g):
                rep.proved("R-C14-h", w, cons, "taken only when every base row lies in the current entry: the remaining entries of a 1-D dimension cannot intersect (disjoint by C07)")
            else:
                rep.undecided("R-C14-h", w, cons, "a break skips the remaining entries; the analysis cannot decide whether they could still intersect")
        elif base_empty(g):
            rep.proved("R-C14-h", w, cons, "taken only when there are no base rows: nothing further could be presented")
        elif ev.kind == "return" and not ev.loops and not any(c["ev"].seq > ev.seq and compatible(c["ev"].guards) for c in cases):
            rep.proved("R-C14-h", w, cons, "no presentation or recursion that this path could still reach follows the return (guard-clause style: it ends the branch it belongs to)")
        elif margin_after and base_nonempty(g):
            rep.violated("R-C14-h", w, cons, "the %s is taken on a path where base rows exist (or the walk is at the top level), and it skips the margin of this activation%s" % (ev.kind, " and the remaining entries" if ev.loops and not exhausted(g) else ""),
                         witness={"inputs": "3-D cube in which the exit condition holds for one entry of the middle dimension: the margin cell (a, -1, c) is never presented and differencing makes the common cells wrong"})
        else:
            rep.undecided("R-C14-h", w, cons, "an early %s whose justification the analysis cannot decide" % ev.kind)
    if not exits:
        rep.proved("R-C14-h", where, "no return / break / raise inside the entry loops; no explicit return", "%d loops, every activation falls through to its margin" % len(I.loopinfo))
    # ---- R-C14-e
    forced = [ev for ev in I.events if ev.kind == "call" and ev["method"] == "items" and (ev["args"] or ev["kwargs"])]
    rep.check(not forced, "R-C14-e", where, "entries are iterated with items() and no force argument", "", "items(force=...) is used: the common category would be presented")
    half = [ev for ev in I.events if ev.kind == "call" and ev["method"] in ("keys", "values") and ev["recv"] is not None and tm.contains(ev["recv"], lambda x: x == dims)
            and any(I.loopinfo[l].get("iter") is not None and tm.contains(I.loopinfo[l]["iter"], lambda y: y.op == "call" and tm.callee_name(y) in (".keys", ".values") and tm.contains(y, lambda z: z == dims)) for l in I.loopinfo)]
    if half:
        rep.violated("R-C14-e", "%s@%d" % (where, half[0].line), "entries are iterated as (coordinates, row ids) pairs",
                     "a loop of the walk runs over %s() of a dimension: the (coordinates, row ids) pair it unpacks is not an entry" % half[0]["method"],
                     witness={"inputs": "any 2-dimensional cube: the first loop unpacks a coordinate tuple into (coords, rowids)"})
    reads_common = [ev for ev in I.events for v in ev.d.values() if isinstance(v, T) and tm.contains(v, lambda x: x.op == "attr" and x.args[1] == "common")]
    rep.check(not reads_common, "R-C14-e", where, "_walk never reads .common", "", "a dimension's common value is consulted inside the walk")
    getc = [ev for ev in I.events if ev.kind == "call" and ev["method"] in ("common_rowids", "get") and ev["recv"] is not None and tm.contains(ev["recv"], lambda x: x == dims)]
    rep.check(not getc, "R-C14-e", where, "_walk never asks for the common rows", "", "common_rowids()/get(force) is called")
    # ---- R-C14-f
    ks = [ev for ev in I.events if ev.kind == "call" and ev["name"] == KERNEL]
    if not ks and (delegates or unknown):
        rep.undecided("R-C14-f", where, "intersections use set_intersect_merge_np(base rows, entry rows)", "no kernel call in this function; the walk delegates to helpers")
    elif ks and not all(len(e["args"]) == 2 and not e["kwargs"] for e in ks):
        # an output buffer: the delivered / passed-down row ids then live in it. One that outlives the call (an attribute of the
        # cube, a module-level array) is overwritten by the NEXT intersection while the previous result is still the base of
        # the recursion or in the hands of a callback
        shared = []
        for e in ks:
            extra = list(e["args"][2:]) + [v for k, v in e["kwargs"]]
            for x in extra:
                if tm.contains(x, lambda y: (y.op == "attr" and y.args[0] == self_t) or y.op == "global"):
                    shared.append((e, x))
        if shared:
            rep.violated("R-C14-f", "%s@%d" % (where, shared[0][0].line), "every intersection result is an array of its own",
                         "the kernel writes into %s, a buffer kept on the cube: the result passed down as the base rows of the recursion (or handed to a callback) is overwritten by the next intersection" % tm.show(shared[0][1])[:40],
                         witness={"inputs": "three dimensions: the second category under a prefix is intersected with a base that the first category's intersection has overwritten"})
        else:
            rep.undecided("R-C14-f", where, "intersections use set_intersect_merge_np(base rows, entry rows)", "a kernel call with %s arguments" % sorted({len(e["args"]) for e in ks}))
    else:
        rep.check(len(ks) >= 1, "R-C14-f", where, "intersections use set_intersect_merge_np(base rows, entry rows)", "%d call sites" % len(ks), "the walk never intersects: combinations of two or more dimensions are not restricted to their common rows")
    rep.floor("R-C14-a", 6, len(cases))


def _is_dims_test(c, dims):
    if c.op == "cmp" and c.args[1].op == "call" and tm.callee_name(c.args[1]) == "builtins.len" and c.args[1].args[1][0] == dims:
        return True
    return c == dims


def walk_rules(prog, rep):
    fi = prog.func("ccubes", "ccube.walk")
    I = Interp(prog, hints.param_types_for("ccubes"), hints.FIELD_TYPES, inline=False)
    I.run(fi)
    self_t = tm.param("self")
    calls = [e for e in I.events if e.kind == "call" and e["method"] == "_walk"]
    ok = len(calls) == 1
    if ok:
        a = calls[0]["args"]
        ok = len(a) == 4 and a[0] == T("attr", self_t, "dims") and a[1] == T("tuple") and a[2] == tm.NONE
        fa = a[3] if len(a) == 4 else None
        wrap = fa is not None and all(x == tm.param("func_or_funcs") or (x.op == "alloc" and x.args[0] == "list") for x in tm.alts(fa))
        ok = ok and wrap
    rep.check(ok, "R-C14-g", fi.fq, "walk starts _walk(self.dims, (), None, [callbacks])", "", "walk does not start at the empty coordinate with no base rows")
    # ... and starts it unconditionally: a dimension WITHOUT entries is one all of whose rows hold the common value, not an
    # empty one - the margins of the other dimensions still have to be presented
    if calls:
        c0 = calls[0]
        data_guards = [g for g in c0.guards if tm.contains(g[0], lambda x: x.op == "attr" and x.args[1] == "dims")]
        exits = [e for e in I.events if e.kind in ("return", "raise") and e.seq < c0.seq and not e.stack]
        cons_u = "walk starts the recursion for every cube (no early exit, no condition on the dimensions' entries)"
        if data_guards or [e for e in exits if any(tm.contains(g[0], lambda x: x.op == "attr" and x.args[1] == "dims") for g in e.guards)]:
            g0 = (data_guards or [g for e in exits for g in e.guards])[0]
            rep.violated("R-C14-g", "%s@%d" % (fi.fq, c0.line), cons_u,
                         "the recursion is skipped depending on %s: a dimension with no stored entry (every row holds its common value) still has rows, and the margins of the other dimensions are never presented" % tm.show(g0[0])[:70],
                         witness={"inputs": "a dimension whose rows all hold the common value crossed with another dimension: only the grand total is known, differencing puts it all in the all-common cell"})
        elif exits or c0.guards:
            rep.undecided("R-C14-g", "%s@%d" % (fi.fq, c0.line), cons_u, "the start of the recursion is conditional (%s)" % [tm.show(g[0])[:40] for g in c0.guards][:2])
        else:
            rep.proved("R-C14-g", fi.fq, cons_u, "")
    fi2 = prog.func("ccubes", "ccube.interactions")
    I2 = Interp(prog, hints.param_types_for("ccubes"), hints.FIELD_TYPES, inline=False)
    fr = I2.run(fi2)
    # a lambda appending (c, r) to the returned list
    ok2 = False
    rets = [v for v, g in fr.returns]
    for cid, clo in I2.closures.items():
        import ast

        n = clo.node
        if isinstance(n, ast.Lambda) and len(n.args.args) == 2:
            b = n.body
            if isinstance(b, ast.Call) and isinstance(b.func, ast.Attribute) and b.func.attr == "append" and len(b.args) == 1 and isinstance(b.args[0], ast.Tuple) \
                    and [getattr(e, "id", None) for e in b.args[0].elts] == [a.arg for a in n.args.args]:
                ok2 = True
    rep.check(ok2 and len(rets) == 1, "R-C14-g", fi2.fq, "interactions returns the list of exactly the (coords, rows) pairs delivered", "", "interactions does not collect the delivered pairs unchanged")


def main(tier):
    rep = core.Report("C14", level="other", rules=RULES, tier=tier,
                      declined="equality of the delivered row ids with a brute-force oracle (values); decided is the schema that makes it true, given exact intersection (C08) and well-formed entries (C07)")
    rep.trusted_base = ["CPython ast", "symbolic walker (loop bodies entered once with symbolic entries)"]
    rep.assume("set_intersect_merge_np is exact (C08); caller-built indexes are well-formed (library-built ones: R-C14-j)")
    prog = Program()
    analyse(prog, rep)
    walk_rules(prog, rep)
    # R-C14-i: the walk hands the index's own row-id arrays to the intersection kernel, so the kernel must accept whatever
    # layout a well-formed index may hold (a strided view is sorted, unique, uint32): decided on the kernel's declared types
    from sa import cyfront
    import c08
    funcs = [f for f in cyfront.functions(cyfront.load()) if f.name == "set_intersect_merge_np"]
    rep.floor("R-C14-i", 2, c08.check_general_views(rep, funcs, rule="R-C14-i"))
    # R-C14-j: the walk intersects the dimensions' entries with a merge kernel and hands them to the callbacks as they are:
    # what it presents is right only for entries that are strictly increasing and non-empty.  That is not left as an
    # assumption about the caller: every library operation that builds or updates an index is held to it (C07 rules a, b)
    import c07
    sub7 = core.Report("C07", level="other", rules=c07.RULES, tier=tier)
    st7 = {"sites": 0}
    ii7 = prog.cls("iindexes", "iindex")
    for fi7 in [f for n7, f in ii7.methods.items() if n7 not in ("__init__",) and not (n7.startswith("_") and not n7.startswith("__"))] + [prog.func("iindexes", "column_stack")]:
        c07.analyse_root(prog, fi7, sub7, st7)
    k7 = 0
    for o in sub7.obls:
        if o.rule in ("R-C07-a", "R-C07-b"):
            k7 += 1
            rep.add("R-C14-j", o.where, "[%s] %s" % (o.rule, o.construct), o.status, o.detail, True,
                    o.witness if o.status != "VIOLATED" else {"history": "a dimension produced by this operation is walked: the merge kernel assumes increasing row ids, so some non-empty combinations are presented with a subset of their rows or not at all"})
    rep.floor("R-C14-j", 20, k7)
    return rep.finish()


if __name__ == "__main__":
    core.run_main("C14", main)
