#!/venv/bin/python
"""C07 - every operation preserves index well-formedness.

Well-formedness is an invariant of every store into an entries dict; there are finitely
many store sites and the analysis visits all of them (engine F, row-id typestate,
sa/rowids.py).  Assume-guarantee: arrays and keys read from an existing index are
well-formed; every value STORED must be shown well-formed again:
  R-C07-a sorted & unique   R-C07-b non-empty   R-C07-c key is not the common value
  R-C07-d/e range and exclusivity by provenance   R-C07-f dtype uint32
"""
import os
import sys

sys.path.insert(0, os.path.dirname(os.path.dirname(os.path.abspath(__file__))))
from sa import core, hints, terms as tm
from sa.terms import T
from sa.pyfront import Program
from sa.symex import Interp, flat_guards
from sa.rowids import Analyzer, Facts, U32, is_call, method, recv

RULES = {
    "R-C07-j": "column_stack refuses inputs of different row counts - all of them, without exemption: the result takes its row count from one input, and its row ids are below that count only if every input has it",
    "R-C07-i": "an index loaded from an INDX file has tuple-of-Python-int keys, a Python-int common value and uint32 row arrays (imported from the reader analysis, R-C10-d): a NumPy scalar common value ends up inside a key at the next shift_common()",
    "R-C07-h": "operations write only the receiver's own storage: an operand's row-id arrays are never modified in place (they would leave that index's row range) - the frame analysis shared with C06 rule a and C17",
    "R-C07-g": "optional category parameters (a requested common value, a column) are tested with `is None`, never by truth value: shift_common(0) that silently keeps the old common leaves column_stack with entries listed under the common value (imported from C06 rule m)",
    "R-C07-a": "every stored row-id array is strictly increasing (sorted and unique)",
    "R-C07-b": "no empty array is stored (dominating non-emptiness guard, inherited entry, or set_if)",
    "R-C07-c": "nothing is stored under the (final) common value of the index being built",
    "R-C07-de": "range and exclusivity by provenance: the stored rows are a subset of the key's previous rows, new rows beyond the old row count, the complement of all entries, a value-partition of the input, or inherited from a well-formed index of the same row count",
    "R-C07-f": "every stored array has dtype uint32",
}

ASSUMED = {
    "iindex.update": ("entries",),
    "iindex.union_update": ("other",),
    "iindex.intersection_update": ("other",),
    "iindex.difference_update": ("other",),
    "iindex.set_if": ("value", "key"),
    "iindex.__init__": ("entries",),
}
PROV_OK = {
    "inherited": "entries of a well-formed index with the same row count: already in range and exclusive",
    "where": "numpy.where(values == v)[0] over the input of the index's own shape: in range; distinct values select disjoint rows",
    "nonzero": "positions of a mask of the index's own row count",
    "complement": "rows not listed under any entry of that column: in range and disjoint from every entry",
    "renumbered": "ids drawn from arange(new_length): below the new row count; a monotone injection keeps exclusivity",
    "shifted": "other's rows plus the old row count: at or above the old row count, below the new one; disjoint from every old row",
    "append": "old rows followed by shifted new rows",
    "subset": "subset of the same key's previous rows",
    "kernel": "set-algebra of rows already in range",
    "merged": "union of rows of entries that are mapped to the same value of the same column",
    "rowscan": "row positions of one column visited in order",
    "assumed": "caller-supplied rows (documented precondition of the partial-update methods)",
    "file": "rows saved from a well-formed index (C10/C11)",
}


class Site:
    def __init__(self, root, ev, key, value, guards, target, note=""):
        self.root, self.ev, self.key, self.value, self.guards, self.target, self.note = root, ev, key, value, list(guards), target, note

    def where(self):
        return "%s@%d" % (self.ev.fi.fq, self.ev.line)


def ctor_calls(I):
    out = []
    for ev in I.events:
        if ev.kind == "call" and ev["result"] is not None and ev["args"]:
            for a in tm.alts(ev["result"]):
                if a.op == "alloc" and a.args[0] == "obj:iindex":
                    out.append((ev, a))
    return out


def dict_allocs(t):
    return {x for x in tm.walk(t) if x.op == "alloc" and x.args[0] == "dict"}


def enumerate_sites(prog, fi):
    ii = prog.cls("iindexes", "iindex")
    def oracle(t):
        # keys of a well-formed index are tuples (the constructor rejects anything else)
        if t.op == "call" and tm.callee_name(t) == "builtins.hasattr" and len(t.args[1]) == 2 and t.args[1][0].op == "dkey" and tm.is_const(t.args[1][1], "__iter__"):
            return True
        return None

    I = Interp(prog, hints.param_types_for(fi.module), hints.FIELD_TYPES, max_depth=6, oracle=oracle)
    fr = I.run(fi)
    sites = []
    ctors = ctor_calls(I)
    self_t = tm.param("self") if (fi.cls is ii and not fi.is_static and not fi.is_classmethod) else None
    for ev in I.events:
        if ev.kind != "store_sub":
            continue
        base = ev["base"]
        if ev.fi.qualname == "iindex.__init__":
            continue  # constructor normalisation list->array of the values it was given (checked at their own store sites)
        target = None
        for b in tm.alts(base):
            if self_t is not None and b == self_t:
                target = ("obj", b)
            elif b.op == "alloc" and b.args[0] == "obj:iindex":
                target = ("obj", b)
        if target is None:
            da = set()
            for b in tm.alts(base):
                if b.op == "alloc" and b.args[0] == "dict":
                    da.add(b)
                elif b.op in ("sub", "iter") and b.args[0].op in ("comp", "alloc", "loopvar", "phi"):
                    da |= dict_allocs(b.args[0])  # buckets[k] of a list of dicts
            for cev, obj in ctors:
                if da & dict_allocs(cev["args"][0]):
                    target = ("ctor", cev, obj)
        if target is None and fi.qualname == "IndxIO.load" and any(b.op == "alloc" and b.args[0] == "dict" for b in tm.alts(base)):
            target = ("file",)
        if target is None:
            continue
        sites.append(Site(fi, ev, ev["index"], ev["value"], ev.guards, target))
    # comprehension / dict(...) arguments of constructors
    for cev, obj in ctors:
        for a in _alts_cond(cev["args"][0]):
            term, conds = a
            kv = None
            if term.op == "comp" and term.args[0] == "dict":
                kv = term.args[1].args
                lids = term.args[2]
            elif is_call(term, "builtins.dict") and term.args[1] and term.args[1][0].op == "comp" and term.args[1][0].args[1].op == "tuple":
                kv = term.args[1][0].args[1].args
                lids = term.args[1][0].args[2]
            if kv is None:
                continue
            g = list(cev.guards) + conds
            for lid in lids:
                for c in I.loopinfo[lid].get("conds", []):
                    g.append((c, True))
            sites.append(Site(fi, cev, kv[0], kv[1], g, ("ctor", cev, obj), note="comprehension"))
    return I, fr, sites


def _alts_cond(t, conds=None):
    conds = conds or []
    if t.op == "ifexp":
        c, a, b = t.args
        return _alts_cond(a, conds + [(c, True)]) + _alts_cond(b, conds + [(c, False)])
    if t.op == "phi":
        out = []
        for a in t.args:
            out += _alts_cond(a, conds)
        return out
    return [(t, conds)]


# ------------------------------------------------------------------ key != common
def strip_int(t):
    while is_call(t, "builtins.int") and t.args[1]:
        t = t.args[1][0]
    return t


def first_components(key, I, conds=()):
    """[(k0 term, kind, source, conds)] for the first coordinate of a key term."""
    out = []
    for term, cs in _alts_cond(key, list(conds)):
        if term.op == "tuple" and term.args:
            out.append((term.args[0], "explicit", None, cs))
        elif term.op == "binop" and term.args[0] == "+" and term.args[1].op == "tuple" and term.args[1].args:
            out.append((term.args[1].args[0], "explicit", None, cs))
        elif term.op == "dkey":
            out.append((T("sub", term, tm.const(0)), "inherited", term.args[0], cs))
        elif term.op == "unpack" and term.args[1] == 0:
            src = term.args[0]
            if src.op == "iter":
                src = src.args[0]
            while src.op == "call" and tm.callee_name(src) in ("builtins.list", ".items", "builtins.tuple"):
                src = src.args[1][0] if not tm.callee_name(src).startswith(".") else recv(src)
            out.append((T("sub", term, tm.const(0)), "same-dict", src, cs))
        elif is_call(term, "builtins.tuple") and term.args[1]:
            lst = term.args[1][0]
            els = None
            for a in tm.alts(lst):
                if a.op == "alloc" and a in I.heap and I.heap[a].get("literal"):
                    els = I.heap[a]["literal"]
            if els:
                out.append((els[0], "explicit", None, cs))
            else:
                out.append((term, "unknown", None, cs))
        elif term.op == "sub" and term.args[1].op == "slice":
            # coords[:-1] keeps the first coordinate
            inner = first_components(term.args[0], I, cs)
            out.extend(inner)
        else:
            out.append((term, "unknown", None, cs))
    return out


def common_of(x, I, before=None):
    """Term for the common value of index x (param: x.common; object built here: the last value stored to .common)."""
    best = None
    for ev in I.events:
        if ev.kind == "store_attr" and ev["attr"] == "common" and ev["base"] == x and (before is None or ev.seq < before):
            best = ev["value"]
    return best if best is not None else T("attr", x, "common")


def guards_differ(guards, a, b):
    """A guard in force states a != b."""
    A = {a, strip_int(a)}
    B = {b, strip_int(b)}
    for c, pol in flat_guards(guards):
        if c.op != "cmp" or c.args[0] not in ("!=", "=="):
            continue
        x, y = strip_int(c.args[1]), strip_int(c.args[2])
        if ((x in A and y in B) or (x in B and y in A)) and ((c.args[0] == "!=" and pol) or (c.args[0] == "==" and not pol)):
            return True
    return False


def guards_equal(guards, a, b):
    if a == b:
        return True
    for c, pol in flat_guards(guards):
        if c.op == "cmp" and c.args[0] in ("!=", "==") and {c.args[1], c.args[2]} == {a, b}:
            if (c.args[0] == "==" and pol) or (c.args[0] == "!=" and not pol):
                return True
    return False


def same_value(a, b):
    """Two terms for 'the value being stored under k0' that differ only by alternatives."""
    return a == b or a in tm.alts(b) or b in tm.alts(a)


def key_rule(site, I, rep, target_common, assumed_params=()):
    fc0 = first_components(site.key, I)
    where = site.where()
    fc = []
    for k0, kind, src, cs in fc0:
        # a first coordinate that is itself a guarded choice (x if c else y): decide the alternatives separately,
        # unless a dominating test already covers the whole expression
        if kind == "explicit" and k0.op in ("ifexp", "phi") and target_common is not None \
                and not (guards_differ(site.guards + cs, k0, target_common) or all(guards_differ(site.guards + cs, k0, tc) for tc in tm.alts(target_common))):
            for k0a, cs2 in _alts_cond(k0, list(cs)):
                fc.append((k0a, kind, src, cs2))
        else:
            fc.append((k0, kind, src, cs))
    for k0, kind, src, cs in fc:
        g = site.guards + cs
        cons = "%s: key of %s" % (site.root.qualname, _short(site.value))
        if target_common is None:
            rep.proved("R-C07-c", where, cons, "keys come from a file saved from a well-formed index", nontrivial=False)
            continue
        if kind == "explicit" and k0.op == "sub" and k0.args[0].op == "dkey" and tm.is_const(k0.args[1], 0):
            kind, src = "inherited", k0.args[0].args[0]
        if kind == "unknown" and k0.op == "param":
            kind = "caller"
        if kind == "same-dict":
            rep.proved("R-C07-c", where, cons, "re-stored under a key taken from the same entries dict")
            continue

        def differs(gg, kk):
            return guards_differ(gg, kk, target_common) or all(guards_differ(gg, kk, tc) for tc in tm.alts(target_common))

        if differs(g, k0):
            rep.proved("R-C07-c", where, cons, "a dominating test excludes key[0] == common")
            continue
        if kind == "inherited":
            # keys of a filtered comprehension: use its conditions
            ok_all = True
            detail = ""
            local_unknown = False
            for salt, scs in _alts_cond(src):
                gg = g + scs
                if salt.op == "comp" and salt.args[0] == "dict" and salt.args[1].op == "tuple":
                    inner_key = salt.args[1].args[0]
                    for lid in salt.args[2]:
                        for c in I.loopinfo[lid].get("conds", []):
                            gg = gg + [(c, True)]
                    ik0 = T("sub", inner_key, tm.const(0))
                    if differs(gg, ik0):
                        continue
                    if inner_key.op == "dkey" and inner_key.args[0].op == "param" and inner_key.args[0].args[0] in assumed_params:
                        ok_all = False
                        detail = "filtered comprehension does not exclude the common value"
                        continue
                if salt.op == "param" and salt.args[0] in assumed_params:
                    continue  # documented precondition of the partial-update methods
                if is_call(salt, "collections.defaultdict"):
                    # keys are created by dd[K].append(...): check every such K under its own guards
                    made = [e for e in I.events if e.kind == "call" and e["recv"] is not None and e["recv"].op == "sub" and e["recv"].args[0] == salt]
                    if made and all(any(differs(list(e.guards), kk[0]) for kk in first_components(e["recv"].args[1], I)) for e in made):
                        continue
                if salt.op == "alloc" and salt.args[0] == "dict":
                    # a plain local dict (a gathering table): its keys are those stored / setdefault-ed into it - check every
                    # such key under its own guards
                    made = [(e, e["index"]) for e in I.events if e.kind == "store_sub" and e["base"] == salt] + \
                           [(e, e["args"][0]) for e in I.events if e.kind == "call" and e["method"] in ("setdefault",) and e["recv"] == salt and e["args"]]
                    if made and all(any(differs(list(e.guards), kk[0]) for kk in first_components(k, I)) for e, k in made):
                        continue
                    if made:
                        local_unknown = True
                if salt.op == "alloc" and any(e.kind == "call" and e["method"] == "shift_common" and e["recv"] == salt and e["args"] and e.seq < site.ev.seq
                                               and (e["args"][0] == target_common or same_value(e["args"][0], target_common)) for e in I.events):
                    continue  # contract of shift_common(v): the object's common value is v afterwards (category values are never None)
                xc = common_of(salt, I, before=site.ev.seq)
                if guards_equal(gg, xc, target_common) or any(same_value(a, tc) or guards_equal(gg, a, tc) for a in tm.alts(xc) for tc in tm.alts(target_common)) \
                        and all(any(same_value(a, tc) or guards_equal(gg, a, tc) for tc in tm.alts(target_common)) for a in tm.alts(xc)):
                    continue
                ok_all = False
                detail = "key inherited from %s whose common value is not known to equal %s" % (tm.show(salt)[:40], tm.show(target_common)[:40])
            if ok_all:
                rep.proved("R-C07-c", where, cons, "key inherited from an index with the same common value (or a caller-supplied partial update, documented precondition)")
                continue
            if local_unknown:
                rep.undecided("R-C07-c", where, cons, "the key comes from a local gathering dict; its keys were not all shown to differ from the new common value where they were stored: %s" % detail)
                continue
            rep.violated("R-C07-c", where, cons,
                         "on this path the kept coordinate of an inherited key is never compared with the new common value: %s" % detail,
                         witness={"path": [tm.show(c)[:60] + (" is True" if p else " is False") for c, p in cs][-2:],
                                  "inputs": "iindex({(5,): [1]}, 0, (3,)).reindexed({0: 5}) keeps entry (5,) under common 5"})
            continue
        if kind == "caller" or (kind == "explicit" and k0.op == "param"):
            rep.proved("R-C07-c", where, cons, "key supplied by the caller (documented precondition)", nontrivial=False)
            continue
        rep.undecided("R-C07-c", where, cons, "cannot relate key[0] = %s to the common value %s" % (tm.show(k0)[:50], tm.show(target_common)[:50]))


def _explicit_differs(k0, tc, guards):
    # k0 is X.common (the OLD common) and a guard says new != X.common
    return guards_differ(guards, k0, tc)


def _short(v):
    names = []
    for x in tm.walk(v):
        if x.op == "call":
            n = tm.callee_name(x)
            if n:
                n = n.split(":")[-1].split(".")[-1]
                if n not in names:
                    names.append(n)
    return "/".join(names[:4]) or v.op


def analyse_root(prog, fi, rep, stats):
    I, fr, sites = enumerate_sites(prog, fi)
    assumed = ASSUMED.get(fi.qualname, ())
    # a parameter documented as a PARTIAL mapping of entries (update / union_update / ...) is not a well-formed index:
    # its arrays are increasing uint32 by precondition, but may be empty (set_if exists to drop those)
    an = Analyzer(I, fi, index_params=tuple(p for p in ("self", "other") if p not in assumed), assumed_params=assumed)
    for s in sites:
        v = s.value
        where = s.where()
        # intermediate Python lists (reindexed gathers lists first): must be overwritten later, unconditionally
        if all(a.op == "alloc" and a.args[0] == "list" for a in tm.alts(v)):
            base = s.ev["base"]
            later = [e for e in I.events if e.kind == "store_sub" and e["base"] == base and e.seq > s.ev.seq and len(e.loops) == 1
                     and any(same_value(x, base) for x in tm.walk(I.loopinfo[e.loops[0]].get("iter") or tm.NONE)) and not [g for g in e.guards if g not in s.guards and g[0] not in [c for c, _ in s.guards]]]
            rep.check(bool(later), "R-C07-a", where, "%s: intermediate list of arrays" % fi.qualname, "every key is rewritten with a merged array in a later loop over the same dict",
                      "a Python list is left as an entry value")
            stats["sites"] += 1
            tgt = s.target
            if tgt[0] == "ctor":
                key_rule(s, I, rep, tgt[1]["args"][1] if len(tgt[1]["args"]) > 1 else None, an.assumed_params)
            continue
        stats["sites"] += 1
        for alt, acs in _alts_cond(v):
            if alt == tm.NONE:
                continue
            value_rules(rep, an, fi, s, alt, s.guards + acs, where)
        # R-C07-c
        tgt = s.target
        if tgt[0] == "file":
            key_rule(s, I, rep, None, an.assumed_params)
        elif tgt[0] == "ctor":
            cev = tgt[1]
            key_rule(s, I, rep, cev["args"][1] if len(cev["args"]) > 1 else None, an.assumed_params)
        else:
            obj = tgt[1]
            # the common value this object has when the method returns: a later rebind of .common, else the current one
            later = [e for e in I.events if e.kind == "store_attr" and e["attr"] == "common" and e["base"] == obj and e.seq > s.ev.seq and e.stack == s.ev.stack]
            cur = common_of(obj, I, before=s.ev.seq)
            if later and s.ev.fi.qualname == "iindex.shift_common":
                key_rule(s, I, rep, later[-1]["value"], an.assumed_params)
            else:
                key_rule(s, I, rep, cur, an.assumed_params)
    return len(sites)


def prov_leaves(p):
    if p[0] == "mixed":
        out = []
        for q in p[1:]:
            out += prov_leaves(q)
        return out
    return [p[0]]


def value_rules(rep, an, fi, s, v, guards, where):
    f = an.facts(v, guards) or Facts()
    cons = "%s: %s" % (fi.qualname, _short(v))
    for a in f.assumed:
        rep.assume(a)
    flat = flat_guards(guards)
    # R-C07-a
    if f.su:
        rep.proved("R-C07-a", where, cons, "; ".join(dict.fromkeys(f.why))[:200])
    elif f.defect == "unsorted-merge":
        rep.violated("R-C07-a", where, cons, "row-id arrays of several entries are concatenated but never sorted",
                     witness={"inputs": "reindexed({1: 9, 2: 9}) with entries (1,): [5], (2,): [1] stores [5, 1]"})
    elif f.sorted_only:
        promised = any(c.op == "param" and c.args[0] == "assume_unique" and pol for c, pol in flat)
        if promised:
            rep.assume("assume_unique=True is the caller's promise that merged row-id lists are disjoint")
            rep.proved("R-C07-a", where, cons + " (assume_unique path)", "sorted by sort(); uniqueness is the caller's documented promise", nontrivial=False)
        else:
            rep.violated("R-C07-a", where, cons, "merged row-id lists are sorted but duplicates are kept (no de-duplication and no assume_unique promise on this path)",
                         witness={"inputs": "2-D index, reindexed mapping two values of one row... e.g. rows listed under both merged values: [3, 3]"})
    elif f.prov[0] == "append" or any("without a proof" in w for w in f.why):
        rep.violated("R-C07-a", where, cons, "the two parts are concatenated in an order that is not increasing: %s" % "; ".join(f.why)[-160:],
                     witness={"inputs": "append to a non-empty entry: ids of the appended block precede the old ones"})
    else:
        rep.undecided("R-C07-a", where, cons, "; ".join(f.why)[:200])
    # R-C07-b
    if f.nonempty or an.nonempty_by_guard(v, guards):
        rep.proved("R-C07-b", where, cons, "non-empty: inherited entry, dominating length/any() guard, or a key that exists only once a row was appended")
    elif _maybe_empty(f.prov):
        rep.violated("R-C07-b", where, cons, "the stored array can be empty and no guard drops it: a phantom entry for a value that occurs nowhere",
                     witness={"inputs": "e.g. append an index whose common value has no rows / filter away every row of an entry"})
    elif "assumed" in prov_leaves(f.prov) and fi.qualname in ("iindex.update", "iindex.union_update") and not f.maybe_none:
        rep.violated("R-C07-b", where, cons, "rows supplied by the caller are stored without the non-emptiness test that set_if applies: an empty row list for a key that is absent leaves a zero-length entry (a category reported although it occurs nowhere)",
                     witness={"inputs": "idx.update({(c,): rows[new == c] for c in categories}) where some category gets no row in the batch; idx.union_update({(5,): numpy.array([], dtype='uint32')})"})
    elif "assumed" in prov_leaves(f.prov) or f.maybe_none:
        rep.undecided("R-C07-b", where, cons, "emptiness of a caller-supplied value is not excluded")
    else:
        rep.undecided("R-C07-b", where, cons, "cannot show the stored array is non-empty (%s)" % (f.prov[0],))
    # R-C07-f
    if f.dtype == U32:
        rep.proved("R-C07-f", where, cons, "dtype uint32 on every path")
    elif "assumed" in prov_leaves(f.prov) and not [p for p in prov_leaves(f.prov) if p not in PROV_OK]:
        if _asarray_rowid(v, an):
            rep.proved("R-C07-f", where, cons, "caller-supplied arrays are converted by numpy.asarray(dtype=rowid_dtype) in the update methods", nontrivial=False)
        else:
            rep.proved("R-C07-f", where, cons, "value supplied by the caller of the public setter (documented precondition: a uint32 row-id array)", nontrivial=False)
            rep.assume("set_if(key, value): value is a strictly increasing uint32 array (public precondition)")
    elif f.dtype != "unknown":
        rep.violated("R-C07-f", where, cons, "stored array has dtype %s, not uint32" % f.dtype, witness={"inputs": "validate() raises: Index[...] is of dtype int64"})
    else:
        rep.undecided("R-C07-f", where, cons, "dtype not determined")
    # R-C07-de (RANGE): rows taken over from an existing index are only in range of an index with the SAME row count
    if s.target[0] == "ctor":
        rc = _ctor_rowcount(s.target[1], an.I)
        lv = set(prov_leaves(f.prov))
        if rc is not None and rc[0] == "term" and lv and lv <= {"inherited", "subset", "kernel", "merged"}:
            rep.violated("R-C07-de", where, cons + " (range)",
                         "the rows keep the numbers they had in the source index, but the index being built has %s rows: ids can be out of range (they must be renumbered)" % tm.show(rc[1])[:40],
                         witness={"inputs": "iindex.from_array([7, 8, 7, 8, 7, 8]).filtered(mask=[T, T, F, T, T, F], new_length=4): entry 7 keeps rows [0, 4] although the result has 4 rows"})
    # R-C07-de
    tag = f.prov[0]
    leaves = prov_leaves(f.prov)
    if tag in PROV_OK:
        rep.proved("R-C07-de", where, cons, PROV_OK[tag])
    elif leaves and all(p in PROV_OK for p in leaves):
        rep.proved("R-C07-de", where, cons, "; ".join(sorted({PROV_OK[p] for p in leaves}))[:240])
    else:
        rep.undecided("R-C07-de", where, cons, "provenance of the stored rows not recognised: %s" % (f.prov,))


def _ctor_rowcount(cev, I):
    """Row count of the index a constructor call builds: ('same', X) if it is X.shape[0] of an existing index X,
    ('term', e) for another expression, None if not determined."""
    args = cev["args"]
    shape = args[2] if len(args) > 2 else dict(cev["kwargs"]).get("shape")
    if shape is None:
        return None

    def first(t):
        if t.op == "attr" and t.args[1] == "shape":
            return ("same", t.args[0])
        if t.op == "tuple" and t.args:
            return classify(t.args[0])
        if t.op == "binop" and t.args[0] == "+":
            return first(t.args[1])
        if t.op == "call" and tm.callee_name(t) == "builtins.tuple" and t.args[1]:
            x = t.args[1][0]
            for a in tm.alts(x):
                if a.op == "alloc" and a in I.heap and I.heap[a].get("elts"):
                    return classify(I.heap[a]["elts"][0])
            return None
        if t.op in ("phi", "ifexp"):
            rs = [first(a) for a in tm.alts(t)]
            return rs[0] if rs and all(r == rs[0] for r in rs) else None
        return None

    def classify(e):
        if e.op == "sub" and e.args[0].op == "attr" and e.args[0].args[1] == "shape" and tm.is_const(e.args[1], 0):
            return ("same", e.args[0].args[0])
        if e.op in ("param", "call", "binop", "const"):
            return ("term", e)
        return None

    return first(shape)


def _maybe_empty(prov):
    """Provenance of a selection that is empty for some input."""
    if prov[0] in ("complement", "nonzero", "where", "subset", "renumbered"):
        return True
    if prov[0] == "shifted":
        return _maybe_empty(prov[1])
    if prov[0] == "subset" and len(prov) > 1 and isinstance(prov[1], str):
        return True
    return False


def _strip(v):
    while method(v) in ("astype", "copy"):
        v = recv(v)
    return v


def _asarray_rowid(v, an):
    return tm.contains(v, lambda x: (is_call(x, "numpy.asarray") or is_call(x, "numpy.array")) and an.is_rowid_dtype(tm.kwarg(x, "dtype")))


def update_order_rule(prog, rep):
    """R-C07-de (CLEARED-FIRST): update() removes the target cells from every entry before it
    unions the new rows in, so no row ends up under two values of one column."""
    fi = prog.func("iindexes", "iindex.update")
    I = Interp(prog, hints.param_types_for("iindexes"), hints.FIELD_TYPES, inline=False)
    I.run(fi)
    self_t = tm.param("self")
    unions = [e for e in I.events if e.kind == "call" and e["method"] in ("union_update",) and e["recv"] == self_t]
    clears = [e for e in I.events if (e.kind in ("store_sub", "del_sub") and e["base"] == self_t)]
    mask_stores = [e for e in I.events if e.kind == "store_sub" and e["base"].op == "call" and tm.callee_name(e["base"]) == "numpy.zeros"]
    ok = bool(unions) and bool(clears) and all(c.seq < unions[0].seq for c in clears) and bool(mask_stores) and all(m.seq < clears[0].seq for m in mask_stores)
    # the clearing pass iterates ALL entries of self and masks by the cells named in the update
    covers_all = any(I.loopinfo[l].get("iter") is not None and tm.contains(I.loopinfo[l]["iter"], lambda x: x == self_t) for c in clears for l in c.loops)
    rep.check(ok and covers_all, "R-C07-de", fi.fq, "update: old associations of the target cells are removed from every entry before the new rows are united in",
              "mark target cells -> mask every entry -> union_update", "the union happens before (or without) clearing the target cells from the other entries: a row can be listed under two values",
              witness={"history": "update({(2,): [0]}) on an index where row 0 is listed under value 1"})


def update_clear_cases(prog, rep):
    """R-C07-de (CLEARED-COMPLETELY): inside update()'s clearing pass, an entry that has rows among the
    target cells is either re-stored without them (some rows remain) or scheduled for deletion (none
    remains) - on EVERY path, with no further condition."""
    from sa.symex import flat_guards
    fi = prog.func("iindexes", "iindex.update")
    I = Interp(prog, hints.param_types_for("iindexes"), hints.FIELD_TYPES, inline=False)
    I.run(fi)
    self_t = tm.param("self")
    where = fi.fq

    def is_red(c, names):
        return (c.op == "call" and ((tm.callee_name(c) or "") in tuple("numpy." + n for n in names) or (tm.callee_name(c) or "") in tuple("." + n for n in names)))

    # actions inside a loop over self's entries
    acts = []
    for e in I.events:
        if not e.loops or e.stack:
            continue
        in_self_loop = any(I.loopinfo[l].get("iter") is not None and tm.contains(I.loopinfo[l]["iter"], lambda x: x == self_t) for l in e.loops)
        if not in_self_loop:
            continue
        if e.kind == "store_sub" and e["base"] == self_t and tm.contains(e["value"], lambda x: x.op == "unop" and x.args[0] == "~"):
            acts.append(("restore", e))
        elif e.kind == "del_sub" and e["base"] == self_t:
            acts.append(("delete", e))
        elif e.kind == "call" and e["method"] == "append" and e["recv"] is not None and e["recv"].op == "alloc" and e["args"] and e["args"][0].op == "dkey":
            # deferred deletion list: must be drained by `del self[k]` afterwards
            lst = e["recv"]
            drained = any(d.kind == "del_sub" and d["base"] == self_t and d.seq > e.seq and tm.contains(d["index"], lambda x: x.op == "iter" and x.args[0] == lst) for d in I.events)
            if drained:
                acts.append(("delete", e))
    if not acts:
        rep.undecided("R-C07-de", where, "update: clearing pass", "no re-store / deletion of an existing entry found inside a loop over self")
        return
    # classify each action's guards: atoms over the match mask (any / all) and other atoms
    cases = {}
    for kind, e in acts:
        g = flat_guards(e.guards)
        anyp = [pol for c, pol in g if is_red(c, ("any", "count_nonzero"))]
        allp = [pol for c, pol in g if is_red(c, ("all",))]
        extra = [(c, pol) for c, pol in g if not is_red(c, ("any", "count_nonzero", "all"))]
        cases.setdefault(kind, []).append((anyp, allp, extra, e))
    for kind, need_all, text in (("delete", True, "every row of the entry is a target cell -> the entry is deleted"), ("restore", False, "some rows remain -> the entry is re-stored without the target rows")):
        found = [x for x in cases.get(kind, []) if (need_all in x[1] or not x[1])]
        cons = "update: " + text
        if not found:
            rep.violated("R-C07-de", where, cons, "no such action in the clearing pass: rows named in the update stay under their old value",
                         witness={"history": "update({(2,): [0]}) on an index where row 0 is listed under value 1"})
            continue
        uncond = [x for x in found if not x[2]]
        if uncond:
            rep.proved("R-C07-de", "%s@%d" % (where, uncond[0][3].line), cons, "taken on every such path (guards: only the any/all tests of the match mask)")
        else:
            x = found[0]
            rep.violated("R-C07-de", "%s@%d" % (where, x[3].line), cons,
                         "the action is taken only when additionally %s: on the other path the entry keeps rows that the update moves elsewhere, so a row ends up listed under two values"
                         % " and ".join("%s is %s" % (tm.show(c)[:40], p) for c, p in x[2]),
                         witness={"history": "iindex({(1,): [0,1,2], (2,): [5]}, 0, (8,)).update({(1,): [0,1], (2,): [2]}): row 2 is listed under 1 and under 2"})


def complement_routine(prog, rep):
    """R-C07-de (COMPLEMENT): common_rowids(col) = the rows of that column under NO entry: start from an all-True mask of
    shape[0] rows, clear exactly the rows of the entries of that column (every entry for a 1-D index), return the
    positions that are left as uint32."""
    fi = prog.func("iindexes", "iindex.common_rowids")
    I = Interp(prog, hints.param_types_for("iindexes"), hints.FIELD_TYPES, inline=False)
    fr = I.run(fi)
    where = fi.fq
    self_t = tm.param("self")
    col = tm.param(fi.params()[1]) if len(fi.params()) > 1 else None
    masks = [e for e in I.events if e.kind == "call" and e["name"] in ("numpy.ones", "numpy.full") and not e.stack]
    okm = len(masks) == 1 and masks[0]["args"] and masks[0]["args"][0] == T("sub", T("attr", self_t, "shape"), tm.const(0)) and tm.dotted(dict(masks[0]["kwargs"]).get("dtype", tm.NONE)) == "builtins.bool"
    rep.check(okm, "R-C07-de", where, "common_rowids: mask = ones(number of rows, bool)", "", "the mask is not an all-True boolean array with one element per row",
              witness={"inputs": "any index: rows are missing from / added to the common value's rows"})
    if not okm:
        return
    mask = masks[0]["result"]
    clears = [e for e in I.events if e.kind == "store_sub" and e["base"] == mask and not e.stack]
    if len(clears) != 2 or not all(tm.is_const(e["value"], False) for e in clears):
        rep.undecided("R-C07-de", where, "common_rowids: clearing pass", "expected two stores `mask[rows] = False` (2-D and 1-D branch), found %d" % len(clears))
        return
    for e in clears:
        g = flat_guards(e.guards)
        two_d = any(c.op == "cmp" and c.args[0] == ">" and pol and tm.contains(c, lambda x: x.op == "attr" and x.args[1] == "shape") for c, pol in g)
        w = "%s@%d" % (where, e.line)
        idx = e["index"]
        rows_ok = idx.op == "dval" and idx.args[0] == self_t or (idx.op == "iter" and tm.contains(idx, lambda x: x == self_t))
        rep.check(rows_ok, "R-C07-de", w, "common_rowids (%s): the rows cleared are an entry's rows" % ("2-D" if two_d else "1-D"), "", "cleared index is %s" % tm.show(idx)[:40])
        data = [(c, pol) for c, pol in g if tm.contains(c, lambda x: x.op == "dkey")]
        if two_d:
            ok = len(data) == 1 and data[0][1] and data[0][0].op == "cmp" and data[0][0].args[0] == "==" and col is not None \
                and {tm.show(data[0][0].args[1]), tm.show(data[0][0].args[2])} == {tm.show(T("sub", T("dkey", self_t, idx.args[1] if idx.op == "dval" else None), tm.const(1))), tm.show(col)}
            rep.check(ok, "R-C07-de", w, "common_rowids (2-D): exactly the entries of the requested column are cleared (coords[1] == colindex)", "",
                      "the column test is %s: rows of other columns are cleared too (or rows of this column are kept), so the common value's rows of the column are wrong" % [tm.show(c)[:40] for c, p in data],
                      witness={"inputs": "2-D index with entries in columns 0 and 1: common_rowids(1) also drops the rows listed in column 0"})
        else:
            rep.check(not data, "R-C07-de", w, "common_rowids (1-D): every entry's rows are cleared", "", "entries are cleared only under %s" % [tm.show(c)[:40] for c, p in data])
    rets = [a for v, g in fr.returns for a in tm.alts(v)]
    okr = bool(rets) and all(tm.contains(r, lambda x: x.op == "call" and tm.callee_name(x) in (".nonzero", "numpy.nonzero", "numpy.flatnonzero", "numpy.where") and tm.contains(x, lambda y: y == mask)) for r in rets)
    rep.check(okr, "R-C07-de", where, "common_rowids returns the positions still True in the mask", "", "the result is not the set of positions left in the mask")


def main(tier):
    rep = core.Report("C07", level="other", rules=RULES, tier=tier,
                      declined="nothing structural; what is assumed: arrays read from existing indexes are well-formed (induction hypothesis), caller-supplied partial entries of update/union_update/... satisfy their documented preconditions")
    rep.trusted_base = ["CPython ast", "symbolic walker with inlining", "row-id transfer table in sa/rowids.py (where/nonzero/arange increasing; mask selection and +scalar keep order; kernels per C08)"]
    rep.assume("induction hypothesis: entries read from self / other / indexes passed in are well-formed")
    prog = Program()
    ii = prog.cls("iindexes", "iindex")
    roots = [f for n, f in ii.methods.items() if n not in ("__init__",) and not (n.startswith("_") and not n.startswith("__"))] + [prog.func("iindexes", "column_stack"), prog.func("indxio", "IndxIO.load")]  # private helpers are read where they are called (inlined)
    stats = {"sites": 0}
    for fi in roots:
        analyse_root(prog, fi, rep, stats)
    update_order_rule(prog, rep)
    update_clear_cases(prog, rep)
    complement_routine(prog, rep)
    # R-C07-g: a requested common value is honoured whatever its truth value (column_stack relies on shift_common(v) having
    # re-encoded every input: an input left at its old common keeps entries under the new one) - decided by C06's rule m
    import c06
    sub6 = core.Report("C06", level="other", rules=c06.RULES, tier=tier)
    c06.rule_m(prog, sub6)
    k6 = 0
    for o in sub6.obls:
        k6 += 1
        rep.add("R-C07-g", o.where, "[%s] %s" % (o.rule, o.construct), o.status, o.detail, True, o.witness)
    rep.floor("R-C07-g", 3, k6)
    # R-C07-h: an operation modifies only the receiver's own storage. Row ids written in place into an array that another
    # index still holds (the operand of append / update, an index that shares arrays after column_stack(copy=False) ...)
    # make THAT index ill-formed: its row ids leave its own row range. The frame analysis of C06 rule a / C17.
    import c17
    st17 = {"events": 0, "mods": 0, "diagnostic": {}, "exceptions": {}, "regions": 0, "shortcuts": 0}
    k17 = 0
    for name17, f17 in ii.methods.items():
        if name17 == "__init__" or (name17.startswith("_") and not name17.startswith("__")):
            continue
        c17.analyse_root(prog, f17, "mutator" if name17 in c06.MUTATORS else "pure", rep, st17, RA="R-C07-h", RB="R-C07-h", extra=False)
        k17 += 1
    c17.analyse_root(prog, prog.func("iindexes", "column_stack"), "pure", rep, st17, RA="R-C07-h", RB="R-C07-h", extra=False)
    rep.floor("R-C07-h", 22, k17 + 1)
    # R-C07-i: what IndxIO.load hands back (the roots above include it) becomes an index again: keys are tuples of Python
    # ints and the common value is a Python int (imported from the INDX reader analysis, R-C10-d).  A NumPy scalar as the
    # common value compares equal to the int, yet shift_common() then stores it inside a key and extents wrap at its width
    from sa import indx
    C10, _info, _W, _R = indx.analyse(prog)
    k10 = 0
    for rule10, status10, where10, cons10, detail10, wit10 in C10.items:
        if rule10 == "R-C10-d":
            k10 += 1
            rep.add("R-C07-i", where10, "[R-C10-d] %s" % cons10, status10, detail10, True, wit10)
    rep.floor("R-C07-i", 4, k10)
    # R-C07-j: column_stack gives the result the row count of ONE input, so "row ids below the row count" holds for the
    # stacked index only if every input has that row count: the agreement test must cover all inputs
    import ast as _ast
    fcs = prog.func("iindexes", "column_stack")
    tests = []
    for st in _ast.walk(fcs.node):
        if isinstance(st, _ast.If) and any(isinstance(x, _ast.Raise) for b in st.body for x in _ast.walk(b)):
            for c in _ast.walk(st.test):
                if isinstance(c, (_ast.SetComp, _ast.GeneratorExp, _ast.ListComp)) and any(isinstance(n, _ast.Attribute) and n.attr == "shape" for n in _ast.walk(c.elt)) \
                        and any(isinstance(n, _ast.Subscript) and isinstance(n.slice, _ast.Constant) and n.slice.value == 0 for n in _ast.walk(c.elt)):
                    tests.append((st, c))
    cons_j = "column_stack: the equal-row-count test covers every input"
    if not tests:
        rep.undecided("R-C07-j", fcs.fq, cons_j, "no `raise` guarded by a comparison of the inputs' shape[0] found (anchor moved)")
    else:
        st, c = tests[0]
        filt = [i for g in c.generators for i in g.ifs]
        if filt:
            rep.violated("R-C07-j", "%s@%d" % (fcs.fq, st.lineno), cons_j,
                         "inputs with `%s` false are exempt from the row-count agreement, but the stacked index takes its row count from one input (iindexes[0].shape[0]): with an exempt input first the result reports 0 rows while its entries list the other inputs' row ids"
                         % _ast.unparse(filt[0])[:50], witness={"inputs": "column_stack([iindex({}, 0, (0,)), from_array([1, 0, 0, 1, 0])]): shape (0, 2), entry (1, 1) -> rows [0, 3]"})
        else:
            rep.proved("R-C07-j", "%s@%d" % (fcs.fq, st.lineno), cons_j, _ast.unparse(st.test)[:70])
    rep.analysed["roots"] = [f.fq for f in roots]
    rep.analysed["store_sites"] = stats["sites"]
    rep.floor("R-C07-a", 30, stats["sites"])
    return rep.finish()


if __name__ == "__main__":
    core.run_main("C07", main)
