#!/venv/bin/python
"""C16 - pooled evaluation is schedule-independent.

Static effect / race analysis (engine F mod-ref with the task closure's captured
variables as roots).  For ccube.calculate and xcube.calculate:
  R-C16-a  every write a task performs is task-LOCAL, PARTITIONED by the task's own
           sub-cube coordinates, or a named DIAGNOSTIC;
  R-C16-b  the unpartitioned case arises only when the product has a single element,
           and the block coordinates are the task argument's coordinates, in order;
  R-C16-c  the dispatch is a blocking pool call on a pool created for this call;
  R-C16-d  the serial branch applies the same function to the same iterable;
  R-C16-e  reduce runs after the barrier, outside the task.
The pooled path is never executed by the tests; the analysis does not need to run it.
"""
import ast
import os
import sys

sys.path.insert(0, os.path.dirname(os.path.dirname(os.path.abspath(__file__))))
from sa import core, own, tasks, terms as tm
from sa.terms import T
from sa.pyfront import Program

RULES = {
    "R-C16-h": "the diagnostics that tasks update without synchronisation (tracing counters, intersection_data_points) are never read for a decision: no raise / return of calculate is conditional on them",
    "R-C16-g": "the result does not depend on which thread runs a task: no attribute of a threading.local() is read on the evaluation path unless the same function assigns it (a value set at import time or by the calling thread does not exist in a pool worker)",
    "R-C16-f": "the compiled kernels called from the tasks write only buffers allocated inside the same call (no module-level / `global` workspace shared by the pool threads, whose merge loops run without the GIL)",
    "R-C16-a": "every write inside a pool task is task-local, reached through region[tuple(flattened_slice)] with a task-argument-only index, or a named diagnostic",
    "R-C16-b": "whole-region (unpartitioned) access happens only when there is exactly one task; block coordinates are the concatenation of the task's own coordinates",
    "R-C16-c": "dispatch is a blocking, re-raising pool call (map/starmap) on a pool object created for this call",
    "R-C16-d": "serial and pooled branches apply the same task function to the same iterable",
    "R-C16-e": "reduce runs after the barrier on the calling thread, once per aggregate, never inside a task",
}


def is_fs_index(idx, fs_terms):
    """idx is tuple(flattened_slice) (or flattened_slice itself as a tuple)."""
    for a in tm.alts(idx):
        if a.op == "call" and tm.callee_name(a) == "builtins.tuple" and a.args[1] and a.args[1][0] in fs_terms:
            continue
        if a in fs_terms:
            continue
        return False
    return True


def analyse_one(prog, module, clsname, rep):
    info = tasks.analyse_cube(prog, module, clsname)
    I = info.I
    where = info.fi.fq
    rep.analysed.setdefault("functions", []).append(where)
    if I.depth_cuts:
        rep.undecided("R-C16-a", where, "inlining depth", "call chain cut: %s" % [(a.qualname, b.qualname) for a, b, _ in I.depth_cuts][:3])
    # ---------------- dispatch (R-C16-c)
    disp = [ev for ev in info.pool_calls if ev["method"] in (tasks.POOL_BLOCKING | tasks.POOL_NONBLOCKING | {"apply"})]
    rep.floors.setdefault("R-C16-c", (0, 0))
    if not info.callbacks or not disp:
        rep.undecided("R-C16-c", where, "pool dispatch", "no pool dispatch of a task closure found in calculate (anchor vanished)")
        return info
    for ev in disp:
        m = ev["method"]
        w = "%s@%d" % (where, ev.line)
        if m in tasks.POOL_BLOCKING:
            rep.proved("R-C16-c", w, "dispatch pool.%s" % m, "blocking call: returns after every task finished and re-raises a worker exception")
        else:
            # a lazy / async API is fine only if its result is exhausted before reduce
            consumed = False
            res = ev["result"]
            for e2 in info.top:
                if e2.kind == "call" and e2.seq > ev.seq and e2["name"] in ("builtins.list", "builtins.tuple", "builtins.sum") and res in e2["args"]:
                    consumed = True
                if e2.kind == "call" and e2.seq > ev.seq and e2["method"] in ("get", "wait", "join") and e2["recv"] == res:
                    consumed = True
            for lid, li in I.loopinfo.items():
                if li.get("iter") == res and li.get("kind") == "for" and li.get("fi") is info.fi:
                    consumed = True
            rep.check(consumed, "R-C16-c", w, "dispatch pool.%s" % m, "non-blocking API whose result is exhausted before reduce",
                      "pool.%s returns before the tasks have run: reduce can read regions that are still being filled" % m,
                      witness={"schedule": "worker still inside fill_one_cube while the caller runs func.reduce"})
        # every element of the iterable is dispatched: a chunk size (3rd argument / chunksize=) must be at least 1
        cs = dict(ev["kwargs"]).get("chunksize", ev["args"][2] if len(ev["args"]) > 2 else None)
        if cs is not None and not (cs == tm.NONE):
            okc = None
            if tm.is_const(cs) and isinstance(cs.args[1], int):
                okc = cs.args[1] >= 1
            elif cs.op == "call" and tm.callee_name(cs) == "builtins.max" and any(tm.is_const(a) and isinstance(a.args[1], int) and a.args[1] >= 1 for a in cs.args[1]):
                okc = True
            elif cs.op == "binop" and cs.args[0] in ("//", "/") and not tm.contains(cs, lambda x: x.op == "call" and tm.callee_name(x) == "builtins.max"):
                okc = False
            if okc is True:
                rep.proved("R-C16-c", w, "dispatch chunk size is at least 1", tm.show(cs)[:60])
            elif okc is False:
                rep.violated("R-C16-c", w, "dispatch chunk size is at least 1",
                             "chunksize = %s can be 0 (more workers than sub-cubes): Pool.map then dispatches NO task and returns at once, reduce runs on the untouched initial regions" % tm.show(cs)[:60],
                             witness={"schedule": "pool size 4 (the default) with 3 sub-cubes: chunksize 0, nothing is filled, no exception"})
            else:
                rep.undecided("R-C16-c", w, "dispatch chunk size is at least 1", "cannot bound %s from below" % tm.show(cs)[:60])
        # pool created per call
        pool = ev["recv"]
        fresh_pool = all(a.op == "call" for a in tm.alts(pool)) and not tm.contains(pool, lambda x: x.op == "attr" and x.args[0] == tm.param("self") and x.args[1] in ("pool", "_pool"))
        top_ids = {id(e3) for e3 in info.top}
        created_here = any(e2.kind == "call" and e2.seq < ev.seq and id(e2) in top_ids and e2["result"] == pool for e2 in I.events)
        rep.check(fresh_pool and created_here, "R-C16-c", w, "pool object is created inside this calculate call",
                  "constructed at the dispatch site", "the pool is cached outside the call (shared between calls/threads): %s" % tm.show(pool)[:80])
    # ---------------- serial twin (R-C16-d)
    for cb in info.callbacks:
        task_fi = cb["resolved"][0]
        ser = [ev for ev in info.serial_calls if task_fi in ev["resolved"]]
        disp_ev = [ev for ev in disp if ev.node is cb.node]
        ok = False
        detail = "no serial invocation of the task function found"
        if ser and disp_ev:
            it_pool = disp_ev[0]["args"][1] if len(disp_ev[0]["args"]) > 1 else None
            for s in ser:
                a = s["args"][0] if s["args"] else None
                if a is not None and a.op == "iter" and it_pool is not None:
                    ok = _same_modulo_ids(a.args[0], it_pool, I)
                    detail = "serial iterates %s, pool maps over %s" % (tm.show(a.args[0])[:60], tm.show(it_pool)[:60])
        if not ser:
            rep.undecided("R-C16-d", where, "serial branch runs %s over the same iterable" % task_fi.qualname.split(".")[-1], detail + " (the serial form is not one the analysis recognises)")
        else:
            rep.check(ok, "R-C16-d", where, "serial branch runs %s over the same iterable" % task_fi.qualname.split(".")[-1], "same closure, structurally identical iterable", detail)
        # pooled and serial under complementary guards of one test
        if ser and disp_ev:
            gp = [(tm.show(c), p) for c, p in disp_ev[0].guards]
            gs = [(tm.show(c), p) for c, p in ser[0].guards]
            comp = any((c, not p) in gs for c, p in gp)
            rep.check(comp, "R-C16-d", where, "pooled and serial dispatch are the two branches of one test", "", "guards %s vs %s" % (gp[-1:], gs[-1:]))

    # ---------------- writes inside a task (R-C16-a)
    ctx = own.OwnCtx(I)
    n_local = n_part = n_diag = n_whole = 0
    for cb in info.callbacks:
        task_fi = cb["resolved"][0]
        clo = tasks.closure_of(info, task_fi)
        outside = tasks.outside_terms(info, clo, cb)
        taskarg = cb["args"][0]
        evs = tasks.task_events(info, cb)
        rep.analysed.setdefault("task_events", {})[task_fi.fq] = len(evs)
        # flattened_slice: local of the task whose leaves are the task argument only
        fs_terms = set()
        task_ev_ids = set(id(e) for e in evs)
        all_mods = own.mods(I, ctx)
        path_cache = {}
        for m in all_mods:
            if id(m.ev) not in task_ev_ids:
                continue
            if m.target not in path_cache:
                path_cache[m.target] = list(tasks.derivation_paths(m.target, I, outside))
            for lab, steps, conds in path_cache[m.target]:
                for kind_, idx in steps:
                    if kind_ != "sub" or idx is None:
                        continue
                    for ia in tm.alts(idx):
                        if ia.op == "call" and tm.callee_name(ia) == "builtins.tuple" and ia.args[1]:
                            a = ia.args[1][0]
                            lv = tasks.leaves(a, I, stop=(taskarg,))
                            if lv and all(y == taskarg for y in lv):
                                fs_terms.add(a)
        diag_storage = set()
        for ev in I.events:
            if ev.kind == "store_attr" and ev["attr"] in tasks.DIAG_ATTRS:
                for x in tm.walk(ev["value"]):
                    if x.op == "alloc":
                        diag_storage.add(x)
                        for _, v in I.heap.get(x, {}).get("items", []):
                            for y in tm.walk(v):
                                if y.op == "alloc":
                                    diag_storage.add(y)
        for m in all_mods:
            if id(m.ev) not in task_ev_ids:
                continue
            w = "%s@%d" % (m.ev.fi.fq, m.ev.line)
            cons = "task %s: %s" % (task_fi.qualname.split(".")[-1].strip("<>"), m.what)
            # diagnostics by name
            if m.ev.kind in ("store_attr",) and m.ev["attr"] in tasks.DIAG_ATTRS:
                n_diag += 1
                continue
            tgt = m.target
            if tm.contains(tgt, lambda x: x.op == "attr" and x.args[1] in tasks.DIAG_ATTRS) or any(a in diag_storage for a in tm.walk(tgt) if a.op == "alloc"):
                n_diag += 1
                continue
            # where was the target's storage allocated?
            paths = path_cache.get(tgt)
            if paths is None:
                paths = list(tasks.derivation_paths(tgt, I, outside))
            rs = own.roots(tgt, ctx)
            shared_param = [r for r in rs if r[0] in ("PARAM", "GLOBAL")]
            unknown = [r for r in rs if r[0] == "UNKNOWN"]
            if not paths and not shared_param and not unknown:
                n_local += 1
                continue
            if unknown:
                rep.undecided("R-C16-a", w, cons, "storage comes from a callee outside the summary table: %s" % unknown)
                continue
            if shared_param and not paths and m.what.startswith("overwrite_input=") and all(str(r[-1]).endswith("[]") for r in shared_param):
                # a subscripted operand: a boolean-mask selection is a private copy (free to overwrite), a slice is a view
                rep.undecided("R-C16-a", w, cons, "the overwritten operand is a subscript of shared storage %s: selection (copy) or view?" % (sorted(shared_param)[0],))
                continue
            if shared_param and not paths:
                rep.violated("R-C16-a", w, cons, "a task writes %s, which every task shares (not a per-task block, not a named diagnostic)" % (sorted(shared_param)[0],),
                             witness={"statement": m.ev.src()[:100], "schedule": "two tasks interleave on this store"})
                continue
            bad = None
            for lab, steps, conds in paths:
                subs = [s for s in steps if s[0] == "sub"]
                if any(is_fs_index(s[1], fs_terms) for s in subs):
                    n_part += 1
                    continue
                # whole-region alternative: allowed only under `not flattened_slice`
                def _fs_test(c):
                    # `flattened_slice` itself, or tuple(flattened_slice) (the block index computed once), used as a truth value
                    return c in fs_terms or (c.op == "call" and tm.callee_name(c) == "builtins.tuple" and c.args[1] and c.args[1][0] in fs_terms)
                if any((_fs_test(c) and pol is False) for c, pol in conds) or any((_fs_test(c) and pol is False) for c, pol in m.ev.guards):
                    n_whole += 1
                    continue
                bad = (lab, steps, conds)
            if bad:
                lab, steps, conds = bad
                rep.violated("R-C16-a", w, cons,
                             "a task writes storage captured from the enclosing call ('%s') without selecting its own block: every task shares it" % lab,
                             witness={"statement": m.ev.src()[:100], "captured": lab, "schedule": "two tasks interleave on this store"})
        if not fs_terms:
            rep.undecided("R-C16-b", where, "block coordinates", "no tuple(<coordinates derived from the task argument>) found in the task")
        else:
            # R-C16-b: flattened_slice is the concatenation, in order, of the task argument's coordinates
            for fs in fs_terms:
                ok, why = _is_concat_of_taskarg(fs, taskarg, I)
                cons = "task %s: block coordinates" % task_fi.qualname.split(".")[-1].strip("<>")
                if ok is None:
                    rep.undecided("R-C16-b", where, cons, why)
                else:
                    rep.check(ok, "R-C16-b", where, cons,
                              "flattened_slice enumerates the task argument's per-dimension coordinates in order (%s)" % why, why,
                              witness={"schedule": "two tasks whose coordinates agree on the kept positions fill the same block"})
    rep.extra.setdefault("write_classes", {})[clsname] = {"local": n_local, "partitioned": n_part, "diagnostic": n_diag, "whole_region_when_single_task": n_whole}
    total = n_local + n_part + n_diag + n_whole
    if total:
        rep.proved("R-C16-a", where, "all task writes classified",
                   "%d local, %d partitioned by tuple(flattened_slice), %d whole-region under `not flattened_slice`, %d named diagnostics" % (n_local, n_part, n_whole, n_diag))
    rep.floors["R-C16-a"] = (20, rep.floors.get("R-C16-a", (0, 0))[1] + total)

    # ---------------- R-C16-h: the named diagnostics (tracing counters, intersection_data_points) are updated without
    # synchronisation by design - harmless only while nothing DECIDES on them
    diag_allocs = set()
    for ev0 in I.events:
        if ev0.kind == "store_attr" and ev0["attr"] in tasks.DIAG_ATTRS:
            diag_allocs.update(x for x in tm.walk(ev0["value"]) if x.op == "alloc")

    def reads_diag(t, depth=0):
        """does t read a diagnostic attribute - directly, or through the iterable of a comprehension / loop it contains"""
        if depth > 6:
            return False
        for x in tm.walk(t):
            if (x.op == "attr" and x.args[1] in tasks.DIAG_ATTRS) or (x.op == "alloc" and x in diag_allocs):
                return True
            lids = []
            if x.op == "comp":
                lids = list(x.args[2])
            elif x.op in ("iter", "dkey", "dval", "enumidx") and len(x.args) > 1:
                lids = [x.args[1]]
            for lid in lids:
                it = I.loopinfo.get(lid, {}).get("iter") if isinstance(lid, str) else None
                if it is not None and reads_diag(it, depth + 1):
                    return True
        return False
    dec = [ev for ev in I.events if ev.kind in ("raise", "return") and not ev.stack and any(reads_diag(c) for c, pol in ev.guards)]
    if dec:
        ev = dec[0]
        rep.violated("R-C16-h", "%s@%d" % (where, ev.line), "no decision of calculate depends on a diagnostic counter",
                     "a %s in calculate is conditional on %s: the pool tasks update that counter with an unsynchronised read-modify-write (`+= 1`), an update is lost when two workers interleave inside it, and the decision differs from the serial run"
                     % (ev.kind, [tm.show(c)[:50] for c, pol in ev.guards if reads_diag(c)][0]),
                     witness={"schedule": "two workers: one is pre-empted between reading and writing back the counter while the other completes a fill"})
    else:
        rep.proved("R-C16-h", where, "no decision of calculate depends on a diagnostic counter", "no raise / return guarded by %s" % sorted(tasks.DIAG_ATTRS)[:4])
    # ---------------- reduce after the barrier (R-C16-e)
    reduces = [ev for ev in I.events if ev.kind == "call" and ev["method"] == "reduce" and ev["recv"] is not None and ev["resolved"]]
    last_dispatch = max([ev.seq for ev in disp] + [ev.seq for ev in info.serial_calls])
    inside = [ev for ev in reduces if ev.stack and any(s[0] in info.task_fis for s in ev.stack)]
    toplevel = [ev for ev in reduces if not ev.stack]
    rep.check(bool(toplevel) and all(ev.seq > last_dispatch for ev in toplevel) and not inside, "R-C16-e", where, "reduce placement",
              "%d reduce call site(s), all after the dispatch and outside the task" % len(toplevel),
              "reduce is called %s" % ("inside the task" if inside else "before the tasks are dispatched"))
    return info


def _derives_from(x, taskarg):
    return x == taskarg or tm.contains(x, lambda y: y == taskarg)


def _same_modulo_ids(a, b, I):
    """Structural equality ignoring loop / allocation identifiers (two evaluations of self.product())."""
    return _strip(a) == _strip(b)


def _strip(t):
    s = tm.show(t, 0)
    import re

    s = re.sub(r"<\('?L\d+'?,?[^>]*\)>|<L\d+>", "<L>", s)
    s = re.sub(r"@\d+#\d+", "@", s)
    s = re.sub(r"closure:c\d+", "closure", s)
    return s


def _is_concat_of_taskarg(fs, taskarg, I):
    """flattened_slice = [e for coords in <per-dim coords of the task arg> (if ...) for e in coords]"""
    while fs.op == "call" and tm.callee_name(fs) in ("builtins.list", "builtins.tuple") and len(fs.args[1]) == 1 and not fs.args[2]:
        fs = fs.args[1][0]  # list(x) / tuple(x): the same elements in the same order
    if fs.op == "sub" and fs.args[1].op == "slice":
        return False, "only a slice of the task's coordinates selects the block: %s" % tm.show(fs)[:80]
    if fs.op == "call" and tm.callee_name(fs) in ("builtins.reversed", "builtins.sorted"):
        return False, "block coordinates are reordered: %s" % tm.show(fs)[:80]
    if fs.op == "call" and tm.callee_name(fs) in ("itertools.chain.from_iterable", "itertools.chain") and not fs.args[2]:
        # chain.from_iterable(X) / chain(*X): the concatenation, in order, of X's elements
        a = fs.args[1]
        if tm.callee_name(fs) == "itertools.chain.from_iterable" and len(a) == 1:
            return _projects_taskarg(a[0], taskarg, I)
        if tm.callee_name(fs) == "itertools.chain" and len(a) == 1 and a[0].op == "starred":
            return _projects_taskarg(a[0].args[0], taskarg, I)
        return None, "flattened_slice is a chain() of something else than the task's coordinates: %s" % tm.show(fs)[:80]
    if fs.op != "comp" or len(fs.args[2]) != 2:
        return None, "flattened_slice is not the recognised two-level comprehension: %s" % tm.show(fs)[:80]
    outer, inner = fs.args[2]
    elt = fs.args[1]
    it_in = I.loopinfo[inner]["iter"]
    it_out = I.loopinfo[outer]["iter"]
    if elt != T("iter", it_in, inner):
        return False, "element is not the inner coordinate"
    if it_in != T("iter", it_out, outer):
        return False, "inner loop does not iterate the outer element"
    bad = _filtered(I.loopinfo[outer], outer) or _filtered(I.loopinfo[inner], inner)
    if bad:
        return False, bad
    return _projects_taskarg(it_out, taskarg, I)


def _filtered(li, lid):
    """A comprehension filter other than `<element> is not None` (a dimension without coordinates) drops coordinates."""
    el = T("iter", li["iter"], lid)
    for c in li.get("conds") or ():
        if c.op == "cmp" and c.args[0] == "is not" and c.args[1] == el and c.args[2] == tm.NONE:
            continue
        return "coordinates are filtered by `%s`: two tasks that differ only in a dropped coordinate select the same block" % tm.show(c)[:60]
    return None


def _projects_taskarg(it_out, taskarg, I):
    # outer iterable: the task argument itself, or an order-preserving comprehension / list over it
    src = it_out
    hops = 0
    while src != taskarg and hops < 4:
        hops += 1
        if src.op == "comp" and len(src.args[2]) == 1:
            li = I.loopinfo[src.args[2][0]]
            e = src.args[1]
            # element must be a projection of the loop element (dim["coords"])
            base = e
            while base.op in ("sub", "attr"):
                base = base.args[0]
            if base != T("iter", li["iter"], src.args[2][0]):
                return False, "coordinates are not a plain projection of the task argument's elements"
            bad = _filtered(li, src.args[2][0])
            if bad:
                return False, bad
            src = li["iter"]
        else:
            break
    if src != taskarg:
        return False, "outer iterable is %s, not the task argument" % tm.show(src)[:60]
    return True, "dimension order, then axis order"


def slices1d_rule(prog, rep):
    """R-C16-b support: coordinates are empty exactly for a 1-D dimension, which yields once."""
    fi = prog.func("iindexes", "iindex.slices1d")
    from sa.symex import Interp
    from sa import hints

    I = Interp(prog, hints.param_types_for("iindexes"), hints.FIELD_TYPES)
    fr = I.run(fi)
    ys = [ev for ev in I.events if ev.kind == "yield" and not ev.stack]
    if not [e for e in I.events if e.kind == "call" and e["method"] == "slices1d" and not e.stack]:
        rep.undecided("R-C16-b", fi.fq, "every 1-D slice of a dimension is yielded once with coordinates of its own", "slices1d is not the recursive generator this rule reads (no recursive call)")
        return
    base_case = [ev for ev in ys if not ev.loops]
    rec_case = [ev for ev in ys if ev.loops]
    ok1 = len(base_case) == 1 and base_case[0]["value"].op == "tuple" and base_case[0]["value"].args[0] == tm.param("base_coords") \
        and any(c.op == "cmp" and c.args[0] == ">" and pol is False for c, pol in base_case[0].guards)
    rep.check(ok1, "R-C16-b", fi.fq, "a 1-D dimension yields exactly once, with its coordinates unchanged (empty at top level)",
              "single yield outside any loop under `not len(shape) > 1`", "base case of slices1d changed")
    rec = [ev for ev in I.events if ev.kind == "recursion"]
    ok2 = False
    for ev in I.events:
        if ev.kind == "call" and ev["method"] == "slices1d" and ev["args"]:
            a = ev["args"][0]
            if a.op == "tuple" and len(a.args) >= 1 and any(x.op == "enumidx" for x in a.args):
                ok2 = True
            if a.op == "binop" and tm.contains(a, lambda x: x.op == "enumidx"):
                ok2 = True
    rep.check(ok2 and bool(rec_case), "R-C16-b", fi.fq, "a multi-axis dimension contributes one distinct coordinate per slice (enumerate index)",
              "recursion extends the coordinates by the bucket index", "recursive case of slices1d changed")
    # xcube.product: 1-D dims contribute the singleton (None,)
    fp = prog.func("xcubes", "xcube.product")
    I2 = Interp(prog, hints.param_types_for("xcubes"), hints.FIELD_TYPES)
    I2.run(fp)
    apps = [ev for ev in I2.events if ev.kind == "call" and ev["method"] == "append" and not ev.stack]
    single = [ev for ev in apps if ev["args"] and ev["args"][0].op == "tuple" and len(ev["args"][0].args) == 1 and ev["args"][0].args[0] == tm.NONE]
    prod = [ev for ev in apps if ev["args"] and ev["args"][0].op == "call" and tm.callee_name(ev["args"][0]) == "itertools.product"]
    rep.check(len(single) == 1 and len(prod) == 1, "R-C16-b", fp.fq, "a 1-D array dimension contributes exactly one (None) element to the product; others a product of ranges",
              "", "xcube.product changed shape: %d singleton, %d product appends" % (len(single), len(prod)))


def main(tier):
    rep = core.Report("C16", level="other", rules=RULES, tier=tier,
                      declined="bit-for-bit equality of pooled and serial outputs as a run-time fact; decided is the mechanism: disjoint write sets, barrier, same task function")
    rep.trusted_base = ["CPython ast", "symbolic walker with full inlining", "NumPy summary table (basic integer indexing on leading axes yields a view; reshape of that block yields a view)",
                        "multiprocessing.pool: map/starmap block and re-raise; imap/map_async/apply_async do not block"]
    rep.assume("distinct elements of a Cartesian product of ranges / enumerate indices differ in at least one coordinate, so integer-indexed blocks of distinct tasks are disjoint")
    for d, why in list(tasks.DIAG_ATTRS.items()) + list(tasks.DIAG_CALLS.items()):
        rep.note("whitelisted diagnostic: %s" % why)
    prog = Program()
    for module, cls in (("ccubes", "ccube"), ("xcubes", "xcube")):
        analyse_one(prog, module, cls, rep)
    from sa import cyfront, cystate
    kn = 0
    for status, where, cons, detail in cystate.analyse(cyfront.load()):
        kn += 1
        rep.add("R-C16-f", where, cons, status, detail, True, {"history": "pooled ccube evaluation with poolsize >= 2: two tasks intersect into the same workspace at once and one receives the other's row ids"} if status == "VIOLATED" else None)
    rep.floor("R-C16-f", 4, kn)
    # R-C16-g: nothing on the tasks' path depends on WHICH thread runs it: no threading.local attribute that only the
    # importing / calling thread has (sa/tls.py).  Zero thread-locals are expected on today's tree.
    from sa import tls
    finds, inv = tls.scan(prog)
    for kind, where, cons, detail in finds:
        if kind == "undecided":
            rep.undecided("R-C16-g", where, cons, detail)
        else:
            rep.violated("R-C16-g", where, cons, detail, witness={"schedule": "any pooled evaluation (every pool size, every schedule): the worker thread is not the thread that set the attribute; serial evaluation on the main thread is unaffected"})
    if not finds:
        rep.proved("R-C16-g", "ccubes, xcubes, ffuncs, xfuncs", "no thread-local state on the evaluation path", "%d threading.local objects in the four modules" % inv)
    slices1d_rule(prog, rep)
    n = rep.floors.pop("R-C16-a", (0, 0))
    rep.floor("R-C16-a", n[0], n[1])
    rep.floors.pop("R-C16-c", None)
    return rep.finish()


if __name__ == "__main__":
    core.run_main("C16", main)
