#!/venv/bin/python
"""C12 - a torn INDX file is always rejected (structural proof, DESIGN section 4 C12)."""
import _indx_common as ic
from sa import core


def main(tier):
    return ic.run(
        "C12", ["R-C12-a", "R-C12-b", "R-C12-c", "R-C11-b", "R-C11-e"], "proof",
        "nothing: with the three library facts below the rules imply that every strict prefix of a written file is rejected",
        tier, {"R-C12-a": 9, "R-C12-b": 9, "R-C12-c": 1, "R-C11-b": 2, "R-C11-e": 3},
        ["f.read(n) returns fewer than n bytes only at EOF", "struct.unpack raises on a buffer of the wrong length",
         "mmap.mmap(fd, n) raises ValueError when n exceeds the file size",
         "argument: cut k<16 -> a header read is short or mismatched -> raise; 16<=k<len(F): header intact, mapped length = len(F) > k -> mmap raises (R-C11-b gives size(F) = len(F)-16)"],
        ["CPython ast", "engine P symbolic walker (sa/symex.py)", "the three library facts listed under assumptions"],
    )


if __name__ == "__main__":
    core.run_main("C12", main)
