import os
import sys

sys.path.insert(0, os.path.dirname(os.path.dirname(os.path.abspath(__file__))))
from sa import core, indx
from sa.pyfront import Program

RULE_TEXT = {
    "R-C10-a": "writer and reader field tables agree field by field; entry loop pairs lengths, keys and row-id blocks in order",
    "R-C10-b": "reader cursor: each field is read at 16 + (widths of all earlier fields); row-id cursor starts at 0 and advances by the length just used",
    "R-C10-c": "helper tables IndxIO.format / IndxIO.dtype give the little-endian unsigned code and dtype of exactly the word size, for sizes 1,2,4,8",
    "R-C10-d": "load returns a dict keyed by tuples of Python ints, a Python-int common value, uint32 arrays on every path",
    "R-C10-e": "the index word size is chosen from max(coordinates, common) on every path",
    "R-C11-a": "writer (and reader) field list equals the INDX0001 specification table: order, struct formats, roles, dtypes",
    "R-C11-b": "recorded payload size = symbolic sum of the widths of all fields written after it; final f.tell() self-check",
    "R-C11-c": "file-size and cursor arithmetic is done in unbounded Python ints (no fixed-width NumPy scalar operand)",
    "R-C11-d": "index word dtype = fit_dtype(max coordinate, common): narrowest by C19",
    "R-C11-e": "save is append-only and writes the fields in specification order on every path",
    "R-C10-f": "the function that chooses the index word size (fit_dtype) is an exact ladder: every value reaches a dtype that contains it (imported from the C19 decision-tree analysis)",
    "R-C11-f": "the function that chooses the index word size (fit_dtype) is an exact ladder: every value reaches a dtype that contains it, and no narrower one of the same signedness would (imported from the C19 decision-tree analysis)",
    "R-C10-g": "the word-size chooser only COMPARES the value IndxIO.save passes (a fixed-width NumPy scalar): no +, -, *, <<, ** on it, which would wrap at the top of the scalar's range",
    "R-C12-a": "load: magic check -> version check -> size unpack -> mmap(16+size) dominate every return, in this order",
    "R-C12-b": "after the header every read goes through the mapped buffer (no f.read that could return short data)",
    "R-C12-c": "no exception handler in load swallows an error",
}


def run(prop, rules, level, declined, tier, floors, assumptions, trusted):
    rep = core.Report(prop, level=level, rules={r: RULE_TEXT[r] for r in rules}, declined=declined, tier=tier)
    rep.trusted_base = trusted
    for a in assumptions:
        rep.assume(a)
    prog = Program()
    C, info, W, R = indx.analyse(prog)
    rep.analysed["functions"] = ["indxio:IndxIO.save", "indxio:IndxIO.load", "indxio:IndxIO.format", "indxio:IndxIO.dtype"]
    rep.analysed["writer_fields"] = info.get("writer_fields")
    rep.analysed["reader_ops"] = info.get("reader_ops")
    counts = {}
    for rule, status, where, construct, detail, witness in C.items:
        if rule in rules:
            rep.add(rule, where, construct, status, detail, True, witness)
            counts[rule] = counts.get(rule, 0) + 1
    for r, n in floors.items():
        rep.floor(r, n, counts.get(r, 0))
    # the index word size is whatever fit_dtype answers (R-C10-e / R-C11-d): wide enough (C10: the coordinates survive the
    # round trip) and narrowest (C11: the bytes equal the documented layout) only if fit_dtype's ladder is exact - C19's
    # decision-tree rules, imported so that an edit of fit_dtype is decided HERE too, not only in C19
    import c19
    want = {"C10": ("R-C10-f", ("R-C19-tree", "R-C19-coverage", "R-C19-contain", "R-C19-sign")),
            "C11": ("R-C11-f", ("R-C19-tree", "R-C19-coverage", "R-C19-contain", "R-C19-sign", "R-C19-minimal"))}.get(prop)
    if want:
        rid, which = want
        rep.rules[rid] = ("the function that chooses the index word size (fit_dtype) is an exact ladder: every value reaches a dtype that contains it%s (imported from the C19 decision-tree analysis)"
                          % (", and no narrower one of the same signedness would" if prop == "C11" else ""))
        sub = core.Report("C19", level="proof", rules=c19.RULES, tier=tier)
        c19.analyse(prog, sub, False)
        k = 0
        for o in sub.obls:
            if o.rule in which:
                k += 1
                rep.add(rid, o.where, "[%s] %s" % (o.rule, o.construct), o.status, o.detail, True, o.witness)
        rep.floor(rid, 8, k)
    if prop == "C10":
        _chooser_arithmetic(prog, rep)
    return rep.finish()


def _chooser_arithmetic(prog, rep):
    """R-C10-g: IndxIO.save hands fit_dtype a fixed-width NumPy scalar (numpy.max of the coordinate table, int64 or
    uint64).  Comparisons with Python constants are exact for such a scalar; ARITHMETIC on it wraps at the top of its
    range (numpy.int64(2**63 - 1) + 1 < 0), and the ladder then picks a word that is far too narrow - the file is
    self-consistent and loads back with the coordinates reduced modulo the word size."""
    import ast

    rep.rules["R-C10-g"] = RULE_TEXT["R-C10-g"]
    try:
        fsave = prog.func("indxio", "IndxIO.save")
        ffit = prog.func("iindexes", "fit_dtype")
    except Exception:
        rep.undecided("R-C10-g", "indxio:IndxIO.save", "word-size chooser", "IndxIO.save or fit_dtype not found (anchor vanished)")
        return
    calls = [c for c in ast.walk(fsave.node) if isinstance(c, ast.Call) and ((isinstance(c.func, ast.Name) and c.func.id == "fit_dtype") or (isinstance(c.func, ast.Attribute) and c.func.attr == "fit_dtype"))]
    if not calls:
        # the word size is chosen by another function of the repository (a helper of IndxIO): the same rule, on that one
        def np_arg(c):
            return any(isinstance(x, ast.Call) and isinstance(x.func, ast.Attribute) and x.func.attr in ("max", "amax") for a in c.args for x in ast.walk(a))
        for c in ast.walk(fsave.node):
            if isinstance(c, ast.Call) and isinstance(c.func, ast.Attribute) and isinstance(c.func.value, ast.Name) and c.func.value.id in ("IndxIO", "self", "cls") and np_arg(c):
                try:
                    ffit = prog.func("indxio", "IndxIO.%s" % c.func.attr)
                    calls = [c]
                    break
                except Exception:
                    pass
        if not calls:
            rep.undecided("R-C10-g", fsave.fq, "word-size chooser", "no call of fit_dtype (or of a helper of IndxIO taking the greatest coordinate) in save: the index word size is chosen some other way")
            return

    def numpy_scalar(e):
        return any(isinstance(x, ast.Call) and ((isinstance(x.func, ast.Attribute) and x.func.attr in ("max", "amax", "min", "amin") and not (isinstance(x.func.value, ast.Name) and x.func.value.id == "builtins")))
                   for x in ast.walk(e))
    passes_np = any(c.args and numpy_scalar(c.args[0]) for c in calls)
    params = [a.arg for a in ffit.node.args.args if a.arg not in ("self", "cls")]
    tainted = set(params)
    changed = True
    while changed:  # names assigned from expressions over the parameters
        changed = False
        for st in ast.walk(ffit.node):
            if isinstance(st, ast.Assign) and any(isinstance(n, ast.Name) and n.id in tainted for n in ast.walk(st.value)):
                for t in st.targets:
                    for n in ast.walk(t):
                        if isinstance(n, ast.Name) and n.id not in tainted:
                            tainted.add(n.id)
                            changed = True
    signed_bodies = set()
    for st in ast.walk(ffit.node):
        if isinstance(st, ast.If) and isinstance(st.test, ast.Compare) and len(st.test.ops) == 1 and isinstance(st.test.ops[0], ast.Lt) \
                and isinstance(st.test.left, ast.Name) and st.test.left.id in params[1:2] and isinstance(st.test.comparators[0], ast.Constant) and st.test.comparators[0].value == 0:
            for b in st.body:
                signed_bodies.update(id(x) for x in ast.walk(b))
    ar = [b for b in ast.walk(ffit.node) if isinstance(b, ast.BinOp) and isinstance(b.op, (ast.Add, ast.Sub, ast.Mult, ast.LShift, ast.Pow))
          and any(isinstance(n, ast.Name) and n.id in tainted for n in (b.left, b.right))]
    ar += [u for u in ast.walk(ffit.node) if isinstance(u, ast.UnaryOp) and isinstance(u.op, ast.USub) and isinstance(u.operand, ast.Name) and u.operand.id in tainted]
    where = ffit.fq
    if not ar:
        rep.proved("R-C10-g", where, "fit_dtype only compares its arguments (no arithmetic on them)", "%d call(s) from IndxIO.save%s" % (len(calls), ", with a NumPy scalar argument" if passes_np else ""))
        return
    for b in ar:
        src = ast.unparse(b)[:50]
        w = "%s@%d" % (where, b.lineno)
        cons = "no arithmetic on the value IndxIO.save passes: `%s`" % src
        if not passes_np:
            rep.undecided("R-C10-g", w, cons, "arithmetic on an argument; whether save passes a fixed-width NumPy scalar is not recognised")
        elif id(b) in signed_bodies:
            rep.undecided("R-C10-g", w, cons, "arithmetic on an argument, on the signed branch only (reached from save only with a negative maximum): wraps at the extreme of int64 only")
        else:
            rep.violated("R-C10-g", w, cons,
                         "IndxIO.save passes numpy.max(<coordinate table>) - a numpy.int64 / uint64 scalar - and `%s` wraps at the top of its range: the ladder then answers the narrowest word and the coordinates are stored modulo 256" % src,
                         witness={"example": "an index with the coordinate 2**63 - 1 (not below the common value): saved with a 1-byte index word, (2**63 - 1, 1) loads back as (255, 1)"})
