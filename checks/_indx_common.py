import os
import sys

sys.path.insert(0, os.path.dirname(os.path.dirname(os.path.abspath(__file__))))
from sa import core, indx
from sa.pyfront import Program

RULE_TEXT = {
    "R-C10-a": "writer and reader field tables agree field by field; entry loop pairs lengths, keys and row-id blocks in order",
    "R-C10-b": "reader cursor: each field is read at 16 + (widths of all earlier fields); row-id cursor starts at 0 and advances by the length just used",
    "R-C10-c": "helper tables IndxIO.format / IndxIO.dtype give the little-endian unsigned code and dtype of exactly the word size, for sizes 1,2,4,8",
    "R-C10-d": "load returns a dict keyed by tuples of Python ints, a Python-int common value, uint32 arrays on every path",
    "R-C10-e": "the index word size is chosen from max(coordinates, common) on every path",
    "R-C11-a": "writer (and reader) field list equals the INDX0001 specification table: order, struct formats, roles, dtypes",
    "R-C11-b": "recorded payload size = symbolic sum of the widths of all fields written after it; final f.tell() self-check",
    "R-C11-c": "file-size and cursor arithmetic is done in unbounded Python ints (no fixed-width NumPy scalar operand)",
    "R-C11-d": "index word dtype = fit_dtype(max coordinate, common): narrowest by C19",
    "R-C11-e": "save is append-only and writes the fields in specification order on every path",
    "R-C10-f": "the function that chooses the index word size (fit_dtype) is an exact ladder: every value reaches a dtype that contains it (imported from the C19 decision-tree analysis)",
    "R-C11-f": "the function that chooses the index word size (fit_dtype) is an exact ladder: every value reaches a dtype that contains it, and no narrower one of the same signedness would (imported from the C19 decision-tree analysis)",
    "R-C12-a": "load: magic check -> version check -> size unpack -> mmap(16+size) dominate every return, in this order",
    "R-C12-b": "after the header every read goes through the mapped buffer (no f.read that could return short data)",
    "R-C12-c": "no exception handler in load swallows an error",
}


def run(prop, rules, level, declined, tier, floors, assumptions, trusted):
    rep = core.Report(prop, level=level, rules={r: RULE_TEXT[r] for r in rules}, declined=declined, tier=tier)
    rep.trusted_base = trusted
    for a in assumptions:
        rep.assume(a)
    prog = Program()
    C, info, W, R = indx.analyse(prog)
    rep.analysed["functions"] = ["indxio:IndxIO.save", "indxio:IndxIO.load", "indxio:IndxIO.format", "indxio:IndxIO.dtype"]
    rep.analysed["writer_fields"] = info.get("writer_fields")
    rep.analysed["reader_ops"] = info.get("reader_ops")
    counts = {}
    for rule, status, where, construct, detail, witness in C.items:
        if rule in rules:
            rep.add(rule, where, construct, status, detail, True, witness)
            counts[rule] = counts.get(rule, 0) + 1
    for r, n in floors.items():
        rep.floor(r, n, counts.get(r, 0))
    # the index word size is whatever fit_dtype answers (R-C10-e / R-C11-d): wide enough (C10: the coordinates survive the
    # round trip) and narrowest (C11: the bytes equal the documented layout) only if fit_dtype's ladder is exact - C19's
    # decision-tree rules, imported so that an edit of fit_dtype is decided HERE too, not only in C19
    import c19
    want = {"C10": ("R-C10-f", ("R-C19-tree", "R-C19-coverage", "R-C19-contain", "R-C19-sign")),
            "C11": ("R-C11-f", ("R-C19-tree", "R-C19-coverage", "R-C19-contain", "R-C19-sign", "R-C19-minimal"))}.get(prop)
    if want:
        rid, which = want
        rep.rules[rid] = ("the function that chooses the index word size (fit_dtype) is an exact ladder: every value reaches a dtype that contains it%s (imported from the C19 decision-tree analysis)"
                          % (", and no narrower one of the same signedness would" if prop == "C11" else ""))
        sub = core.Report("C19", level="proof", rules=c19.RULES, tier=tier)
        c19.analyse(prog, sub, False)
        k = 0
        for o in sub.obls:
            if o.rule in which:
                k += 1
                rep.add(rid, o.where, "[%s] %s" % (o.rule, o.construct), o.status, o.detail, True, o.witness)
        rep.floor(rid, 8, k)
    return rep.finish()
