#!/venv/bin/python
"""C09 - sorted-set kernels never touch memory outside their buffers.

Proof by abstract interpretation (engine L, sa/linabs.py) over the typed tree produced by
Cython's own front-end: for every typed-memoryview index in a function compiled with
boundscheck=False, 0 <= index <= len-1 is entailed by loop invariants found from a
linear template pool (Houdini) with Fourier-Motzkin entailment.  A failing obligation is
VIOLATED only with a concrete integer counterexample from the bounded exact mode.
"""
import os
import sys

sys.path.insert(0, os.path.dirname(os.path.dirname(os.path.abspath(__file__))))
from sa import core, cyfront, linabs
from sa.fm import cstr

RULES = {
    "R-C09-lower": "index >= 0 at every unchecked memoryview access (wraparound=False), or >= -len if wraparound is on",
    "R-C09-upper": "index <= len(buffer) - 1 at every unchecked memoryview access",
    "R-C09-xcheck": "(thorough) an exact bounded walk with 3 loop iterations cross-checks the proof",
    "R-C09-scope": "every kernel with unchecked memoryview accesses is inside the analysable subset (affine indices, while/if/break structure)",
}


def main(tier):
    rep = core.Report("C09", level="proof", rules=RULES, tier=tier,
                      declined="set_union_merge_many (outside the property's anchors): its indices depend on array contents (values[ptr], pointers[min_arrnum]); reported as not analysed, never as a violation")
    rep.trusted_base = ["Cython 3.3.0 parser + type analysis (the front-end that compiles the module)", "own Fourier-Motzkin entailment (sa/fm.py)",
                        "facts: x.shape[0] >= 0; len(numpy.empty(n)) = n; a memoryview assigned from an array has its length"]
    rep.assume("array lengths are below 2^30 so C int sums of lengths do not overflow (documented 2^31 limit of the kernels)")
    rep.assume("the compiled .so is built from the analysed .pyx")
    tree = cyfront.load()
    funcs = cyfront.functions(tree)
    total_sites = 0
    analysed = []
    for f in funcs:
        has_mv_arg = any(str(a.type).endswith("[:]") for a in f.node.args)
        n_mv = linabs.count_sites(f)
        if n_mv == 0:
            continue
        where = "set_operations:%s" % f.name
        if not has_mv_arg:
            r = linabs.analyse_function(f)
            rep.note("%s: %d memoryview accesses, outside C09's anchored scope; analysis status=%s %s; not a verdict"
                     % (f.name, n_mv, r["status"], r["reason"] or [x[1] for x in r["nonaffine"]]))
            continue
        total_sites += n_mv
        r = linabs.analyse_function(f)
        analysed.append({"function": f.name, "boundscheck": f.boundscheck, "wraparound": f.wraparound, "memoryview_sites": n_mv,
                         "loops": r["loops"], "status": r["status"]})
        if f.boundscheck:
            rep.proved("R-C09-scope", where, "bounds checking enabled", "%d accesses are checked at run time by Cython (boundscheck=True)" % n_mv, nontrivial=False)
            continue
        if r["status"] != "ok":
            rep.undecided("R-C09-scope", where, "kernel structure", "outside the analysable subset: %s" % r["reason"])
            continue
        rep.proved("R-C09-scope", where, "kernel structure", "%d accesses, all indices affine in the C int locals; %d loops with invariants" % (n_mv, len(r["loops"])))
        for line, why in r["nonaffine"]:
            rep.undecided("R-C09-scope", "%s@%d" % (where, line), "non-affine index", why)
        for s in r["sites"]:
            rule = "R-C09-lower" if s.kind == "lower" else "R-C09-upper"
            w = "%s@%d" % (where, s.line)
            cons = "%s bound of %s[%s]" % (s.kind, s.base, s.idx)
            if not s.reached:
                rep.proved(rule, w, cons, "access unreachable in the abstract semantics", nontrivial=False)
            elif s.ok:
                rep.proved(rule, w, cons, s.desc + " entailed by the invariant on every partition")
            elif s.witness is not None:
                m = s.witness["model"]
                lens = {k[4:]: v for k, v in m.items() if k.startswith("len_")}
                rep.violated(rule, w, cons, "out-of-bounds access reachable: %s fails" % s.desc,
                             witness={"array lengths": lens, "locals": {k: v for k, v in m.items() if not k.startswith(("len_", "snap_"))},
                                      "branch trace": s.witness["trace"]})
            else:
                rep.undecided(rule, w, cons, "not entailed by the template invariants and no counterexample within 2 loop iterations; abstract state: %s"
                              % "; ".join(cstr(c) for c in (s.fail_state or [])[:8]))
    if tier == "thorough":
        # cross-check of the invariant proof: the exact bounded walk (3 loop iterations, no weakening)
        # must not find a counterexample at any site that was proved
        for f in funcs:
            if f.boundscheck or not any(str(a.type).endswith("[:]") for a in f.node.args) or linabs.count_sites(f) == 0:
                continue
            try:
                b = linabs.Analyzer(f, cex=True, unroll=3).run()
            except linabs.Unknown:
                continue
            bad = [s for s in b.sites.values() if s.witness is not None]
            where = "set_operations:%s" % f.name
            rep.check(not bad, "R-C09-xcheck", where, "bounded exact exploration (3 iterations) finds no out-of-bounds access",
                      "%d sites explored exactly" % len(b.sites), "exact exploration reaches %s out of bounds although the invariant proof passed" % (bad and bad[0].desc))
    rep.analysed["kernels"] = analysed
    rep.analysed["memoryview_sites"] = total_sites
    rep.floor("R-C09-scope", 35, total_sites)
    return rep.finish()


if __name__ == "__main__":
    core.run_main("C09", main)
