#!/venv/bin/python
"""C09 - sorted-set kernels never touch memory outside their buffers.

Proof by abstract interpretation (engine L, sa/linabs.py) over the typed tree produced by
Cython's own front-end: for every typed-memoryview index in a function compiled with
boundscheck=False, 0 <= index <= len-1 is entailed by loop invariants found from a
linear template pool (Houdini) with Fourier-Motzkin entailment.  A failing obligation is
VIOLATED only with a concrete integer counterexample from the bounded exact mode.
"""
import os
import sys

sys.path.insert(0, os.path.dirname(os.path.dirname(os.path.abspath(__file__))))
from sa import core, cyfront, linabs
from sa.fm import cstr

RULES = {
    "R-C09-alias": "the memoryviews a kernel indexes are distinct storage: no two of them are slices of the same local array with one of them written (a store through one would move the bounds read through the other)",
    "R-C09-lower": "index >= 0 at every unchecked memoryview access (wraparound=False), or >= -len if wraparound is on",
    "R-C09-upper": "index <= len(buffer) - 1 at every unchecked memoryview access",
    "R-C09-xcheck": "(thorough) an exact bounded walk with 3 loop iterations cross-checks the proof",
    "R-C09-raw": "memory is touched only through indexed memoryview accesses: no memcpy / memmove / pointer arithmetic on the address of a memoryview element (a block copy from a general `[:]` view reads physically adjacent bytes - the skipped elements of a strided view, or bytes before / after the buffer of a reversed one); expected count 0",
    "R-C09-scope": "every kernel with unchecked memoryview accesses is inside the analysable subset (affine indices, while/if/break structure)",
}


# Sites of the multi-way union that the linear template domain cannot decide, each with the hand argument (read and
# confirmed on the current source).  A site listed here is NOT claimed; any other site that cannot be proved is reported.
DECLINED = {
    # "output-write" = the store of an emitted VALUE into the uint32 output buffer (whatever the locals are called)
    ("set_union_merge_many", "output-write", "upper"):
        "needs a counting argument over array contents: every emission is followed by at least one pointer advance (the array that supplied the minimum), "
        "a pointer never passes its limit, and the limits sum to len(values) = len(result_view); relational in the contents of pointers/values",
}


def main(tier):
    rep = core.Report("C09", level="proof", rules=RULES, tier=tier,
                      declined="nothing: the upper bound of the multi-way union's output write, which the linear domain cannot reach (relational in array contents), is decided by a ranking-function argument over the k-way decision tables")
    rep.trusted_base = ["Cython 3.3.0 parser + type analysis (the front-end that compiles the module)", "own Fourier-Motzkin entailment (sa/fm.py)",
                        "facts: x.shape[0] >= 0; len(numpy.empty(n)) = n; a memoryview assigned from an array has its length"]
    rep.assume("array lengths are below 2^30 so C int sums of lengths do not overflow (documented 2^31 limit of the kernels)")
    rep.assume("the compiled .so is built from the analysed .pyx")
    tree = cyfront.load()
    funcs = cyfront.functions(tree)
    total_sites = 0
    analysed = []
    many = []
    declined_seen = set()
    for f in funcs:
        has_mv_arg = any(cyfront.tstr(a.type).endswith("[:]") for a in f.node.args)
        n_mv = linabs.count_sites(f)
        if n_mv == 0:
            continue
        where = "set_operations:%s" % f.name
        if not has_mv_arg:
            # a kernel that builds its own buffers (the multi-way union): content-aware analysis.  Indices read from
            # integer arrays are bounded by facts about ALL elements of those arrays, derived from how the prelude
            # builds them (sa/linabs.py: py_expr); a site the linear domain cannot reach is listed in DECLINED with the
            # hand argument, any OTHER unprovable site is reported.
            r = linabs.analyse_function(f)
            many.append({"function": f.name, "memoryview_sites": n_mv, "status": r["status"], "loops": r["loops"], "lemmas": r.get("lemmas", []),
                         "element_facts": r.get("element_facts", {})})
            if r["status"] != "ok":
                rep.undecided("R-C09-scope", where, "kernel structure (content-aware)", "outside the analysable subset: %s" % r["reason"])
                continue
            rep.proved("R-C09-scope", where, "kernel structure (content-aware)", "%d accesses; indices read from arrays are bounded through element facts %s" % (n_mv, r.get("element_facts", {})))
            for lm in r.get("lemmas", []):
                rep.assume("NumPy fact used for %s: %s" % (f.name, lm))
            for s in r["sites"]:
                rule = "R-C09-lower" if s.kind == "lower" else "R-C09-upper"
                w = "%s@%d" % (where, s.line)
                cons = "%s bound of %s[%s]" % (s.kind, s.base, s.idx)
                dk = (f.name, "output-write" if getattr(s, "data_write", False) else "%s[%s]" % (s.base, s.idx), s.kind)
                if s.ok:
                    rep.proved(rule, w, cons, s.desc + " entailed (loop invariants + element facts)")
                elif s.witness is not None:
                    m = s.witness["model"]
                    rep.violated(rule, w, cons, "out-of-bounds access reachable on a path whose decisions do not depend on array contents (or are forced by the element facts): %s fails" % s.desc,
                                 witness={"sizes and locals": {k: v for k, v in m.items() if not k.startswith(("snap_", "rd"))}, "branch trace": s.witness["trace"]})
                elif dk in DECLINED:
                    # not reachable by the linear domain; decided instead by the ranking-function argument over the k-way
                    # decision tables (sa/kway.py: capacity_argument), every ingredient of which is a decided obligation
                    from sa import kway
                    okc, why = kway.capacity_argument(f)
                    declined_seen.add(dk)
                    if okc:
                        rep.proved(rule, w, cons, why)
                        rep.assume("R-C09-upper for the k-way output write rests on the textbook step from `Phi decreases by >= 1 per emitting round` to `count + Phi <= len(values)` (induction over rounds), with the per-round facts decided by R-C08-k's tables")
                    else:
                        rep.undecided(rule, w, cons, "not decided by the linear domain (%s) and the ranking-function argument does not apply: %s" % (DECLINED[dk][:80], why))
                else:
                    rep.undecided(rule, w, cons, "not entailed by the invariants and element facts, and no content-independent counterexample: %s"
                                  % "; ".join(cstr(c) for c in (s.fail_state or [])[:6]))
            continue
        total_sites += n_mv
        r = linabs.analyse_function(f)
        analysed.append({"function": f.name, "boundscheck": f.boundscheck, "wraparound": f.wraparound, "memoryview_sites": n_mv,
                         "loops": r["loops"], "status": r["status"]})
        if f.boundscheck:
            rep.proved("R-C09-scope", where, "bounds checking enabled", "%d accesses are checked at run time by Cython (boundscheck=True)" % n_mv, nontrivial=False)
            continue
        if r["status"] != "ok":
            rep.undecided("R-C09-scope", where, "kernel structure", "outside the analysable subset: %s" % r["reason"])
            continue
        rep.proved("R-C09-scope", where, "kernel structure", "%d accesses, all indices affine in the C int locals; %d loops with invariants" % (n_mv, len(r["loops"])))
        for line, why in r["nonaffine"]:
            rep.undecided("R-C09-scope", "%s@%d" % (where, line), "non-affine index", why)
        for s in r["sites"]:
            rule = "R-C09-lower" if s.kind == "lower" else "R-C09-upper"
            w = "%s@%d" % (where, s.line)
            cons = "%s bound of %s[%s]" % (s.kind, s.base, s.idx)
            if not s.reached:
                rep.proved(rule, w, cons, "access unreachable in the abstract semantics", nontrivial=False)
            elif s.ok:
                rep.proved(rule, w, cons, s.desc + " entailed by the invariant on every partition")
            elif s.witness is not None:
                m = s.witness["model"]
                lens = {k[4:]: v for k, v in m.items() if k.startswith("len_")}
                rep.violated(rule, w, cons, "out-of-bounds access reachable: %s fails" % s.desc,
                             witness={"array lengths": lens, "locals": {k: v for k, v in m.items() if not k.startswith(("len_", "snap_"))},
                                      "branch trace": s.witness["trace"]})
            else:
                rep.undecided(rule, w, cons, "not entailed by the template invariants and no counterexample within 2 loop iterations; abstract state: %s"
                              % "; ".join(cstr(c) for c in (s.fail_state or [])[:8]))
    if tier == "thorough":
        # cross-check of the invariant proof: the exact bounded walk (3 loop iterations, no weakening)
        # must not find a counterexample at any site that was proved
        for f in funcs:
            if f.boundscheck or not any(cyfront.tstr(a.type).endswith("[:]") for a in f.node.args) or linabs.count_sites(f) == 0:
                continue
            try:
                b = linabs.Analyzer(f, cex=True, unroll=3).run()
            except linabs.Unknown:
                continue
            bad = [s for s in b.sites.values() if s.witness is not None]
            where = "set_operations:%s" % f.name
            rep.check(not bad, "R-C09-xcheck", where, "bounded exact exploration (3 iterations) finds no out-of-bounds access",
                      "%d sites explored exactly" % len(b.sites), "exact exploration reaches %s out of bounds although the invariant proof passed" % (bad and bad[0].desc))
    # R-C09-raw: raw memory calls and address-of on memoryview elements
    from sa.cyfront import tname, walk
    n_raw = 0
    for f in funcs:
        where = "set_operations:%s" % f.name
        argtypes = {a.name: str(a.type) for a in f.node.args}
        for n in walk(f.node.body):
            if tname(n) == "SimpleCallNode" and tname(n.function) == "NameNode" and n.function.name in ("memcpy", "memmove", "memset", "memcmp"):
                n_raw += 1
                args = n.args if getattr(n, "args", None) is not None else n.arg_tuple.args
                general = []
                for a in args[:2]:
                    for x in walk(a):
                        if tname(x) == "MemoryViewIndexNode" and tname(x.base) == "NameNode":
                            t = argtypes.get(x.base.name)
                            if t is not None and "::1" not in t:  # a caller-supplied view; local views of numpy.empty(...) are contiguous
                                general.append((x.base.name, t))
                if general:
                    rep.violated("R-C09-raw", "%s@%d" % (where, n.pos[1]), "%s on memoryview storage" % n.function.name,
                                 "%s copies physically adjacent bytes starting at &%s[...], but %s is a general typed memoryview (%s) that accepts strided and reversed views: the bytes read are not the view's elements and, "
                                 "for a negative stride or a step > 1 near the end of the owner, lie outside the owner's buffer" % (n.function.name, general[0][0], general[0][0], general[0][1]),
                                 witness={"inputs": "an operand passed as base[::2] or desc[::-1] with two or more elements left when the other operand is exhausted"})
                else:
                    rep.undecided("R-C09-raw", "%s@%d" % (where, n.pos[1]), "%s on memoryview storage" % n.function.name, "block copy between contiguous buffers: the byte count is not bounded by this analysis")
    if n_raw == 0:
        rep.proved("R-C09-raw", "set_operations", "no raw memory call in any kernel", "%d functions scanned for memcpy / memmove / memset / memcmp" % len(funcs))
    # R-C09-alias: the bounds proof treats every memoryview as its own storage; two views of one array, one of them written,
    # break that (zero expected on today's tree; positive example: seeded/C09h)
    from sa import cystate
    al = cystate.aliased_views(tree)
    for status, where_a, cons_a, detail_a in al:
        rep.add("R-C09-alias", where_a, cons_a, status, detail_a, True, {"inputs": "set_union_merge_many([[1, 5], [2, 9]]) returns [1, 2, 5, 2]; a 2-element array plus a long one writes far behind the output buffer"} if status == "VIOLATED" else None)
    if not al:
        rep.proved("R-C09-alias", "set_operations", "no two memoryviews of a kernel are views of the same local array", "%d kernels scanned" % len(funcs))
    # cdef / cpdef functions are not visited by the bounds engine (it reads `def` kernels): one that touches array memory
    # is reported, never passed over
    from sa.cyfront import cfunctions
    cdefs = cfunctions(tree)
    for cname, cnode in cdefs:
        touches = [x for x in walk(cnode.body) if tname(x) in ("MemoryViewIndexNode", "MemoryViewSliceNode", "BufferIndexNode")
                   or (tname(x) == "IndexNode" and "*" in str(getattr(getattr(x, "base", None), "type", "")))
                   or (tname(x) == "SimpleCallNode" and tname(x.function) == "NameNode" and x.function.name in ("memcpy", "memmove", "memset", "memcmp"))]
        if touches:
            rep.undecided("R-C09-scope", "set_operations:%s@%d" % (cname, touches[0].pos[1]), "cdef function %s accesses array memory" % cname,
                          "%d access(es) in a cdef function: outside the bounds analysis (only `def` kernels are analysed)" % len(touches))
        else:
            rep.proved("R-C09-scope", "set_operations:%s" % cname, "cdef function %s accesses no array memory" % cname, "", nontrivial=False)
    rep.analysed["cdef_functions"] = [c for c, _ in cdefs]
    rep.analysed["kernels"] = analysed
    rep.analysed["content_aware_kernels"] = many
    for dk in DECLINED:
        if dk not in declined_seen and many:
            rep.note("declined site %s no longer fails (or no longer exists)" % (dk,))
    rep.analysed["memoryview_sites"] = total_sites
    rep.floor("R-C09-scope", 35, total_sites)
    return rep.finish()


if __name__ == "__main__":
    core.run_main("C09", main)
