#!/venv/bin/python
"""C17 - aggregations are pure: inputs untouched, no hidden state between calls.

Static decision (engine F, ownership + mod/ref): every public entry point is walked
symbolically with all repo-internal callees inlined (virtual calls through every
overrider); every event that can write storage (element store, attribute rebind, del,
in-place augmented assignment, mutating method, out=) is classified by the storage
roots of its target.  A write whose target may share storage with a caller-supplied
argument (or with `self` outside a constructor) is a violation naming the parameter.
"""
import os
import sys

sys.path.insert(0, os.path.dirname(os.path.dirname(os.path.abspath(__file__))))
from sa import core, hints, own, terms as tm
from sa.pyfront import Program
from sa.symex import Interp

RULES = {
    "R-C17-g": "calculate keeps one set of result regions per position of the aggregate list (a list parallel to it), never a mapping keyed by the aggregator object",
    "R-C17-f": "pooled evaluation is the serial evaluation: the dispatch waits for every task before reduce reads the regions, and tasks write only their own blocks (imported from the C16 analysis)",
    "R-C17-e": "the compiled kernels keep no state between calls: every buffer they write is allocated inside the call (no module-level / `global` workspace)",
    "R-C17-a": "no entry point writes storage reachable from a caller-supplied argument (every store target is FRESH or a view of FRESH)",
    "R-C17-b": "outside constructors nothing rebinds or mutates self / aggregator state, except the named diagnostics (tracing, intersection_data_points, _tracing)",
    "R-C17-c": "get_initial_regions returns freshly allocated arrays on every call",
    "R-C17-d": "shortcut methods build a new aggregator object per call",
}

# One symbol wide, each with its reason (DESIGN 2.4).
DIAGNOSTIC_PATHS = {
    ".tracing": "ffunc_*.tracing: timing counters, excluded by the property (not part of any result)",
    ".intersection_data_points": "ccube.intersection_data_points: diagnostic counter, excluded by the property",
    "._tracing": "xcube._tracing: per-call timing dict, rebound at the start of every calculate",
}
CONSTRUCTOR_NORMALISATION = ("iindexes:iindex.__init__", "entries",
                             "iindex.__init__ replaces list values by arrays in the dict it is given (documented constructor normalisation)")

# (module, qualname, kind): kind = ctor (self may be written), mutator (self may be written, other params not),
# pure (nothing may be written)
ROOTS = []


def build_roots(prog):
    roots = []
    for mod, cls in (("ccubes", "ccube"), ("xcubes", "xcube")):
        ci = prog.cls(mod, cls)
        for name, fi in ci.methods.items():
            if name == "__init__":
                roots.append((fi, "ctor"))
            elif name in ("_set_strides",):
                roots.append((fi, "ctor"))
            elif name in ("_compute_common_cells_from_marginal_diffs", "_walk") or (name.startswith("_") and not name.startswith("__")):
                pass  # protocol / private helpers: the `region` / callbacks they are handed are owned by calculate; analysed through it (inlined where they are called)
            else:
                roots.append((fi, "cube"))
    for mod in ("ffuncs", "xfuncs"):
        m = prog.module(mod)
        for f in m.functions.values():
            roots.append((f, "pure"))
        for ci in m.classes.values():
            for name, fi in ci.methods.items():
                if name == "__init__":
                    roots.append((fi, "ctor"))
                elif name == "get_initial_regions":
                    roots.append((fi, "regions"))
                elif name in ("adjust_zeros",):
                    pass  # in-place helper on regions by contract; covered through calculate
                elif name in ("fill_func", "fill", "reduce", "_fill_one_no_coordinates", "_fill_one_by_coordinates"):
                    # protocol methods: the `regions` they are handed are owned by cube.calculate and are theirs to
                    # write; everything else (the aggregator's own fields, the cube, the coordinates) is not
                    if ci.name not in ("ffunc", "xfunc"):
                        roots.append((fi, "protocol"))
                elif name in ("flat_regions", "calculate"):
                    pass
                elif name.startswith("_") and not name.startswith("__"):
                    pass  # private helpers: reached (inlined) from the protocol methods above, which own the regions they pass on
                else:
                    roots.append((fi, "agg"))
    ii = prog.cls("iindexes", "iindex")
    mutators = {"append", "update", "union_update", "intersection_update", "difference_update", "shift_common", "set_if"}
    for name, fi in ii.methods.items():
        if name == "__init__":
            roots.append((fi, "ctor"))
        elif name in mutators:
            roots.append((fi, "mutator"))
        elif name in ("__str__",):
            roots.append((fi, "pure"))
        elif name.startswith("_") and not name.startswith("__"):
            pass  # private helpers of the index: analysed through the public methods that call them (inlined)
        else:
            roots.append((fi, "pure"))
    roots.append((prog.func("iindexes", "column_stack"), "pure"))
    roots.append((prog.func("iindexes", "fit_dtype"), "pure"))
    io = prog.cls("indxio", "IndxIO")
    for name, fi in io.methods.items():
        roots.append((fi, "io"))
    for f in prog.module("set_operations").functions.values():
        if not f.opaque:
            roots.append((f, "pure"))
    return roots


def diag_reason(path):
    for p, why in DIAGNOSTIC_PATHS.items():
        if p in path:
            return why
    return None


def analyse_root(prog, fi, kind, rep, stats, RA="R-C17-a", RB="R-C17-b", extra=True):
    I = Interp(prog, hints.param_types_for(fi.module), hints.FIELD_TYPES, max_depth=10)
    fr = I.run(fi)
    ctx = own.OwnCtx(I)
    ms = own.mods(I, ctx)
    stats["events"] += len(I.events)
    stats["mods"] += len(ms)
    where0 = fi.fq
    params = fi.params()
    selfname = params[0] if (fi.cls is not None and not fi.is_static and params) else None
    if I.depth_cuts:
        rep.undecided(RA, where0, "inlining depth", "call chain cut at depth %d: %s" % (I.max_depth, [(a.qualname, b.qualname) for a, b, _ in I.depth_cuts][:3]))
    viol = {}
    und = {}
    nwrites = 0
    for m in ms:
        nwrites += 1
        for r in m.roots:
            if r[0] == "FRESH":
                continue
            if r[0] == "UNKNOWN":
                key = (m.ev.fi.fq, m.what, r[1])
                und[key] = m
                continue
            if r[0] == "GLOBAL":
                key = (RB, m.ev.fi.fq, "module-level %s: %s" % (r[1], m.what))
                viol[key] = (m, "a module-level object is written: results could depend on earlier calls")
                continue
            pname, path = r[1], r[2]
            if kind == "protocol" and pname in ("regions", "region"):
                continue  # the result regions of this evaluation, allocated by get_initial_regions for this call
            is_self = pname == selfname
            if m.what.startswith("overwrite_input=") and path.endswith("[]"):
                # a subscripted operand: a boolean-mask / integer-array selection is a copy (harmless to overwrite), a slice is
                # a view - the index kind is not tracked here
                und[(m.ev.fi.fq, m.what, "%s%s: selection (copy) or view?" % (pname, path))] = m
                continue
            d = diag_reason(path) or (diag_reason("." + m.ev["attr"]) if m.ev.kind in ("store_attr", "del_attr") and m.rebind and path == "" else None)
            if d is not None and (is_self or kind in ("cube",) or True):
                stats["diagnostic"][d] = stats["diagnostic"].get(d, 0) + 1
                continue
            if is_self:
                if kind in ("ctor", "mutator"):
                    continue
                rule = RB
                why = "writes %s%s outside a constructor: state carried between calls" % (pname, path)
            else:
                if (fi.fq, pname) == CONSTRUCTOR_NORMALISATION[:2] and m.ev.fi.fq == fi.fq:
                    stats["exceptions"][CONSTRUCTOR_NORMALISATION[2]] = 1
                    continue
                if kind == "cube" and pname == "funcs":
                    rule = RB
                    why = "an aggregate-function object's state (%s) is written during calculate: re-using the object would see it" % path
                else:
                    rule = RA
                    why = "storage reachable from the caller's argument '%s' (%s) is written" % (pname, path or "the object itself")
            key = (rule, m.ev.fi.fq, "%s -> %s%s" % (m.what, pname, path))
            viol.setdefault(key, (m, why))
    for (rule, w, cons), (m, why) in viol.items():
        rep.violated(rule, "%s@%d" % (w, m.ev.line), "root %s: %s" % (fi.qualname, cons), why,
                     witness={"statement": m.ev.src()[:120], "entry point": fi.fq,
                              "call path": [f.qualname for f, _ in m.ev.stack]})
    for (w, what, nm), m in und.items():
        rep.undecided(RA, "%s@%d" % (w, m.ev.line), "root %s: %s" % (fi.qualname, what), "target's storage comes from a callee outside the summary table: %s" % nm)
    if not viol and not und:
        rep.proved(RA if kind not in ("cube", "agg") else RB, where0, "root %s" % fi.qualname,
                   "%d write events, every target FRESH%s" % (nwrites, " or a named diagnostic" if stats["diagnostic"] else ""),
                   nontrivial=nwrites > 0)
    if not extra:
        return I
    # R-C17-c
    if kind == "regions" and fi.cls.name not in ("ffunc", "xfunc"):
        bad = []
        n = 0
        for v, g in fr.returns:
            for comp in (v.args if v.op == "tuple" else (v,)):
                n += 1
                rs = own.roots(comp, ctx)
                if rs != {own.FRESH}:
                    bad.append((comp, rs))
        if bad:
            rep.violated("R-C17-c", where0, "returned regions", "a region may be shared between calls / aggregates: %s has roots %s" % (tm.show(bad[0][0])[:80], sorted(bad[0][1])))
        else:
            rep.proved("R-C17-c", where0, "returned regions", "%d returned arrays, all freshly allocated in this call" % n)
            stats["regions"] += 1
    # R-C17-d
    if kind == "cube" and fi.qualname.split(".")[-1] in ("count", "valid_count", "sum", "mean", "stddev", "quantile", "max", "min", "corrcoef", "covariance"):
        ok = False
        for ev in I.events:
            if ev.kind == "call" and not ev.stack and ev["method"] == "calculate" and ev["args"]:
                lst = ev["args"][0]
                els = I.elements_of(lst)
                if els and all(e.op == "alloc" and e.args[0].startswith("obj:") for e in els):
                    ok = True
        rep.check(ok, "R-C17-d", where0, "shortcut builds a new aggregator", "a fresh ffunc/xfunc object is constructed for this call", "calculate() is not given a freshly constructed aggregator")
        stats["shortcuts"] += 1
    return I


def regions_per_position(prog, rep):
    """R-C17-g: calculate allocates one set of result regions per POSITION of the list it is given.  A container keyed by
    the aggregator object gives two positions that hold the same object ONE set of regions: both are filled and then
    reduced twice (reduce is not idempotent: it differences in place), so calculate([f, g, f])[0] != calculate([f])[0]."""
    import ast
    n = 0
    for module, qual in (("ccubes", "ccube.calculate"), ("xcubes", "xcube.calculate")):
        fi = prog.func(module, qual)
        where = fi.fq
        cons = "%s: result regions are allocated per position of the aggregate list" % qual.split(".")[0]
        sites = []
        for node in ast.walk(fi.node):
            if isinstance(node, (ast.ListComp, ast.DictComp, ast.GeneratorExp, ast.SetComp)):
                body = [node.elt] if not isinstance(node, ast.DictComp) else [node.key, node.value]
                if any(isinstance(c, ast.Call) and isinstance(c.func, ast.Attribute) and c.func.attr == "get_initial_regions" for b in body for c in ast.walk(b)):
                    sites.append(node)
            if isinstance(node, ast.Assign) and isinstance(node.targets[0], ast.Subscript) and any(
                    isinstance(c, ast.Call) and isinstance(c.func, ast.Attribute) and c.func.attr == "get_initial_regions" for c in ast.walk(node.value)):
                sites.append(node)
        if len(sites) != 1:
            rep.undecided("R-C17-g", where, cons, "%d allocation sites of get_initial_regions results" % len(sites))
            continue
        n += 1
        s = sites[0]
        if isinstance(s, ast.ListComp):
            rep.proved("R-C17-g", "%s@%d" % (where, s.lineno), cons, "a list parallel to the aggregates")
        elif isinstance(s, ast.DictComp) or isinstance(s, ast.Assign):
            key = s.key if isinstance(s, ast.DictComp) else s.targets[0].slice
            recv = {c.func.value.id for c in ast.walk(s.value) if isinstance(c, ast.Call) and isinstance(c.func, ast.Attribute) and c.func.attr == "get_initial_regions" and isinstance(c.func.value, ast.Name)}
            if isinstance(key, ast.Name) and key.id in recv:
                rep.violated("R-C17-g", "%s@%d" % (where, s.lineno), cons, "the regions are kept in a mapping keyed by the aggregator OBJECT: a list that holds the same object twice gets one set of regions for both positions, "
                             "which is then reduced (differenced in place) twice", witness={"history": "c = ffunc_count(); cube.calculate([c, s, c]): every common cell of both count outputs is NaN / 0"})
            else:
                rep.undecided("R-C17-g", "%s@%d" % (where, s.lineno), cons, "regions stored under a key that is not recognised as a position")
        else:
            rep.undecided("R-C17-g", "%s@%d" % (where, s.lineno), cons, "regions are produced lazily (generator / set)")
    rep.floor("R-C17-g", 2, n)


def main(tier):
    rep = core.Report("C17", level="other", rules=RULES, tier=tier,
                      declined="'computing several aggregates together equals computing each alone' as a numerical statement; decided: frame conditions (no write reaches caller storage) and absence of carried state")
    rep.trusted_base = ["CPython ast", "symbolic walker with full inlining (sa/symex.py)", "NumPy/builtin summary table in sa/own.py (fresh / view / mutates)"]
    rep.assume("receivers typed by the protocol hints in sa/hints.py (funcs are ffunc/xfunc objects, dims are iindexes)")
    prog = Program()
    roots = build_roots(prog)
    stats = {"events": 0, "mods": 0, "diagnostic": {}, "exceptions": {}, "regions": 0, "shortcuts": 0}
    for fi, kind in roots:
        if fi.opaque:
            continue
        analyse_root(prog, fi, kind, rep, stats)
    from sa import cyfront, cystate
    kn = 0
    for status, where, cons, detail in cystate.analyse(cyfront.load()):
        kn += 1
        rep.add("R-C17-e", where, cons, status, detail, True, {"history": "pooled ccube evaluation with poolsize >= 2: two tasks intersect into the same workspace at once and one receives the other's row ids"} if status == "VIOLATED" else None)
    rep.floor("R-C17-e", 4, kn)
    # R-C17-f: pooled evaluation equals serial evaluation only if calculate waits for its tasks and they write disjoint
    # blocks: decided by the C16 analysis (dispatch is blocking, tasks select their own region views)
    import c16
    k16 = 0
    for module, clsname in (("ccubes", "ccube"), ("xcubes", "xcube")):
        sub16 = core.Report("C16", level="other", rules=c16.RULES, tier=tier)
        c16.analyse_one(prog, module, clsname, sub16)
        for o in sub16.obls:
            if o.rule in ("R-C16-a", "R-C16-b", "R-C16-c"):
                k16 += 1
                rep.add("R-C17-f", o.where, "[%s] %s" % (o.rule, o.construct), o.status, o.detail, True, o.witness)
    rep.floor("R-C17-f", 6, k16)
    regions_per_position(prog, rep)
    rep.analysed["roots"] = ["%s [%s]" % (fi.fq, k) for fi, k in roots]
    rep.analysed["events"] = stats["events"]
    rep.analysed["write_events_classified"] = stats["mods"]
    rep.extra["whitelisted_diagnostics"] = stats["diagnostic"]
    rep.extra["documented_exceptions"] = list(stats["exceptions"])
    rep.floor("R-C17-c", 13, stats["regions"])
    rep.floor("R-C17-d", 14, stats["shortcuts"])
    rep.floor("R-C17-a", 85, len(roots))
    return rep.finish()


if __name__ == "__main__":
    core.run_main("C17", main)
