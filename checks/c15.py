#!/venv/bin/python
"""C15 - library-chosen common value is a most frequent value; equality is canonical.

Decided structurally (DESIGN 4 C15):
  R-C15-a  a dict subclass that defines __eq__ also defines __ne__ (else dict.__ne__ wins
           the slot and compares the arrays themselves, which raises);
  R-C15-b  append / filtered end with an argument-less shift_common() after the last store;
           collapsed returns from_array(dense) without a common; from_array without a
           common takes it from the selection loop;
  R-C15-c  the selections are arg-max idioms over counts that include the common value's own
           count (size - sum of listed);
  R-C15-d  __eq__ reads shape, common and the row ids of both operands; its only handler
           turns AttributeError into False.
Declined: that the chosen value's count IS maximal for given data, and == iff dense
equality over histories (values).
"""
import ast
import os
import sys

sys.path.insert(0, os.path.dirname(os.path.dirname(os.path.abspath(__file__))))
from sa import core, hints, terms as tm
from sa.terms import T
from sa.pyfront import Program
from sa.symex import Interp

RULES = {
    "R-C15-g": "== compares the common values (and shapes) exactly: no numpy.isclose / allclose / math.isclose on them, whose relative tolerance makes nearby large codes equal and == non-transitive",
    "R-C15-f": "the class reads as a dict through dict's own protocol: __len__ (entry count - the term of __eq__ that notices keys missing from self), __iter__, __contains__, __getitem__, keys, __bool__, __hash__ are inherited or merely delegate",
    "R-C15-e": "no library operation leaves an entry with an empty row list (== compares entry counts, so such an index differs from its twin with the same dense content): imported from C07 rule b",
    "R-C15-a": "a subclass of a builtin with rich comparisons that defines __eq__ defines __ne__ as its negation",
    "R-C15-b": "library-side construction paths end by normalising the common value (argument-less shift_common / from_array without common)",
    "R-C15-c": "the common value is selected by an arg-max over counts that include the common value's own count",
    "R-C15-d": "__eq__ depends on shape, common and every entry's row ids of both operands; only AttributeError is turned into False",
}


def run(prog, qual, **kw):
    fi = prog.func("iindexes", qual)
    I = Interp(prog, hints.param_types_for("iindexes"), hints.FIELD_TYPES, **kw)
    fr = I.run(fi)
    return fi, I, fr


def rule_a(prog, rep):
    n = 0
    for ci in prog.all_classes():
        ext = prog.external_bases(ci)
        rich = [b for b in ext if b in ("dict", "list", "set", "tuple", "str", "frozenset", "OrderedDict", "defaultdict")]
        if not rich:
            continue
        has_eq = prog.lookup_method(ci, "__eq__") is not None
        has_ne = prog.lookup_method(ci, "__ne__") is not None
        if not has_eq:
            continue
        n += 1
        where = ci.fq
        if not has_ne:
            rep.violated("R-C15-a", where, "__ne__ of %s(%s)" % (ci.name, rich[0]),
                         "__eq__ is overridden but __ne__ is inherited from %s: `a != b` compares the row-id arrays with dict semantics and raises ValueError for arrays longer than one" % rich[0],
                         witness={"inputs": "two equal indexes whose entry has more than one row: a != b raises instead of returning False"})
            continue
        ne = prog.lookup_method(ci, "__ne__")
        # body must be `return not (self == other)` / `not self.__eq__(other)`
        ok = False
        body = [b for b in ne.node.body if not (isinstance(b, ast.Expr) and isinstance(b.value, ast.Constant))]
        # `r = <expr>; return r` is `return <expr>`
        if len(body) == 2 and isinstance(body[0], ast.Assign) and len(body[0].targets) == 1 and isinstance(body[0].targets[0], ast.Name) \
                and isinstance(body[1], ast.Return) and isinstance(body[1].value, ast.Name) and body[1].value.id == body[0].targets[0].id:
            body = [ast.Return(body[0].value)]
        if len(body) == 1 and isinstance(body[0], ast.Return) and isinstance(body[0].value, ast.UnaryOp) and isinstance(body[0].value.op, ast.Not):
            inner = body[0].value.operand
            if isinstance(inner, ast.Compare) and len(inner.ops) == 1 and isinstance(inner.ops[0], ast.Eq):
                ok = True
            if isinstance(inner, ast.Call) and isinstance(inner.func, ast.Attribute) and inner.func.attr == "__eq__":
                ok = True
        if ok:
            rep.proved("R-C15-a", where, "__ne__ of %s(%s)" % (ci.name, rich[0]), "__ne__ returns the negation of __eq__")
        else:
            rep.undecided("R-C15-a", where, "__ne__ of %s(%s)" % (ci.name, rich[0]), "__ne__ is defined but not recognisably `not (self == other)`")
    rep.floor("R-C15-a", 1, n)


def is_argless_shift(ev, recv=None):
    return ev.kind == "call" and ev["method"] == "shift_common" and not ev["args"] and not ev["kwargs"] and (recv is None or ev["recv"] == recv)


def rule_b(prog, rep):
    # append: last effect on self is an unconditional argument-less shift_common()
    fi, I, fr = run(prog, "iindex.append", inline=False)
    top = [e for e in I.events if not e.stack]
    self_t = tm.param("self")
    shifts = [e for e in top if is_argless_shift(e, self_t)]
    writes = [e for e in top if (e.kind in ("store_sub", "del_sub") and e["base"] == self_t) or (e.kind == "store_attr" and e["base"] == self_t)]
    ok = bool(shifts) and shifts[-1].seq > max([w.seq for w in writes] or [0]) and all(_raise_guard(I, c, p) for c, p in shifts[-1].guards) and not shifts[-1].loops
    rep.check(ok, "R-C15-b", fi.fq, "append ends with shift_common()", "after the last store, unconditional",
              "append does not re-normalise the common value after its last store" if shifts == [] or not ok else "",
              witness={"history": "append rows that make another value the most frequent one"})
    # filtered: returned object received an argument-less shift_common() after construction
    fi, I, fr = run(prog, "iindex.filtered")
    rets = [v for v, g in fr.returns]
    ok = False
    for v in rets:
        shifts = [e for e in I.events if not e.stack and is_argless_shift(e, v)]
        stores = [e for e in I.events if not e.stack and e.kind == "store_sub"]
        if shifts and all(_raise_guard(I, c, p) for c, p in shifts[-1].guards) and shifts[-1].seq > max([s.seq for s in stores] or [0]):
            ok = True
    rep.check(ok and len(rets) == 1, "R-C15-b", fi.fq, "filtered returns an index normalised by shift_common()", "", "filtered's result is not re-normalised",
              witness={"history": "filter away most rows of the common value"})
    # collapsed: returns from_array(...) without common
    fi, I, fr = run(prog, "iindex.collapsed", inline=False)
    top = [e for e in I.events if not e.stack]
    calls = [e for e in top if e.kind == "call" and e["method"] == "from_array"]
    rets = [e for e in top if e.kind == "return"]
    ok = bool(calls) and all(len(c["args"]) <= 1 and not any(k in ("common", "counts") for k, _ in c["kwargs"]) for c in calls)
    ok = ok and any(r["value"] == c["result"] for r in rets for c in calls)
    rep.check(ok, "R-C15-b", fi.fq, "collapsed returns from_array(dense) with a library-chosen common", "", "collapsed does not delegate the choice of the common value to from_array",
              witness={"history": "collapse an index whose result is dominated by a value other than the old common"})
    # from_array: when common is None the value comes from the selection loop (checked in R-C15-c); here: the None case raises or selects
    fi, I, fr = run(prog, "iindex.from_array", inline=False)
    return I


def _raise_guard(I, c, pol):
    for ev in I.events:
        if ev.kind == "raise":
            for cc, pp in ev.guards:
                if cc == c and pp != pol:
                    return True
    return False


def rule_c(prog, rep):
    n = 0
    # idiom 1: running maximum in from_array
    fi, I, fr = run(prog, "iindex.from_array", inline=False)
    found = False
    for (name, lid), be in list(I.backedge.items()):
        if name != "common":
            continue
        li = I.loopinfo[lid]
        it = li.get("iter")
        if it is None or not (it.op == "call" and tm.callee_name(it) == ".items"):
            continue
        d = it.args[0].args[0]
        key, val = T("dkey", d, lid), T("dval", d, lid)
        alts = tm.alts(be)
        if be.op != "ifexp":
            continue
        cond, new, old = be.args
        cmps = [x for x in tm.walk(cond) if x.op == "cmp" and x.args[0] in (">", ">=", "<", "<=")]
        good = False
        for c in cmps:
            op, a, b = c.args
            if op in ("<", "<="):
                a, b = b, a
            # count of this value > best count so far
            if a == val and tm.contains(b, lambda x: x.op == "loopvar" and x.args[1] == lid):
                best_name = [x for x in tm.walk(b) if x.op == "loopvar" and x.args[1] == lid][0].args[0]
                bb = I.backedge.get((best_name, lid))
                if bb is not None and bb.op == "ifexp" and bb.args[0] == cond and bb.args[1] == val and new == key:
                    good = True
            if b == val and tm.contains(a, lambda x: x.op == "loopvar" and x.args[1] == lid):
                rep.violated("R-C15-c", fi.fq, "running selection in from_array", "the comparison keeps the value with the SMALLEST count",
                             witness={"inputs": "[0,0,0,1]: common becomes 1"})
                found = True
                good = None
        if good:
            found = True
            n += 1
            rep.proved("R-C15-c", fi.fq, "running maximum over (value, count) pairs in from_array", "common := value whenever its count exceeds the best so far; best := that count")
            # the dict iterated holds every distinct value with its count: counts (or mapped counts)
            srcs = tm.alts(d)
            M = tm.param("mapping")
            for sdict in srcs:
                if sdict.op == "comp" and sdict.args[0] == "dict" and sdict.args[1].op == "tuple" and len(sdict.args[1].args) == 2 \
                        and tm.contains(sdict.args[1].args[0], lambda x: x.op == "sub" and M in tm.alts(x.args[0])):
                    rep.violated("R-C15-c", fi.fq, "counts of the mapped values",
                                 "the counts are re-keyed with a dict comprehension {mapping[v]: c ...}: when the mapping merges several present values only the last one's count survives, so the arg-max can pick a value that is not the most frequent one",
                                 witness={"inputs": "0 x4, 1 x3, 2 x3 with mapping {0: 0, 1: 5, 2: 5}: 0 (4) is chosen over 5 (6)"})
            okd = all(tm.contains(s, lambda x: x == tm.param("counts") or (x.op == "call" and tm.callee_name(x) in ("numpy.bincount", "numpy.unique", "collections.defaultdict"))) for s in srcs)
            rep.check(okd, "R-C15-c", fi.fq, "the selection ranges over the counts of all distinct values", "", "iterates %s" % tm.show(d)[:80])
    if not found:
        rep.undecided("R-C15-c", fi.fq, "selection idiom in from_array", "no running-maximum loop over value counts recognised")
    # idiom 2: max([(count, key) ...])[1]
    for qual in ("iindex.shift_common", "iindex.common_common"):
        fi, I, fr = run(prog, qual, inline=False)
        sel = None
        for ev in I.events:
            if ev.kind == "call" and ev["name"] in ("builtins.max", "builtins.min") and ev["args"]:
                a = ev["args"][0]
                if a.op == "comp" and a.args[1].op == "tuple" and len(a.args[1].args) == 2:
                    sel = ev
        if sel is None:
            rep.undecided("R-C15-c", fi.fq, "selection idiom", "no max([(count, value) ...]) recognised")
            continue
        n += 1
        a = sel["args"][0]
        first, second = a.args[1].args
        lid = a.args[2][0]
        it = I.loopinfo[lid]["iter"]
        d = it.args[0].args[0] if it.op == "call" and tm.callee_name(it) == ".items" else None
        ok = sel["name"] == "builtins.max" and d is not None and first == T("dval", d, lid) and second == T("dkey", d, lid)
        rep.check(ok, "R-C15-c", "%s@%d" % (fi.fq, sel.line), "arg-max over (count, value) pairs",
                  "max of (count, value) tuples; the value component is taken",
                  "selection is %s over (%s, %s)" % (sel["name"], tm.show(first)[:30], tm.show(second)[:30]),
                  witness={"inputs": "index with values 0,0,0,1 and common 1: shift_common() keeps 1"})
        # result [1] is used
        used = any(x.op == "sub" and x.args[0] == sel["result"] and tm.is_const(x.args[1], 1) for e in I.events for v in e.d.values() if isinstance(v, T) for x in tm.walk(v))
        rep.check(used, "R-C15-c", fi.fq, "the selected VALUE (component 1) becomes the common value", "", "the tuple's value component is not what is used")
        # the common value's own count is included before the max
        inc = [e for e in I.events if e.kind == "store_sub" and e.seq < sel.seq and d is not None and e["base"] in tm.alts(d) + [d]
               and e["index"].op == "attr" and e["index"].args[1] == "common"]
        ok_inc = False
        for e in inc:
            v = e["value"]
            # size - sum(listed)   (possibly accumulated with +=)
            if tm.contains(v, lambda x: x.op == "binop" and x.args[0] == "-" and tm.contains(x.args[1], lambda y: y.op == "attr" and y.args[1] == "size" or (y.op == "call" and tm.callee_name(y) == "iindexes:iindex.size"))
                           and tm.contains(x.args[2], lambda y: y.op == "call" and tm.callee_name(y) == "builtins.sum")):
                ok_inc = True
        # every listed value enters with the number of its rows
        acc = [e for e in I.events if e.kind == "store_sub" and e["aug"] == "+" and e.loops and d is not None and (e["base"] in tm.alts(d) + [d])
               and e["index"].op == "sub" and e["index"].args[0].op == "dkey" and tm.is_const(e["index"].args[1], 0)]
        def _len_rows(e):
            v = e["value"]
            rhs = v.args[2] if v.op == "binop" else v
            return rhs.op == "call" and tm.callee_name(rhs) == "builtins.len" and rhs.args[1][0].op == "dval" and rhs.args[1][0].args[:2] == e["index"].args[0].args[:2]
        rep.check(bool(acc) and all(_len_rows(e) for e in acc), "R-C15-c", fi.fq, "every listed value enters the comparison with the number of its rows: counts[coords[0]] += len(rowids)", "",
                  "the per-value counts are not accumulated from the entries (%d accumulating stores)" % len(acc),
                  witness={"inputs": "a 2-D index: a value listed in two columns counts once / with a wrong weight, and a less frequent value is chosen"})
        rep.check(ok_inc, "R-C15-c", fi.fq, "the common value competes with its own count (size - sum of listed rows)", "",
                  "the implicit count of the common value is not entered into the comparison",
                  witness={"inputs": "index where the common value is still the most frequent: it would be replaced"})
    rep.floor("R-C15-c", 3, n)


def _kids(t):
    out = []
    for a in t.args:
        if isinstance(a, tm.T):
            out.append(a)
        elif isinstance(a, (tuple, list)):
            for b in a:
                if isinstance(b, tm.T):
                    out.append(b)
                elif isinstance(b, (tuple, list)):
                    out.extend(c for c in b if isinstance(c, tm.T))
    return out


def rule_d(prog, rep):
    fi, I, fr = run(prog, "iindex.__eq__")
    self_t, other = tm.param("self"), tm.param("other")
    rets = [(v, g) for v, g in fr.returns]
    def _is_notimpl(v):
        return (tm.dotted(v) or "").split(".")[-1] == "NotImplemented" or (v.op in ("global", "ext", "name") and "NotImplemented" in tm.show(v))
    notimpl = [v for v, g in rets if _is_notimpl(v)]
    for v in notimpl:
        rep.violated("R-C15-d", fi.fq, "__eq__ returns NotImplemented",
                     "__ne__ is `not self.__eq__(other)` and NotImplemented is truthy, so `idx != x` is False while `idx == x` is False too; and since iindex subclasses dict, `==` falls back to dict.__eq__ "
                     "(an entry-less index equals {}, and comparing with a dict of arrays raises ValueError)",
                     witness={"inputs": "idx != None -> False;  iindex.from_array(numpy.zeros(4, int)) == {} -> True"})
    main = [v for v, g in rets if not tm.is_const(v) and not _is_notimpl(v)]
    consts = [(v, g) for v, g in rets if tm.is_const(v)]
    if len(main) != 1:
        rep.undecided("R-C15-d", fi.fq, "__eq__ result", "%d non-constant return values" % len(main))
        return
    v = main[0]

    def reads(obj, attr):
        return tm.contains(v, lambda x: x.op == "attr" and x.args[0] == obj and x.args[1] == attr)

    for attr in ("shape", "common"):
        rep.check(reads(self_t, attr) and reads(other, attr), "R-C15-d", fi.fq, "__eq__ compares %s of both operands" % attr, "",
                  "%s of %s is not read" % (attr, "self" if not reads(self_t, attr) else "other"),
                  witness={"inputs": "two indexes differing only in %s compare equal" % attr})
    # all entries: iterate one side's items and look the key up in the other; plus equal number of entries
    it_self = tm.contains(v, lambda x: x.op == "dval" and x.args[0] == self_t)
    get_other = tm.contains(v, lambda x: x.op == "call" and tm.callee_name(x) == ".get" and x.args[0].args[0] == other and x.args[1] and x.args[1][0].op == "dkey")
    len_both = tm.contains(v, lambda x: x.op == "cmp" and x.args[0] == "==" and all(a.op == "call" and tm.callee_name(a) == "builtins.len" for a in x.args[1:])
                           and {x.args[1].args[1][0], x.args[2].args[1][0]} == {self_t, other})
    alld = tm.contains(v, lambda x: x.op == "call" and tm.callee_name(x) == "builtins.all")
    rep.check(it_self and get_other and alld, "R-C15-d", fi.fq, "__eq__ compares the row ids of every entry of self with the same key of other", "",
              "entries are not all compared", witness={"inputs": "same shape/common, different rows"})
    # the per-entry comparison is a SYMMETRIC equality of the two row-id arrays
    SYM = ("numpy.setxor1d", "numpy.array_equal", "numpy.array_equiv")
    ONE = ("set_operations:difference", "set_operations:set_difference_merge_np", "numpy.setdiff1d", "numpy.isin", "numpy.in1d")
    sym = [x for x in tm.walk(v) if x.op == "call" and tm.callee_name(x) in SYM]
    one = [x for x in tm.walk(v) if x.op == "call" and tm.callee_name(x) in ONE]
    elementwise = tm.contains(v, lambda x: x.op == "cmp" and x.args[0] == "==" and any(a.op == "dval" for a in x.args[1:]))
    if sym or elementwise:
        rep.proved("R-C15-d", fi.fq, "per entry, the two row-id arrays are compared symmetrically", "%s" % (tm.callee_name(sym[0]) if sym else "element-wise =="))
    elif one:
        dirs = {tuple(tm.show(a)[:40] for a in x.args[1][:2]) for x in one}
        both = any((b, a) in dirs for a, b in dirs)
        if both:
            rep.proved("R-C15-d", fi.fq, "per entry, the two row-id arrays are compared symmetrically", "both one-sided differences are taken")
        else:
            rep.violated("R-C15-d", fi.fq, "per entry, the two row-id arrays are compared symmetrically",
                         "the comparison is the ONE-SIDED %s(self rows, other rows): it only says that self's rows are a subset of other's, so a == b can be True while b == a is False and the dense contents differ" % tm.callee_name(one[0]).split(":")[-1],
                         witness={"inputs": "b = a.copy(); b.update({(1,): [more rows]}): a == b is True, b == a is False"})
    else:
        rep.undecided("R-C15-d", fi.fq, "per entry, the two row-id arrays are compared symmetrically", "comparison not recognised")
    # a symmetric DIFFERENCE is an array of row ids: its emptiness is its length, never its truth value (row id 0 is falsy)
    for x in [x for x in sym if tm.callee_name(x) == "numpy.setxor1d"]:
        users = [u for u in tm.walk(v) if u is not x and any(a is x or a == x for a in _kids(u))]
        verdict = None
        for u in users:
            nm = tm.callee_name(u) if u.op == "call" else None
            if u.op == "call" and nm == "builtins.len":
                verdict = "len"
            elif u.op == "attr" and u.args[1] in ("size",):
                verdict = "len"
            elif (u.op == "call" and nm in ("numpy.any", "numpy.all", "numpy.sum", "numpy.count_nonzero", "builtins.bool", "builtins.any", "builtins.all", "builtins.sum")) or \
                    (u.op == "attr" and u.args[1] in ("any", "all", "sum")) or u.op == "not" or (u.op == "bool" and x in u.args[1:]):
                verdict = verdict or ("truth", tm.show(u)[:60])
        if verdict == "len":
            rep.proved("R-C15-d", fi.fq, "the symmetric difference is tested for emptiness by its length", "len / size")
        elif verdict:
            rep.violated("R-C15-d", fi.fq, "the symmetric difference is tested for emptiness by its length",
                         "the difference (an array of ROW IDS) is reduced by truth value (%s): row id 0 is falsy, so two indexes that differ only in row 0 compare equal" % verdict[1],
                         witness={"inputs": "iindex.from_array([1, 2, 0]) == iindex.from_array([0, 2, 0]) -> True"})
        else:
            rep.undecided("R-C15-d", fi.fq, "the symmetric difference is tested for emptiness by its length", "use of the difference not recognised")
    rep.check(len_both, "R-C15-d", fi.fq, "__eq__ compares the number of entries (so keys only in other are noticed)", "",
              "an entry present only in the right operand goes unnoticed", witness={"inputs": "b has one more entry than a"})
    conj = v.op == "bool" and v.args[0] == "and"
    rep.check(conj, "R-C15-d", fi.fq, "the components are combined with `and`", "", "result is %s" % v.op)
    # handlers
    trys = [t for t in I.tryinfo.values() if t["kind"] == "try" and t["fi"] is fi]
    ok = True
    for t in trys:
        for h in t["handlers"]:
            ty = tm.dotted(h["type"]) if h["type"].op == "ext" else None
            if ty != "builtins.AttributeError":
                ok = False
    rep.check(ok, "R-C15-d", fi.fq, "the only exception turned into False is AttributeError (comparison with a non-index)", "",
              "a broader handler hides errors as inequality")
    for c, g in consts:
        rep.check(c == tm.FALSE, "R-C15-d", fi.fq, "constant result of __eq__ is False", "", "returns constant %s" % tm.show(c))


def rule_g(prog, rep):
    """R-C15-g: the three things == compares are compared EXACTLY.  A tolerant comparison of the common values
    (numpy.isclose / allclose / math.isclose - e.g. to make a NaN common value equal to itself) is relative: integer codes
    from about 1e5 on that differ by a few units compare equal, so indexes with different dense contents are ==, and
    == is not transitive."""
    fi, I, fr = run(prog, "iindex.__eq__")  # helpers inlined
    self_t, other = tm.param("self"), tm.param(fi.params()[1])
    tol = [e for e in I.events if e.kind == "call" and (e["name"] or "") in ("numpy.isclose", "numpy.allclose", "math.isclose", "numpy.testing.assert_allclose")]
    cons = "== compares shape, common value and row ids exactly (no tolerance)"
    bad = [e for e in tol if any(tm.contains(a, lambda x: x.op == "attr" and x.args[1] in ("common", "shape") and x.args[0] in (self_t, other)) for a in e["args"])]
    if bad:
        e = bad[0]
        rep.violated("R-C15-g", "%s@%d" % (e.fi.fq, e.line), cons,
                     "the common values (or shapes) are compared with %s, a RELATIVE tolerance (rtol=1e-5 by default): two indexes whose common values are large codes a few units apart - and that otherwise agree - are equal although their dense arrays differ" % e["name"],
                     witness={"history": "from_array([202401]*7 + [7]) == from_array([202403]*7 + [7]) is True; 202401 vs 202405 is False while 202403 equals both: == is not transitive"})
    elif tol:
        rep.undecided("R-C15-g", "%s@%d" % (tol[0].fi.fq, tol[0].line), cons, "a tolerant comparison (%s) is used inside ==; what it compares is not recognised" % tol[0]["name"])
    else:
        rep.proved("R-C15-g", fi.fq, cons, "no isclose / allclose in == or its helpers")


DICT_PROTOCOL = ("__len__", "__iter__", "__contains__", "__getitem__", "__bool__", "keys", "__hash__")


def rule_f(prog, rep):
    """R-C15-f: __eq__ reads its operands through the dict protocol - len() as the number of ENTRIES (the only term that
    notices keys of `other` missing from `self`), iteration and `in` over the KEYS.  That holds while the class inherits
    those from dict: an override is accepted when it only delegates to dict's own, VIOLATED for __len__ otherwise (the
    entry-count test of __eq__ then compares something else), UNDECIDED for the others."""
    ii = prog.cls("iindexes", "iindex")
    where = "iindexes:iindex"
    n = 0
    for name in DICT_PROTOCOL:
        fi = ii.methods.get(name)
        cons = "iindex inherits dict.%s (what == reads its operands through)" % name
        n += 1
        if fi is None:
            rep.proved("R-C15-f", where, cons, "not overridden")
            continue
        I = Interp(prog, hints.param_types_for("iindexes"), hints.FIELD_TYPES, inline=False)
        I.run(fi)
        rets = [e["value"] for e in I.events if e.kind == "return" and not e.stack]

        def delegates(v):
            if v.op != "call":
                return False
            nm = tm.callee_name(v) or ""
            return nm in ("builtins.dict.%s" % name, ".%s" % name) and tm.contains(v, lambda x: x.op in ("super", "call") and "super" in tm.show(x)[:20]) or nm == "builtins.dict.%s" % name
        import ast as _ast

        def ast_delegates(node):
            """every return of the method is super().<name>(...) / super(C, self).<name>(...) / dict.<name>(self, ...)"""
            rs = [x for x in _ast.walk(node) if isinstance(x, _ast.Return)]
            if not rs:
                return False
            for r in rs:
                v = r.value
                if not (isinstance(v, _ast.Call) and isinstance(v.func, _ast.Attribute) and v.func.attr == name):
                    return False
                o = v.func.value
                if isinstance(o, _ast.Call) and isinstance(o.func, _ast.Name) and o.func.id == "super":
                    continue
                if isinstance(o, _ast.Name) and o.id == "dict":
                    continue
                return False
            return True
        if ast_delegates(fi.node) or (rets and all(delegates(v) for v in rets)):
            rep.proved("R-C15-f", fi.fq, cons, "overridden, but returns dict's own result")
        elif name == "__len__":
            rep.violated("R-C15-f", fi.fq, cons,
                         "len(index) is redefined as %s: __eq__'s `len(self) == len(other)` no longer compares entry counts, so a == b holds whenever every entry of a is also in b - even if b has more entries (and b == a is False: == is not symmetric)"
                         % (tm.show(rets[0])[:50] if rets else "something else"),
                         witness={"history": "a = from_array([1,0,0,2]) ; b = from_array([1,0,3,2]) with the same shape and common: a's keys are a subset of b's -> a == b is True although the dense arrays differ"})
        else:
            rep.undecided("R-C15-f", fi.fq, cons, "the class overrides %s: what __eq__ (and every rule that reads an index as a dict) sees through it is not decided" % name)
    return n


def main(tier):
    rep = core.Report("C15", level="other", rules=RULES, tier=tier,
                      declined="count(common) == max count as a fact about data; a == b iff dense contents coincide over histories (values)")
    rep.trusted_base = ["CPython ast", "symbolic walker", "Python data model: a subclass inherits dict.__ne__ unless it defines its own"]
    prog = Program()
    rule_a(prog, rep)
    rule_b(prog, rep)
    rule_c(prog, rep)
    rule_d(prog, rep)
    rep.floor("R-C15-f", 7, rule_f(prog, rep))
    rule_g(prog, rep)
    # R-C15-e: == compares the NUMBER of entries, so two indexes with the same dense content are equal only if neither
    # carries an empty entry: no library operation stores one (R-C07-b of the C07 analysis)
    import c07
    sub7 = core.Report("C07", level="other", rules=c07.RULES, tier=tier)
    ii7 = prog.cls("iindexes", "iindex")
    st7 = {"sites": 0}
    for fi7 in [f for n7, f in ii7.methods.items() if n7 not in ("__init__",) and not (n7.startswith("_") and not n7.startswith("__"))] + [prog.func("iindexes", "column_stack")]:
        c07.analyse_root(prog, fi7, sub7, st7)
    k7 = 0
    for o in sub7.obls:
        if o.rule == "R-C07-b":
            k7 += 1
            rep.add("R-C15-e", o.where, "[%s] %s" % (o.rule, o.construct), o.status, o.detail, True,
                    o.witness if o.status != "VIOLATED" else {"history": "the result carries an entry with no rows: it has the same dense content as its directly built twin but one entry more, so == is False"})
    rep.floor("R-C15-e", 10, k7)
    return rep.finish()


if __name__ == "__main__":
    core.run_main("C15", main)
