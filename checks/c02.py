#!/venv/bin/python
"""C02 - count cube equals the brute-force contingency table.

Declined: equality with a brute-force table for all data (values).
Decided (structural necessary conditions, DESIGN 4 C02):
  R-C02-a  typestate of every region in every ffunc reduce: FILLED -> DIFFERENCED (exactly
           once) -> TRIMMED -> USED; a region trimmed but not differenced leaves every common
           cell at 0 - exactly the cells C02's second sentence is about;
  R-C02-b  for ffunc_count, each corner value is the ALL-rows instance of the value stored
           per cell (marginal differencing reconstructs a common cell as corner - sum of cells);
  R-C02-c  unweighted count: the missing mask is computed from the trimmed, differenced counts
           (count close to 0) and the same mask feeds the sentinel and the validity;
  R-C02-d  the inferred cube extent of a dimension covers its entries AND its common value,
           in Python-int arithmetic;
  R-C02-e  the differencing routine: common slice := margin - sum of the uncommon part, per axis,
           written at the dimension's own common coordinate.
The walk schema (C14), intersection exactness (C08) and index well-formedness (C07) are cited.
"""
import os
import sys

sys.path.insert(0, os.path.dirname(os.path.dirname(os.path.abspath(__file__))))
import c03
from sa import core, hints, aggr, aggtables as AT, kind as K, terms as tm
from sa.terms import T
from sa.pyfront import Program
from sa.symex import Interp

RULES = {
    "R-C02-m": "index-cube fill closures write every region of the presented cell unconditionally (no data-dependent skip): a skipped cell's rows stay in the margin and marginal differencing charges them to the common cell",
    "R-C02-j": "the index-cube fill closures come in a traced and an untraced variant (timing diagnostics): both store the same cell values",
    "R-C02-l": "the index methods a cube reads (slices1d, sliced, items, get, common_rowids, abscissae, size) keep nothing on the index between calls (frame analysis shared with C17)",
    "R-C02-k": "per configuration, a region that receives weight values is a float region and one that receives fact values is float or has the summed array's dtype (an integer region truncates on the store)",
    "R-C02-i": "pooled evaluation: every write of a sub-cube task is task-local or goes to the task's own block (R-C16-a/b), and reduce (marginal differencing) runs only after every sub-cube task has finished - blocking, re-raising dispatch on a pool created for the call (imported from the C16 analysis)",
    "R-C02-h": "every region an aggregate allocates is 64-bit int/float (or the fact array's own dtype): wide enough for any row count and for the negative intermediate values of marginal differencing",
    "R-C02-g": "every sub-cube task walks its dimensions: the task function has no early return (one taken only when NO dimension has an entry is harmless; one taken when SOME dimension has none skips the margins of the others)",
    "R-C02-f": "walk schema (imported from the C14 analysis): every non-empty uncommon and marginal intersection is presented exactly once, with no early exit from the entry loops",
    "R-C02-a": "every region of every index-cube aggregate is differenced exactly once, before it is trimmed, tested or returned",
    "R-C02-b": "ffunc_count corner values are the all-rows instances of the per-cell values",
    "R-C02-c": "unweighted count: missing <=> trimmed differenced count is (close to) zero; one mask for sentinel and validity",
    "R-C02-d": "inferred extents depend on both the entries and the common value and are Python ints",
    "R-C02-e": "marginal differencing writes margin - sum(uncommon) at the dimension's common coordinate, axis by axis",
}


def rule_c(prog, rep):
    for rma in AT.RMAS:
        cfg = aggr.Config(weights="none", rma=rma)
        m = AT.model(prog, "ffuncs", "ffunc_count", cfg)
        s = AT.reduce_summary(m)
        where = "ffuncs:ffunc_count.reduce"
        cons = "unweighted count, return_missing_as %s" % rma
        if s is None or s[0] is None:
            rep.undecided("R-C02-c", where, cons, "missing mask not found")
            continue
        atoms = m.predicate(s[0])
        ok = atoms is not None and [(k, p) for k, p, t in atoms] == [("close0", 0)]
        trimmed = ok and tm.contains(atoms[0][2], lambda x: x.op == "sub" and x.args[1] == T("attr", tm.param("cube"), "marginless"))
        rep.check(bool(ok and trimmed), "R-C02-c", where, cons, "missing <=> isclose(trimmed differenced counts, 0)",
                  "missing cells are not exactly the cells whose count is zero: %s" % (atoms and [(k, p) for k, p, t in atoms]),
                  witness={"inputs": "a cell with zero rows / a cell with rows"})


def deep_contains(t, pred, I):
    for x in tm.walk(t):
        if pred(x):
            return True
        if x.op == "alloc":
            h = I.heap.get(x, {})
            for e in list(h.get("elts", [])) + [v for _, v in h.get("items", [])]:
                if deep_contains(e, pred, I):
                    return True
    return False


def rule_d(prog, rep):
    fi = prog.func("ccubes", "ccube.__init__")
    I = Interp(prog, hints.param_types_for("ccubes"), hints.FIELD_TYPES)
    I.run(fi)
    val = None
    for ev in I.events:
        if ev.kind == "store_attr" and ev["attr"] == "interacting_shape" and not ev.stack:
            val = ev["value"]
    where = fi.fq
    inferred = [a for a in tm.alts(val) if a != tm.param("interacting_shape")] if val is not None else []
    if not inferred:
        rep.undecided("R-C02-d", where, "inferred extent", "no inferred alternative found")
        return
    for a in inferred:
        comp = a.args[1][0] if (a.op == "call" and a.args[1] and a.args[1][0].op == "comp") else None
        if comp is None:
            rep.undecided("R-C02-d", where, "inferred extent", "not tuple(<generator over dims>)")
            continue
        elt = comp.args[1]
        lid = comp.args[2][0]
        d = T("iter", I.loopinfo[lid]["iter"], lid)
        dep_common = deep_contains(elt, lambda x: x == T("attr", d, "common"), I)
        dep_entries = deep_contains(elt, lambda x: x.op == "iter" and x.args[0] == d, I)
        is_max = tm.contains(elt, lambda x: x.op == "call" and tm.callee_name(x) in ("builtins.max", "numpy.max"))
        plus1 = elt.op == "binop" and elt.args[0] == "+" and tm.is_const(elt.args[2], 1)
        rep.check(dep_common and dep_entries and is_max and plus1, "R-C02-d", where, "inferred extent = max(entry values, common value) + 1 per dimension",
                  "covers entries and the common category", "extent %s" % ("ignores the common value" if not dep_common else "ignores the entries" if not dep_entries else "is not max(...) + 1"),
                  witness={"inputs": "a dimension whose common value is its largest category"})
        ctx = K.KindCtx(I)
        k = c03.kind_of_extent(elt, ctx, I)
        if k == K.PYINT:
            rep.proved("R-C02-d", where, "inferred extent is a Python int", "keys and common value of an index are plain ints")
        elif k in (K.NPFIXED, K.ARRAY):
            rep.violated("R-C02-d", where, "inferred extent is a Python int", "extent is a fixed-width NumPy scalar: max + 1 can wrap")
        else:
            rep.undecided("R-C02-d", where, "inferred extent is a Python int", "kind not determined")


def rule_e(prog, rep):
    """Shape of _compute_common_cells_from_marginal_diffs (shared with C05 R-C05-a)."""
    fi = prog.func("ccubes", "ccube._compute_common_cells_from_marginal_diffs")
    I = Interp(prog, hints.param_types_for("ccubes"), hints.FIELD_TYPES)
    I.run(fi)
    where = fi.fq
    REGION = tm.param([a for a in fi.params() if a not in ("self", "cls")][0])  # first parameter, whatever its name
    st = [e for e in I.events if e.kind == "store_sub" and e["base"] == REGION]
    # an accumulator that is a VIEW of one plane of the array it loops over adds itself when the loop reaches that plane
    for a in [e for e in I.events if e.kind == "aug_name" and e.loops]:
        old = a["old"]
        for alt in tm.alts(old):
            if alt.op != "sub":
                continue
            base = alt.args[0]
            for lid in a.loops:
                it = I.loopinfo.get(lid, {}).get("iter")
                if it is None:
                    continue
                itbase = it.args[0] if it.op == "sub" else it
                if itbase == base and tm.contains(base, lambda x: x == REGION) and not any(tm.contains(c, lambda x: x.op == "cmp" and x.args[0] in ("is", "is not", "!=", "==")) for c, pol in a.guards):
                    rep.violated("R-C02-e", "%s@%d" % (where, a.line), "the common cells are written from the margin and the uncommon planes only",
                                 "`%s %s= <plane>` accumulates into %s, which is a view of one of the planes the loop runs over (%s): when the loop reaches that plane the running total is added to itself - "
                                 "exact only while nothing has been accumulated yet, i.e. for common category 0" % (a["name"], a["op"], tm.show(alt)[:50], tm.show(it)[:50]),
                                 witness={"inputs": "a dimension whose common category is not 0 (e.g. after shift_common(1)): the reconstructed cells lose the sum of the planes below it"})
                    return
    if len(st) != 1 or not st[0].loops:
        rep.undecided("R-C02-e", where, "differencing store", "expected one store into the region inside the per-axis loop")
        return
    e = st[0]
    v = e["value"]
    ok = v.op == "binop" and v.args[0] == "-"
    lhs_margin = ok and v.args[1].op == "sub" and v.args[1].args[0] == REGION
    rhs_sum = ok and v.args[2].op == "call" and tm.callee_name(v.args[2]) in (".sum", "numpy.sum") and tm.contains(v.args[2], lambda x: x.op == "sub" and x.args[0] == REGION)
    rep.check(bool(ok and lhs_margin and rhs_sum), "R-C02-e", where, "common slice := margin slice - sum(uncommon slice)", "", "the written value is %s" % tm.show(v)[:100])
    if ok and lhs_margin and rhs_sum:
        margin_idx = v.args[1].args[1]
        unc = [x for x in tm.walk(v.args[2]) if x.op == "sub" and x.args[0] == REGION][0].args[1]
        axis_kw = tm.kwarg(v.args[2], "axis")
        m_ok = tm.contains(margin_idx, lambda x: tm.is_const(x, -1))
        u_ok = tm.contains(unc, lambda x: x.op == "call" and tm.callee_name(x) == "builtins.slice" and x.args[1] == (tm.NONE, tm.const(-1)))
        # decided only for index tuples written as a generator with a conditional element per axis; an index assembled some
        # other way (a template list with one position replaced, a helper) is not read here
        gen_form = all(tm.contains(ix, lambda x: x.op == "ifexp") for ix in (margin_idx, unc))
        if m_ok and u_ok:
            rep.proved("R-C02-e", where, "margin slice is coordinate -1, uncommon slice is [:-1] on the differenced axis", "")
        elif gen_form:
            rep.violated("R-C02-e", where, "margin slice is coordinate -1, uncommon slice is [:-1] on the differenced axis", "margin %s, uncommon %s" % (tm.show(margin_idx)[:50], tm.show(unc)[:50]))
        else:
            rep.undecided("R-C02-e", where, "margin slice is coordinate -1, uncommon slice is [:-1] on the differenced axis", "index tuples are not built by a per-axis generator: margin %s" % tm.show(margin_idx)[:60])
        a_ok = axis_kw is not None and axis_kw.op == "binop" and axis_kw.args[0] == "+" and tm.contains(axis_kw, lambda x: x.op == "call" and tm.callee_name(x) == "builtins.len")
        has_len = lambda t: tm.contains(t, lambda x: x.op == "call" and tm.callee_name(x) == "builtins.len")
        if not a_ok and axis_kw is not None and axis_kw.op == "enumidx" and len(axis_kw.args) > 2 and axis_kw.args[2] is not None and has_len(axis_kw.args[2]):
            a_ok = True  # enumerate(self.dims, len(self.scaffold)): the loop index already carries the offset
        cons_ax = "the sum runs along the differenced axis, offset by the number of extra axes"
        unshifted = axis_kw is not None and axis_kw.op == "enumidx" and (len(axis_kw.args) <= 2 or axis_kw.args[2] is None or tm.is_const(axis_kw.args[2], 0))
        if a_ok:
            rep.proved("R-C02-e", where, cons_ax, "axis = len(scaffold) + axis")
        elif axis_kw is None or unshifted:
            rep.violated("R-C02-e", where, cons_ax, "axis is %s: %s" % (axis_kw and tm.show(axis_kw)[:50], "no axis - everything is summed" if axis_kw is None else "the dimension's own number, without the extra axes in front of it"),
                         witness={"inputs": "a dimension with extra axes (a 2-D index): the sum runs along an extra axis instead of the differenced one"})
        else:
            rep.undecided("R-C02-e", where, cons_ax, "axis is %s: not the recognised `len(scaffold) + axis` / enumerate(dims, len(scaffold)) forms" % tm.show(axis_kw)[:60])
    # no axis is skipped: the store is unconditional inside the per-axis loop
    from sa.symex import flat_guards as _fg
    g = _fg(e.guards)
    if g:
        rows_vs_entries = any(c.op == "cmp" and c.args[0] in ("==", "!=", ">=", "<") and tm.contains(c, lambda x: x.op == "call" and tm.callee_name(x) == "builtins.sum")
                              and tm.contains(c, lambda x: x.op == "sub" and x.args[0].op == "attr" and x.args[0].args[1] == "shape" and tm.is_const(x.args[1], 0)) for c, pol in g)
        if rows_vs_entries:
            rep.violated("R-C02-e", "%s@%d" % (where, e.line), "the differencing pass of an axis is not skipped",
                         "the pass is skipped when the listed row ids add up to shape[0] (the number of ROWS): for a dimension with several columns the entries of all columns are summed, so the total can reach the row count while columns still hold the common value - their common cells are never reconstructed",
                         witness={"inputs": "a (N, 2) dimension with one full column and one all-common column, crossed with another dimension: the common cells of that axis stay 0 and are reported missing"})
        else:
            rep.undecided("R-C02-e", "%s@%d" % (where, e.line), "the differencing pass of an axis is not skipped", "the store is conditional on %s" % [tm.show(c)[:40] for c, p in g])
    else:
        rep.proved("R-C02-e", where, "the differencing pass of an axis is not skipped", "unconditional inside the per-axis loop")
    # every axis in order
    li = I.loopinfo[e.loops[0]]
    it = li.get("iter")
    over_dims = it is not None and tm.contains(it, lambda x: x.op == "attr" and x.args[1] == "dims")
    whole = it is not None and ((tm.contains(it, lambda x: x.op == "call" and tm.callee_name(x) == "builtins.range") and not tm.contains(it, lambda x: x.op == "binop"))
                                or (it.op == "call" and tm.callee_name(it) == "builtins.enumerate" and 1 <= len(it.args[1]) <= 2 and it.args[1][0].op == "attr" and it.args[1][0].args[1] == "dims")
                                or (it.op == "attr" and it.args[1] == "dims"))
    if over_dims and whole:
        rep.proved("R-C02-e", where, "one differencing pass per dimension", "the loop runs over every dimension: %s" % tm.show(it)[:50])
    elif over_dims and tm.contains(it, lambda x: x.op == "sub" and x.args[1].op == "slice"):
        rep.violated("R-C02-e", where, "one differencing pass per dimension", "the loop runs over a slice of the dimensions: %s" % tm.show(it)[:60], witness={"inputs": "a cube whose skipped dimension has rows in its common category"})
    else:
        rep.undecided("R-C02-e", where, "one differencing pass per dimension", "loop runs over %s" % (it and tm.show(it)[:60]))


def rule_g(prog, rep):
    from sa import tasks
    from sa.symex import flat_guards
    info = tasks.analyse_cube(prog, "ccubes", "ccube")
    where = info.fi.fq
    entries = list(info.callbacks) + list(info.serial_calls)
    if not entries:
        rep.undecided("R-C02-g", where, "task activations", "no task function dispatched from calculate (anchor vanished)")
        return
    n = 0
    for entry in entries:
        kind = "pooled" if entry in info.callbacks else "serial"
        walks = [e for e in tasks.task_events(info, entry) if e.kind == "call" and e["method"] == "walk"]
        rep.check(len(walks) == 1 and not [g for g in walks[0].guards if g not in entry.guards and not _interrupt_guard(g)], "R-C02-g", "%s@%d" % (where, entry.line),
                  "%s task: the sub-cube is walked exactly once, unconditionally" % kind, "", "walk is called %d time(s) or under a condition" % len(walks))
        n += 1
        for ev, extra in tasks.early_returns(info, entry):
            g = flat_guards(extra)
            w = "%s@%d" % (where, ev.line)
            cons = "%s task: early return" % kind
            anys = [(c, pol) for c, pol in g if c.op == "call" and tm.callee_name(c) == "builtins.any"]
            alls = [(c, pol) for c, pol in g if c.op == "call" and tm.callee_name(c) == "builtins.all"]
            others = [x for x in g if x not in anys and x not in alls and not _interrupt_guard(x)]
            if alls and not others and all(not pol for c, pol in alls):
                rep.violated("R-C02-g", w, cons, "the task returns as soon as SOME dimension of the sub-cube has no entry: the margins of the other dimensions are never filled, so differencing leaves the whole total in the all-common cell",
                             witness={"inputs": "ccube([A, K]).count() where every row of K holds K's common value: (a, common) comes out 0 and missing, (common, common) holds N"})
            elif anys and not others and not alls and all(not pol for c, pol in anys):
                rep.proved("R-C02-g", w, cons, "taken only when NO dimension has an entry: the walk would present nothing")
            else:
                rep.undecided("R-C02-g", w, cons, "cannot decide whether the skipped sub-cube had anything to present (guards: %s)" % [tm.show(c)[:40] for c, p in g])
    rep.floor("R-C02-g", 2, n)


def _interrupt_guard(g):
    c, pol = g
    return tm.contains(c, lambda x: x.op == "attr" and x.args[1] == "check_interrupt")


def main(tier):
    rep = core.Report("C02", level="other", rules=RULES, tier=tier,
                      declined="every cell equals the brute-force contingency count for all data (values); decided are the structural conditions that make the reconstructed common cells right")
    rep.trusted_base = ["CPython ast", "symbolic walker + configuration oracle", "aggregate algebra normaliser"]
    rep.assume("exact intersections (C08) and well-formed indexes (C07) are established by their own checks")
    prog = Program()
    C = AT.Collector()
    n_a = AT.rule_difference_typestate(prog, C)
    n_b = AT.rule_corner_cell(prog, C, "R-C02-b", classes=("count",))
    for rule, status, where, cons, detail, wit in C.items:
        rep.add(rule, where, cons, status, detail, True, wit)
    rep.floor("R-C02-a", 100, n_a)
    rep.floor("R-C02-b", 10, n_b)
    rule_c(prog, rep)
    rule_d(prog, rep)
    rule_e(prog, rep)
    CT2 = AT.Collector()
    nt2 = AT.rule_tracing_twins(prog, CT2, "R-C02-j", classes=("count",))
    for rule, status, where, cons, detail, wit in CT2.items:
        rep.add(rule, where, cons, status, detail, True, wit)
    rep.floor("R-C02-j", 2, nt2)
    CD = AT.Collector()
    nd = AT.rule_region_dtypes(prog, CD, "R-C02-h", classes=("count",))
    for rule, status, where, cons, detail, wit in CD.items:
        rep.add(rule, where, cons, status, detail, True, wit)
    rep.floor("R-C02-h", 4, nd)
    CK = AT.Collector()
    nk = AT.rule_region_kind(prog, CK, "R-C02-k", modules=("ffuncs",), classes=("count",))
    for rule, status, where, cons, detail, wit in CK.items:
        rep.add(rule, where, cons, status, detail, True, wit)
    rep.floor("R-C02-k", 10, nk)
    CE = AT.Collector()
    ne = AT.rule_every_cell_written(prog, CE, "R-C02-m")
    for rule, status, where, cons, detail, wit in CE.items:
        rep.add(rule, where, cons, status, detail, True, wit)
    rep.floor("R-C02-m", 20, ne)
    rule_g(prog, rep)
    import c16
    sub16 = core.Report("C16", level="other", rules=c16.RULES, tier=tier)
    c16.analyse_one(prog, "ccubes", "ccube", sub16)
    k16 = 0
    for o in sub16.obls:
        if o.rule in ("R-C16-c", "R-C16-e"):
            k16 += 1
            rep.add("R-C02-i", o.where, "[%s] %s" % (o.rule, o.construct), o.status, o.detail, True, o.witness)
        elif o.rule in ("R-C16-a", "R-C16-b"):
            # what a sub-cube task writes is its own block (or task-local): a helper cube / scratch object shared by the tasks
            # lets one task walk another task's slices into its block
            k16 += 1
            rep.add("R-C02-i", o.where, "[%s] %s" % (o.rule, o.construct), o.status, o.detail, True,
                    o.witness if o.status != "VIOLATED" else dict(o.witness or {}, history="pooled evaluation of a dimension with extra axes: a column receives another column's counts"))
    # the kernels the walk calls return freshly allocated results (a reused module-level workspace is overwritten by the
    # deeper intersections of a 3-D walk while the outer one is still the base): sa/cystate.py, as in R-C16-f / R-C17-e
    from sa import cyfront, cystate
    for status, where16, cons16, detail16 in cystate.analyse(cyfront.load()):
        k16 += 1
        rep.add("R-C02-i", where16, "[R-C16-f] %s" % cons16, status, detail16, True,
                {"inputs": "a count cube over three or more dimensions: an intersection kept as the base of the recursion is overwritten by the next call"} if status == "VIOLATED" else None)
    rep.floor("R-C02-i", 6, k16)
    # R-C02-f: the counts are laid down by the walk: its schema (every non-empty uncommon / marginal
    # intersection presented exactly once, no early exit) is decided by the C14 analysis and imported here
    import c14
    sub = core.Report("C14", level="other", rules=c14.RULES, tier=tier)
    c14.analyse(prog, sub)
    c14.walk_rules(prog, sub)
    for o in sub.obls:
        rep.add("R-C02-f", o.where, "[%s] %s" % (o.rule, o.construct), o.status, o.detail, True, o.witness)
    rep.floor("R-C02-f", 30, len(sub.obls))
    # R-C02-l: what the cube reads from a dimension (its 1-D slices, items, common rows) is computed from the index's
    # CURRENT entries at every evaluation - a cache kept on the index survives in-place edits that bypass its invalidation
    # (dict.pop does not call __delitem__) and the next cube counts rows that are no longer there
    import c17
    st17 = {"events": 0, "mods": 0, "diagnostic": {}, "exceptions": {}, "regions": 0, "shortcuts": 0}
    k17 = 0
    ii17 = prog.cls("iindexes", "iindex")
    for n17 in ("slices1d", "sliced", "items", "get", "common_rowids", "abscissae", "size"):
        f17 = ii17.methods.get(n17)
        if f17 is not None:
            c17.analyse_root(prog, f17, "pure", rep, st17, RA="R-C02-l", RB="R-C02-l", extra=False)
            k17 += 1
    rep.floor("R-C02-l", 5, k17)
    return rep.finish()


if __name__ == "__main__":
    core.run_main("C02", main)
