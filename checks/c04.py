#!/venv/bin/python
"""C04 - missing-cell rule and the three missing-value report formats agree.

Declined: that the integer counters hold the right numbers for given data (values; their
DEFINITIONS are checked under C03).
Decided (engine P + A over every reduce, per configuration):
  R-C04-a  the predicate that selects missing cells: propagate -> valid==0 | missing!=0;
           ignore -> valid==0; unweighted count -> count==0; stddev additionally valid<2;
           the reducer behind `valid` is the unweighted count of valid rows, except for
           the means, where it is the weighted one ("the valid weights sum to zero");
  R-C04-b  format coherence: in the pair format the returned validity is the negation of
           the very mask at which the sentinel is written, the sentinel is
           return_missing_as[0]; NaN and pair formats mark the same cells;
  R-C04-c  exact == 0 / != 0 tests act only on integral counters, or after adjust_zeros(new=0)
           (index cube only: its regions are differenced in floating point).
"""
import os
import sys

sys.path.insert(0, os.path.dirname(os.path.dirname(os.path.abspath(__file__))))
from sa import core, aggtables as AT
from sa.pyfront import Program

RULES = {
    "R-C04-k": "index-cube fill closures write every region of the presented cell unconditionally (no data-dependent skip): a skipped cell's rows stay in the margin and marginal differencing charges them to the common cell",
    "R-C04-j": "the input-format helper as_separate_validity (summarised by every aggregate rule) keeps its contract: a (values, validity) pair is passed through; a single array gets validity = ~isnan(array) for every dtype with a missing marker (all float widths, datetime64 / timedelta64 NaT) - a dtype shortcut to all-True is accepted only for marker-free kinds",
    "R-C04-i": "a weight given as a per-row array or as a bare scalar takes part in the constructor's row arrays (a dropped scalar weight loses its missingness and its zero)",
    "R-C04-h": "a region that receives weight or fact values is never an integer region nor typed after the weights (a weighted valid count that wraps to 0 makes a fully valid cell missing)",
    "R-C04-g": "aggregate constructors do not overwrite the caller's arrays (imported from the C17 analysis): zero-filling the caller's NaN-marked rows in place erases the missing markers, so a later aggregate over the same array - in another report format or the other cube - sees no missing cell",
    "R-C04-f": "the counters the array cube fills (valid / missing counts, per fill branch incl. several fact columns) are the same reducers as the index cube's: the shared missing-cell predicate then reads the same quantities in both cubes",
    "R-C04-e": "every near-zero test that decides 'this differenced counter is zero' (adjust_zeros' default, ffunc_count/xfunc_count.reduce) uses isclose(x, 0) with NumPy's default absolute tolerance, as documented - not a narrower one",
    "R-C04-d": "the counters read by the missing test mean the same thing in the grand total as in the cells (corner = all-rows instance of the cell value, per fact column): the missing test of a reconstructed common cell then sees that cell's own rows",
    "R-C04-a": "missing-cell predicate table per class x policy x format equals the documented rule",
    "R-C04-b": "pair-format validity = ~(mask used to write the sentinel); sentinel = return_missing_as[0]; NaN and pair formats use the same mask",
    "R-C04-c": "exact zero tests only on integral counters or after adjust_zeros(new=0)",
}


def main(tier):
    rep = core.Report("C04", level="other", rules=RULES, tier=tier,
                      declined="that the counters hold the right numbers for given data (values); valid_count with plain replacement 0 is excluded as the property says")
    rep.trusted_base = ["CPython ast", "symbolic walker + configuration oracle", "aggregate algebra normaliser"]
    prog = Program()
    from sa import valhelper
    nvh = 0
    for _m in ('ffuncs', 'xfuncs'):
        nvh += valhelper.check(prog, rep, _m, 'R-C04-j')
    rep.floor('R-C04-j', 4, nvh)
    C = AT.Collector()
    n_a = AT.rule_predicates(prog, C, AT.SHARED)
    n_b = 0
    for mod, pre in (("ffuncs", "ffunc_"), ("xfuncs", "xfunc_")):
        for name in AT.SHARED:
            n_b += AT.rule_format_coherence(prog, C, mod, pre + name, "%s (%s)" % (name, "index cube" if mod == "ffuncs" else "array cube"),
                                            cfgs=AT.weight_modes(name))
    n_c = AT.rule_exact_tests(prog, C)
    n_d = AT.rule_corner_cell(prog, C, "R-C04-d")
    n_f = AT.rule_sibling_fill(prog, C, rule="R-C04-f")
    n_t = AT.rule_zero_snap_tolerance(prog, C, "R-C04-e")
    for rule, status, where, cons, detail, wit in C.items:
        rep.add(rule, where, cons, status, detail, True, wit)
    import c17
    sub17 = core.Report("C17", level="other", rules=c17.RULES, tier=tier)
    st17 = {"events": 0, "mods": 0, "diagnostic": {}, "exceptions": {}, "regions": 0, "shortcuts": 0}
    k17 = 0
    for fi17, kind17 in c17.build_roots(prog):
        if kind17 == "ctor" and fi17.module in ("ffuncs", "xfuncs") and not fi17.opaque:
            c17.analyse_root(prog, fi17, kind17, sub17, st17)
            k17 += 1
    for o in sub17.obls:
        if o.rule == "R-C17-a":
            rep.add("R-C04-g", o.where, "[%s] %s" % (o.rule, o.construct), o.status, o.detail, True, o.witness)
    rep.floor("R-C04-g", 10, k17)
    # R-C04-h: the regions behind the missing-cell tests keep what is stored into them (region kind, shared with C03)
    CK = AT.Collector()
    nk = AT.rule_region_kind(prog, CK, "R-C04-h")
    for rule, status, where, cons, detail, wit in CK.items:
        rep.add(rule, where, cons, status, detail, True, wit)
    rep.floor("R-C04-h", 60, nk)
    CW = AT.Collector()
    nw = AT.rule_weights_used(prog, CW, "R-C04-i")
    for rule, status, where, cons, detail, wit in CW.items:
        rep.add(rule, where, cons, status, detail, True, wit)
    rep.floor("R-C04-i", 10, nw)
    CE = AT.Collector()
    ne = AT.rule_every_cell_written(prog, CE, "R-C04-k")
    for rule, status, where, cons, detail, wit in CE.items:
        rep.add(rule, where, cons, status, detail, True, wit)
    rep.floor("R-C04-k", 20, ne)
    rep.floor("R-C04-a", 100, n_a)
    rep.floor("R-C04-b", 100, n_b)
    rep.floor("R-C04-c", 20, n_c)
    rep.floor("R-C04-d", 30, n_d)
    rep.analysed["models"] = len(AT._cache)
    return rep.finish()


if __name__ == "__main__":
    core.run_main("C04", main)
